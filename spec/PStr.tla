-------------------------------- MODULE PStr --------------------------------
(* C20, layer B: the byte layout of partial strings (src/machine/heap.rs).                      *)
(*                                                                                             *)
(* Layer A has no strings: a string IS the list of its characters.  This module models the heap *)
(* as a sequence of byte entries and tagged 8-byte cells, transcribes the writer                 *)
(* (ReservedHeapSection::push_pstr / push_pstr_segment), the scanner (scan_slice_to_str,         *)
(* Heap::pstr_tail_idx, compute_pstr_size) and the segment comparison (compare_pstr_slices with  *)
(* its continuation offsets) and defines the abstraction function Read: heap value -> list.      *)
(* MC_C20 lets TLC check   Read(Write(s, tail)) = (s, tail),   scanner tail = writer tail from    *)
(* every character offset, and that a comparison driven by the continuation points of            *)
(* compare_pstr_slices agrees with the comparison of the abstract lists.                          *)
(*                                                                                             *)
(* The capacity arithmetic shared with C33 (Sent, SegCells, TailIdx, PStrSizeBytes, Written)      *)
(* comes from Heap.tla.                                                                          *)
EXTENDS Integers, Sequences, FiniteSets

H == INSTANCE Heap WITH InitCap <- 64, MaxCap <- 64, len <- 0, cap <- 0, wend <- 0, op <- 0

Cell == 8
NextMult(x) == ((x + Cell - 1) \div Cell) * Cell
Sent(n) == H!Sent(n)                   \* pstr_sentinel_length

(* ---- UTF-8 ---- *)
Utf8(cp) ==
  IF cp < 128 THEN <<cp>>
  ELSE IF cp < 2048 THEN <<192 + (cp \div 64), 128 + (cp % 64)>>
  ELSE IF cp < 65536 THEN <<224 + (cp \div 4096), 128 + ((cp \div 64) % 64), 128 + (cp % 64)>>
  ELSE <<240 + (cp \div 262144), 128 + ((cp \div 4096) % 64), 128 + ((cp \div 64) % 64), 128 + (cp % 64)>>
RECURSIVE Bytes(_)
Bytes(cs) == IF cs = <<>> THEN <<>> ELSE Utf8(Head(cs)) \o Bytes(Tail(cs))
CharLen(b) == IF b < 128 THEN 1 ELSE IF b < 224 THEN 2 ELSE IF b < 240 THEN 3 ELSE 4
RECURSIVE Decode(_)
Decode(bs) ==
  IF bs = <<>> THEN <<>>
  ELSE LET n == CharLen(bs[1])
           cp == IF n = 1 THEN bs[1]
                 ELSE IF n = 2 THEN (bs[1] - 192) * 64 + (bs[2] - 128)
                 ELSE IF n = 3 THEN (bs[1] - 224) * 4096 + (bs[2] - 128) * 64 + (bs[3] - 128)
                 ELSE (bs[1] - 240) * 262144 + (bs[2] - 128) * 4096 + (bs[3] - 128) * 64 + (bs[4] - 128)
       IN <<cp>> \o Decode(SubSeq(bs, n + 1, Len(bs)))

(* ---- memory: entry j+1 is byte offset j.  A data byte is [k "b"], a tagged cell occupies 8 entries: [k "c"] + 7 [k "f"] ---- *)
B(v) == [k |-> "b", v |-> v, t |-> ""]
CellE(tag, v) == <<[k |-> "c", v |-> v, t |-> tag]>> \o [j \in 1..(Cell - 1) |-> [k |-> "f", v |-> 0, t |-> ""]]
Val(tag, v) == [tag |-> tag, v |-> v]
None == Val("none", 0)
CellLen(mem) == Len(mem) \div Cell

(* ---- the writer ---- *)
PushCell(mem, tag, v) == mem \o CellE(tag, v)

(* push_pstr_segment: the bytes, pstr_sentinel_length zero bytes, and a further zero cell when the padding is one byte *)
PushSegment(mem, bs) ==
  LET z == Len(mem) + Len(bs)
      a == Sent(z)
  IN mem \o [j \in 1..Len(bs) |-> B(bs[j])] \o [j \in 1..(IF a = 1 THEN 1 + Cell ELSE a) |-> B(0)]

RECURSIVE NulFree(_)
NulFree(cs) == IF cs = <<>> \/ cs[1] = 0 THEN 0 ELSE 1 + NulFree(Tail(cs))

(* push_pstr: NUL characters split the string into list cells [\0|..]; ret is the value of the whole string *)
RECURSIVE PushPStr(_, _, _)
PushPStr(mem, src, ret) ==
  IF src = <<>> THEN [mem |-> mem, root |-> ret]
  ELSE IF src[1] = 0 THEN
    LET cl == CellLen(mem)
        m1 == IF ret # None THEN PushCell(mem, "lis", cl + 1) ELSE mem
        r1 == IF ret # None THEN ret ELSE Val("lis", cl)
    IN PushPStr(PushCell(m1, "chr", 0), Tail(src), r1)
  ELSE
    LET n    == NulFree(src)
        rest == SubSeq(src, n + 1, Len(src))
        cl   == CellLen(mem)
        m1   == IF ret # None THEN PushCell(mem, "pstr", (cl + 1) * Cell) ELSE mem
        r1   == IF ret # None THEN ret ELSE Val("pstr", cl * Cell)
        m2   == PushSegment(m1, Bytes(SubSeq(src, 1, n)))
    IN IF rest = <<>> THEN [mem |-> m2, root |-> r1]
       ELSE LET c2 == CellLen(m2)
            IN PushPStr(PushCell(PushCell(m2, "lis", c2 + 1), "chr", 0), Tail(rest), r1)

(* a string followed by its tail cell, appended to mem (allocate_pstr + the caller's tail; allocate_cstr for "nil") *)
WriteAt(mem, s, tl) ==
  LET w == PushPStr(mem, s, None)
  IN IF w.root = None THEN [mem |-> mem, root |-> tl]
     ELSE [mem |-> PushCell(w.mem, tl.tag, tl.v), root |-> w.root]
Write(s, tl) == WriteAt(<<>>, s, tl)

(* a string stored as several partial strings chained through their tail cells: parts = sequence of code-point sequences *)
RECURSIVE WriteParts(_, _, _)
WriteParts(mem, parts, tl) ==
  IF parts = <<>> THEN [mem |-> mem, root |-> tl]
  ELSE LET rest == WriteParts(mem, Tail(parts), tl)        \* the later parts first: the tail cell must hold their value
       IN WriteAt(rest.mem, Head(parts), rest.root)

(* ---- the scanner ---- *)
Entry(mem, off) == IF off < Len(mem) THEN mem[off + 1] ELSE [k |-> "end", v |-> 0, t |-> ""]
RECURSIVE StrLen(_, _)
StrLen(mem, off) == LET e == Entry(mem, off) IN IF e.k = "b" /\ e.v # 0 THEN 1 + StrLen(mem, off + 1) ELSE 0

(* scan_slice_to_str on the slice starting at byte offset off: [ok, bytes, tail = absolute cell index of the tail] *)
Scan(mem, off) ==
  LET n    == StrLen(mem, off)
      z    == off + n
      e    == Entry(mem, z)
      sl   == Sent(z)
      trel == (NextMult(n + sl) + (IF sl <= 1 THEN Cell ELSE 0)) \div Cell
  IN [ok    |-> e.k = "b" /\ e.v = 0,
      bytes |-> [j \in 1..n |-> mem[off + j].v],
      tail  |-> (off \div Cell) + trel,
      zero  |-> z]
(* Heap::pstr_tail_idx(zero byte location) *)
PStrTailIdx(z) == IF (z + 1) % Cell = 0 THEN (z \div Cell) + 2 ELSE (z \div Cell) + 1

(* ---- abstraction: the list a heap value denotes: [ok, chars, tail] ---- *)
Bad == [ok |-> FALSE, chars |-> <<>>, tail |-> None]
CellVal(mem, c) == LET e == Entry(mem, c * Cell) IN IF e.k = "c" THEN Val(e.t, e.v) ELSE Val("garbage", 0)
RECURSIVE Read(_, _, _)
Read(mem, val, fuel) ==
  IF fuel = 0 THEN Bad
  ELSE IF val.tag = "pstr" THEN
    LET sc == Scan(mem, val.v) IN
    IF ~sc.ok \/ sc.bytes = <<>> THEN Bad
    ELSE LET r == Read(mem, CellVal(mem, sc.tail), fuel - 1)
         IN [ok |-> r.ok, chars |-> Decode(sc.bytes) \o r.chars, tail |-> r.tail]
  ELSE IF val.tag = "lis" THEN
    LET h == CellVal(mem, val.v)
        r == Read(mem, CellVal(mem, val.v + 1), fuel - 1)
    IN IF h.tag # "chr" THEN Bad ELSE [ok |-> r.ok, chars |-> <<h.v>> \o r.chars, tail |-> r.tail]
  ELSE IF val.tag \in {"garbage", "none", "chr"} THEN Bad
  ELSE [ok |-> TRUE, chars |-> <<>>, tail |-> val]

(* ---- compare_pstr_slices(slice from loc1, slice from loc2) ---- *)
(* Result [r |-> "lt" | "gt" | "cont", c1, c2]; a continuation is Off(p) = PStrOffset(p) or Tl(i) = TailIndex(i).       *)
(* AsIs = TRUE transcribes the code as it is: when string 1 ends and string 2 goes on, the tail index of string 1 is     *)
(* computed from cell_index!(pos) WITHOUT the offset of the slice start inside its cell (the other two branches add it).  *)
(* AsIs = FALSE adds it (the intended arithmetic).                                                                       *)
Off(p) == [k |-> "off", v |-> p]
Tl(i)  == [k |-> "tail", v |-> i]
ByteAt(mem, off) == LET e == Entry(mem, off) IN IF e.k = "b" THEN e.v ELSE 0
RECURSIVE FirstStop(_, _, _, _)
FirstStop(mem, l1, l2, p) ==
  LET b1 == ByteAt(mem, l1 + p)  b2 == ByteAt(mem, l2 + p)
  IN IF b1 # b2 \/ b1 = 0 \/ b2 = 0 THEN p ELSE FirstStop(mem, l1, l2, p + 1)
FindTail(off) == LET sl == Sent(off) IN (NextMult(sl) + (IF sl <= 1 THEN Cell ELSE 0)) \div Cell     \* scan of a slice that starts at the zero byte
CmpSlices(mem, l1, l2, AsIs) ==
  LET pos == FirstStop(mem, l1, l2, 0)
      b1  == ByteAt(mem, l1 + pos)
      b2  == ByteAt(mem, l2 + pos)
      r1  == l1 % Cell                     \* offset_pos_1
      r2  == l2 % Cell
  IN IF b1 = 0 THEN
       IF b2 = 0 THEN [r |-> "cont", c1 |-> Tl(FindTail(l1 + pos) + ((pos + r1) \div Cell)), c2 |-> Tl(FindTail(l2 + pos) + ((pos + r2) \div Cell)), dev |-> FALSE]
       ELSE [r |-> "cont", c1 |-> Tl(FindTail(l1 + pos) + ((IF AsIs THEN pos ELSE pos + r1) \div Cell)), c2 |-> Off(pos),
             dev |-> (pos \div Cell) # ((pos + r1) \div Cell)]       \* here the code as it is names a different cell than the intended arithmetic
     ELSE IF b2 = 0 THEN [r |-> "cont", c1 |-> Off(pos), c2 |-> Tl(FindTail(l2 + pos) + ((pos + r2) \div Cell)), dev |-> FALSE]
     (* both strings go on and differ at pos: the code compares the valid UTF-8 runs of the 7-byte windows around pos,  *)
     (* which share everything before pos; for well-formed UTF-8 that is the order of the bytes at pos                   *)
     ELSE [r |-> IF b1 < b2 THEN "lt" ELSE "gt", c1 |-> Off(0), c2 |-> Off(0), dev |-> FALSE]
(* PStrContinuable::offset_by *)
OffsetBy(mem, c, loc) == IF c.k = "off" THEN Val("pstr", loc + c.v) ELSE CellVal(mem, c.v + (loc \div Cell))

(* ---- the order of two abstract lists (standard order of terms restricted to lists of characters):             *)
(* characters by code point; at the first difference a variable tail precedes an atom tail ([] before foo),     *)
(* and every atomic tail precedes a further list cell.                                                           *)
TRank(t) == CASE t = "var" -> 0 [] t = "nil" -> 1 [] t = "atom" -> 2 [] OTHER -> 3
RECURSIVE AbsCmp(_, _, _, _)
AbsCmp(s1, t1, s2, t2) ==
  IF s1 = <<>> /\ s2 = <<>> THEN (IF TRank(t1) < TRank(t2) THEN "lt" ELSE IF TRank(t1) > TRank(t2) THEN "gt" ELSE "eq")
  ELSE IF s1 = <<>> THEN "lt"          \* an atomic tail against a list cell
  ELSE IF s2 = <<>> THEN "gt"
  ELSE IF s1[1] < s2[1] THEN "lt" ELSE IF s1[1] > s2[1] THEN "gt" ELSE AbsCmp(Tail(s1), t1, Tail(s2), t2)

(* ---- representations: a list stored as a chain of chunks, each either a partial string ("p") or cons cells ("c") ---- *)
Chunk(kind, cs) == [kind |-> kind, cs |-> cs]
RECURSIVE WriteCells(_, _, _)
WriteCells(mem, cs, tailval) ==
  IF cs = <<>> THEN [mem |-> mem, root |-> tailval]
  ELSE LET r == WriteCells(mem, Tail(cs), tailval)
           c == CellLen(r.mem)
       IN [mem |-> PushCell(PushCell(r.mem, "chr", Head(cs)), r.root.tag, r.root.v), root |-> Val("lis", c)]
RECURSIVE WriteRepr(_, _, _)
WriteRepr(mem, chunks, tl) ==
  IF chunks = <<>> THEN [mem |-> mem, root |-> tl]
  ELSE LET rest == WriteRepr(mem, Tail(chunks), tl)
           ch   == Head(chunks)
       IN IF ch.kind = "p" THEN WriteAt(rest.mem, ch.cs, rest.root) ELSE WriteCells(rest.mem, ch.cs, rest.root)

(* Heap::last_str_char_and_tail(loc): the character at loc and the value of what follows it *)
CharAndSucc(mem, loc) ==
  LET n    == CharLen(ByteAt(mem, loc))
      c    == Decode([j \in 1..n |-> ByteAt(mem, loc + j - 1)])[1]
      next == ByteAt(mem, loc + n)
  IN [c |-> c, succ |-> IF next = 0 THEN CellVal(mem, Scan(mem, loc).tail) ELSE Val("pstr", loc + n)]

(* the comparison of two heap values as heap_iter.rs performs it on lists: segment-wise through compare_pstr_slices and   *)
(* its continuation points when both sides are partial strings, character-wise when a list cell is involved, and by the  *)
(* order of the remaining terms (taken from the abstraction) once a side is not a list cell any more                     *)
RECURSIVE WalkCmp(_, _, _, _, _)
WalkCmp(mem, v1, v2, AsIs, fuel) ==
  IF fuel = 0 THEN "diverge"
  ELSE IF v1.tag = "pstr" /\ v2.tag = "pstr" THEN
    LET c == CmpSlices(mem, v1.v, v2.v, AsIs) IN
    IF c.r # "cont" THEN c.r
    ELSE WalkCmp(mem, OffsetBy(mem, c.c1, v1.v), OffsetBy(mem, c.c2, v2.v), AsIs, fuel - 1)
  ELSE IF v1.tag \in {"pstr", "lis"} /\ v2.tag \in {"pstr", "lis"} THEN
    LET h1 == IF v1.tag = "pstr" THEN CharAndSucc(mem, v1.v) ELSE [c |-> CellVal(mem, v1.v).v, succ |-> CellVal(mem, v1.v + 1)]
        h2 == IF v2.tag = "pstr" THEN CharAndSucc(mem, v2.v) ELSE [c |-> CellVal(mem, v2.v).v, succ |-> CellVal(mem, v2.v + 1)]
    IN IF h1.c < h2.c THEN "lt" ELSE IF h1.c > h2.c THEN "gt" ELSE WalkCmp(mem, h1.succ, h2.succ, AsIs, fuel - 1)
  ELSE LET a1 == Read(mem, v1, 64)  a2 == Read(mem, v2, 64)
       IN IF ~a1.ok \/ ~a2.ok THEN "garbage" ELSE AbsCmp(a1.chars, a1.tail.tag, a2.chars, a2.tail.tag)

(* the same walk with the intended arithmetic, in one pass: [r |-> its result, dev |-> did it pass a compare_pstr_slices *)
(* call at which the code as it is names a different cell (from there on the real comparison reads string bytes as a cell)] *)
RECURSIVE Walk(_, _, _, _, _)
Walk(mem, v1, v2, fuel, dev) ==
  IF fuel = 0 THEN [r |-> "diverge", dev |-> dev]
  ELSE IF v1.tag = "pstr" /\ v2.tag = "pstr" THEN
    LET c == CmpSlices(mem, v1.v, v2.v, FALSE) IN
    IF c.r # "cont" THEN [r |-> c.r, dev |-> dev]
    ELSE Walk(mem, OffsetBy(mem, c.c1, v1.v), OffsetBy(mem, c.c2, v2.v), fuel - 1, dev \/ c.dev)
  ELSE IF v1.tag \in {"pstr", "lis"} /\ v2.tag \in {"pstr", "lis"} THEN
    LET h1 == IF v1.tag = "pstr" THEN CharAndSucc(mem, v1.v) ELSE [c |-> CellVal(mem, v1.v).v, succ |-> CellVal(mem, v1.v + 1)]
        h2 == IF v2.tag = "pstr" THEN CharAndSucc(mem, v2.v) ELSE [c |-> CellVal(mem, v2.v).v, succ |-> CellVal(mem, v2.v + 1)]
    IN IF h1.c < h2.c THEN [r |-> "lt", dev |-> dev] ELSE IF h1.c > h2.c THEN [r |-> "gt", dev |-> dev]
       ELSE Walk(mem, h1.succ, h2.succ, fuel - 1, dev)
  ELSE LET a1 == Read(mem, v1, 64)  a2 == Read(mem, v2, 64)
       IN [r |-> IF ~a1.ok \/ ~a2.ok THEN "garbage" ELSE AbsCmp(a1.chars, a1.tail.tag, a2.chars, a2.tail.tag), dev |-> dev]
=============================================================================
