-------------------------------- MODULE Csv --------------------------------
(* Layer A for C51: CSV documents as library(csv) documents them (doc comment of               *)
(* /repo/src/lib/csv.pl) on top of the RFC 4180 grammar the property names.                    *)
(*                                                                                             *)
(* Text is a sequence of code points.  ParseDoc is the RFC 4180 grammar as a function           *)
(*     file    = record *(EOL record) [EOL]                                                     *)
(*     record  = field *(SEP field)                                                             *)
(*     field   = DQUOTE *(any char, DQUOTE doubled) DQUOTE  /  *(char other than SEP DQUOTE CR LF) *)
(* with EOL = CRLF (RFC 4180) or LF (the library's own example uses "\n"), SEP the documented  *)
(* option token_separator (default ","), header handling the documented option with_header      *)
(* (default true).  Frame gives the documented result term                                      *)
(*     frame(Header, Rows)   fields: string = list of characters, 2 -> the number 2, empty -> [] *)
(* ("col1,col2,col3,col4\none,2,,three" gives frame(["col1",..],[["one",2,[],"three"]]);       *)
(* with with_header(false): frame([], AllRows)).                                                *)
(*                                                                                             *)
(* What the documentation (and RFC 4180) do not determine is marked "unspec" and never          *)
(* generated: a CR that is not followed by LF outside quotes; the type of a field that contains *)
(* digits but is not a plain unquoted natural number (the documentation only shows 2 -> 2;     *)
(* signs, fractions, radix notations, quoted digits and digits next to layout are not covered); *)
(* the empty document; ragged tables; digits in the header line.                                *)
(* Malformed documents (RFC 4180): a quote inside an unquoted field, text after a closing quote, *)
(* an unterminated quote - the documentation promises nothing for them.                         *)
(*                                                                                             *)
(* A document ending in EOL: the final EOL is the optional terminator, not an additional        *)
(* record with one empty field (RFC 4180 section 2, rule 2).                                     *)
EXTENDS Integers, Sequences, TLC

cLF == 10   cCR == 13   cDQ == 34   cComma == 44   cSemi == 59

IsDigit(c) == c >= 48 /\ c <= 57
Has(cs, c) == \E i \in 1..Len(cs) : cs[i] = c
HasDigit(cs) == \E i \in 1..Len(cs) : IsDigit(cs[i])
IsNat(cs) == cs # <<>> /\ (\A i \in 1..Len(cs) : IsDigit(cs[i])) /\ (Len(cs) = 1 \/ cs[1] # 48)

-----------------------------------------------------------------------------
(* the grammar as a function: a scanner with four modes                                      *)
(*   "S" at the start of a field, "U" inside an unquoted field, "Q" inside a quoted field,   *)
(*   "E" after a quote inside a quoted field (closing quote or first half of a doubled one)  *)
(* result: st = "ok" | "malformed" | "unspec", recs = records of fields [s |-> text, q |-> quoted], *)
(* eols = the kinds of line ends met outside quotes                                           *)

PField(s, q) == [s |-> s, q |-> q]

RECURSIVE Scan(_, _, _, _, _, _, _, _, _)
Scan(cs, sep, i, mode, fld, row, recs, eols, st) ==
  LET endF(q) == Append(row, PField(fld, q))
      res(s, r) == [st |-> s, recs |-> r, eols |-> eols]
  IN
  IF st # "ok" THEN res(st, recs)
  ELSE IF i > Len(cs) THEN
    CASE mode = "S" -> IF row = <<>> THEN res("ok", recs) ELSE res("ok", Append(recs, endF(FALSE)))
      [] mode = "U" -> res("ok", Append(recs, endF(FALSE)))
      [] mode = "E" -> res("ok", Append(recs, endF(TRUE)))
      [] mode = "Q" -> res("malformed", recs)                               \* unterminated quote
  ELSE
  LET c    == cs[i]
      crlf == c = cCR /\ i < Len(cs) /\ cs[i + 1] = cLF
      eol  == c = cLF \/ crlf
      nxt  == IF crlf THEN i + 2 ELSE i + 1
      kind == IF crlf THEN "CRLF" ELSE "LF"
  IN
  CASE mode = "Q" ->
         IF c = cDQ THEN Scan(cs, sep, i + 1, "E", fld, row, recs, eols, st)
         ELSE Scan(cs, sep, i + 1, "Q", Append(fld, c), row, recs, eols, st)
    [] mode = "E" /\ c = cDQ ->
         Scan(cs, sep, i + 1, "Q", Append(fld, cDQ), row, recs, eols, st)
    [] mode \in {"S", "U", "E"} /\ c = sep ->
         Scan(cs, sep, i + 1, "S", <<>>, endF(mode = "E"), recs, eols, st)
    [] mode \in {"S", "U", "E"} /\ eol ->
         Scan(cs, sep, nxt, "S", <<>>, <<>>, Append(recs, endF(mode = "E")), eols \cup {kind}, st)
    [] mode \in {"S", "U", "E"} /\ c = cCR /\ ~crlf ->
         Scan(cs, sep, i + 1, mode, fld, row, recs, eols, "unspec")          \* bare CR
    [] mode = "S" /\ c = cDQ ->
         Scan(cs, sep, i + 1, "Q", <<>>, row, recs, eols, st)
    [] mode = "U" /\ c = cDQ ->
         Scan(cs, sep, i + 1, mode, fld, row, recs, eols, "malformed")       \* quote inside an unquoted field
    [] mode = "E" /\ c # cDQ /\ c # sep /\ ~eol /\ c # cCR ->
         Scan(cs, sep, i + 1, mode, fld, row, recs, eols, "malformed")       \* text after the closing quote
    [] OTHER ->
         Scan(cs, sep, i + 1, "U", Append(fld, c), row, recs, eols, st)

ParseDoc(cs, sep) == Scan(cs, sep, 1, "S", <<>>, <<>>, <<>>, {}, "ok")

-----------------------------------------------------------------------------
(* documented values of fields *)

VNull    == [k |-> "n", s |-> <<>>]
VStr(s)  == [k |-> "s", s |-> s]
VInt(s)  == [k |-> "i", s |-> s]        \* s = decimal digits

FieldUnspec(f) == HasDigit(f.s) /\ ~(~f.q /\ IsNat(f.s))
Val(f) == IF f.s = <<>> THEN VNull ELSE IF ~f.q /\ IsNat(f.s) THEN VInt(f.s) ELSE VStr(f.s)

Vals(rec) == [j \in 1..Len(rec) |-> Val(rec[j])]

(* the documented result of parse_csv//2 for a document: [st, h, rows] *)
Frame(cs, sep, header) ==
  LET p == ParseDoc(cs, sep)
      n == Len(p.recs)
      rect == \A i \in 1..n : Len(p.recs[i]) = Len(p.recs[1])
      unsp == \/ n = 0
              \/ ~rect
              \/ \E i \in 1..n : \E j \in 1..Len(p.recs[i]) : FieldUnspec(p.recs[i][j])
              \/ header /\ \E j \in 1..Len(p.recs[1]) : HasDigit(p.recs[1][j].s)
  IN IF p.st # "ok" THEN [st |-> p.st, h |-> <<>>, rows |-> <<>>]
     ELSE IF unsp THEN [st |-> "unspec", h |-> <<>>, rows |-> <<>>]
     ELSE IF header THEN [st |-> "ok", h |-> Vals(p.recs[1]), rows |-> [i \in 1..(n - 1) |-> Vals(p.recs[i + 1])]]
     ELSE [st |-> "ok", h |-> <<>>, rows |-> [i \in 1..n |-> Vals(p.recs[i])]]

-----------------------------------------------------------------------------
(* textual variants of a table (used to generate documents): table = rows of field texts *)

NeedsQuote(s, sep) == Has(s, sep) \/ Has(s, cDQ) \/ Has(s, cCR) \/ Has(s, cLF)

RECURSIVE Doubled(_)
Doubled(s) == IF s = <<>> THEN <<>> ELSE (IF s[1] = cDQ THEN <<cDQ, cDQ>> ELSE <<s[1]>>) \o Doubled(Tail(s))

FieldText(s, quote) == IF quote THEN <<cDQ>> \o Doubled(s) \o <<cDQ>> ELSE s

(* qmode: "min" quote only where the grammar requires it, "all" every field, "odd" additionally every field with i+j odd *)
Quoted(s, sep, qmode, i, j) == NeedsQuote(s, sep) \/ qmode = "all" \/ (qmode = "odd" /\ (i + j) % 2 = 1)

RECURSIVE Join(_, _)
Join(ss, sep) == IF ss = <<>> THEN <<>> ELSE IF Len(ss) = 1 THEN ss[1] ELSE ss[1] \o sep \o Join(Tail(ss), sep)

EolText(le) == IF le = "CRLF" THEN <<cCR, cLF>> ELSE <<cLF>>

Encode(table, sep, qmode, le, trail) ==
  Join([i \in 1..Len(table) |->
          Join([j \in 1..Len(table[i]) |-> FieldText(table[i][j], Quoted(table[i][j], sep, qmode, i, j))], <<sep>>)],
       EolText(le))
  \o (IF trail THEN EolText(le) ELSE <<>>)

(* the texts of the parsed records (for the round-trip theorem Parse(Encode(t)) = t) *)
Texts(recs) == [i \in 1..Len(recs) |-> [j \in 1..Len(recs[i]) |-> recs[i][j].s]]

-----------------------------------------------------------------------------
(* writer relation (write_csv/2,3): documented options line_separator (default "\n"),         *)
(* token_separator, with_header (default true), null_value (default empty).                   *)
(* A written text is acceptable iff it is a well-formed document over token_separator whose   *)
(* records are the header (if with_header) followed by the rows, every string field reading   *)
(* back as the same string, every number as an unquoted number, every [] as the null text,    *)
(* and whose line ends are the given line separator.  Quoting choices are free.               *)

FieldMatches(v, f, nulltext) ==
  CASE v.k = "s" -> f.s = v.s /\ ~FieldUnspec(f)
    [] v.k = "i" -> f.s = v.s /\ ~f.q
    [] v.k = "n" -> f.s = nulltext

WriterAccepts(text, h, rows, sep, le, header, nulltext) ==
  LET p   == ParseDoc(text, sep)
      exp == (IF header THEN <<h>> ELSE <<>>) \o rows
  IN /\ p.st = "ok"
     /\ p.eols \subseteq {le}
     /\ Len(p.recs) = Len(exp)
     /\ \A i \in 1..Len(exp) :
          /\ Len(p.recs[i]) = Len(exp[i])
          /\ \A j \in 1..Len(exp[i]) : FieldMatches(exp[i][j], p.recs[i][j], nulltext)
=============================================================================
