------------------------------ MODULE Trace_C36 ------------------------------
(* impl -> spec direction for the one place where the documentation of format.pl leaves the    *)
(* text open: "~NL  format an integer so that at most N digits appear on a line".              *)
(* The driver records what the real library printed for each such case (ndjson, one record     *)
(* {id, out, dec, n} per observation: out = printed code points, dec = the decimal text the   *)
(* specification computed, n = effective N) and this module judges every record with           *)
(* Format!LAccepts.  The set of rejected record numbers is printed as JSON.                    *)
EXTENDS Format, Json, IOUtils

Rec == ndJsonDeserialize(IOEnv.TRACE)

Rejected == {i \in 1..Len(Rec) : ~LAccepts(Rec[i].out, Rec[i].dec, Rec[i].n)}

ASSUME PrintT(ToJson([total |-> Len(Rec), rejected |-> Rejected]))

VARIABLE l
Init == l = 0
Next == UNCHANGED l
=============================================================================
