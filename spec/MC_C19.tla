------------------------------- MODULE MC_C19 -------------------------------
(* C19: all operation sequences (within bounds) on short payloads.                                   *)
(*                                                                                                  *)
(* One behaviour = one stream: how the file came to be (origin "py": written by the driver; "pl":    *)
(* written through put_char/put_code/put_byte/nl/write/format on an output stream, closed and        *)
(* opened again; "ap": a driver-written file extended through an append stream), then a sequence of  *)
(* read/peek/position operations.  Every step records the operation, the result the specification     *)
(* demands and the admissible values of position(position_and_lines_read(P, L)) and end_of_stream     *)
(* after it.  The complete history is part of the state, so every operation sequence is a distinct    *)
(* state, and the invariants (peek idempotence, at_end_of_stream agreement, position = bytes          *)
(* consumed, line count = newlines consumed, monotonicity) are checked by TLC on all of them.         *)
(*                                                                                                  *)
(* eof_action only matters once a read is attempted past the end: with Eofa = "lazy" it stays "any"  *)
(* until then (the vector then holds for every eof_action; the driver rotates through them), and the  *)
(* behaviour branches three ways at that point.                                                       *)
EXTENDS Stream, Json, TLC

CONSTANTS Tier,     \* "quick" | "thorough"
          Mode      \* "bfs" (all operation sequences up to the bounds, printed as vectors) |
                    \* "walk" (random walks, TLC -simulate, printed) |
                    \* "inv" (no history, no bound on the number of operations: the complete finite state
                    \*        graph of the stream machine over the payloads; only the invariants are checked)

Quick == Tier = "quick"
Walk  == Mode = "walk"
Inv   == Mode = "inv"

RECURSIVE SeqsUpTo(_, _)
SeqsUpTo(S, n) ==
  IF n = 0 THEN {<<>>}
  ELSE LET Rr == SeqsUpTo(S, n - 1) IN Rr \cup {<<x>> \o r : x \in S, r \in {q \in Rr : Len(q) = n - 1}}

(* characters: a, e-acute (2 bytes), euro (3 bytes), newline, ".", space, NUL *)
TextPayloads ==
  IF Quick
  THEN SeqsUpTo({97, 233, 8364, 10}, 2)
       \cup {<<0>>, <<97, 0>>, <<46>>, <<32>>, <<32, 10>>, <<97, 46, 32>>, <<97, 46, 10>>, <<233, 46, 10, 97>>,
             <<32, 97, 46, 10>>, <<97, 46, 10, 233, 97, 46, 32>>}
  ELSE SeqsUpTo({97, 233, 8364, 10}, 2) \cup SeqsUpTo({97, 8364, 10}, 3)
       \cup {<<0>>, <<97, 0>>, <<0, 8364, 10>>, <<46>>, <<32>>, <<32, 10, 32>>, <<46, 32, 10>>, <<97, 46, 97>>}
       \cup {<<97, 46, 32>>, <<97, 46, 10>>, <<233, 46, 10, 97>>, <<32, 97, 46, 10>>, <<10, 97, 233, 46, 10, 10>>,
             <<97, 46, 10, 233, 97, 46, 32>>, <<97, 46, 32, 10, 97, 46, 10>>}
(* bytes: "a", 0, 255, the lead byte of e-acute (not valid UTF-8 on its own: binary streams do not decode) *)
BinPayloads == IF Quick THEN SeqsUpTo({97, 0, 255, 195}, 2) ELSE SeqsUpTo({97, 0, 255, 195, 10}, 3)

O(op) == Op(op, 0, <<>>)
(* families of read operations (a behaviour uses one family) *)
Families(typ) ==
  IF typ = "text"
  THEN IF Walk \/ Inv THEN {"all"} ELSE IF Quick THEN {"tq1", "tq2"} ELSE {"t1", "t2"}
  ELSE IF Walk \/ Inv THEN {"all"} ELSE IF Quick THEN {"b1"} ELSE {"b1", "b2"}
ReadOps(fam) ==
  CASE fam = "tq1" -> {O("get_char"), O("peek_char"), Op("get_n_chars", 2, <<>>), O("at_end"), O("read_term")}
    [] fam = "tq2" -> {O("get_code"), O("peek_code"), O("get_char"), O("at_end")}
    [] fam = "t1" -> {O("get_char"), O("peek_char"), O("get_code"), O("peek_code"), Op("get_n_chars", 2, <<>>),
                      O("at_end"), O("read_term")}
    [] fam = "t2" -> {O("get_char"), O("peek_code"), Op("get_n_chars", 1, <<>>), O("mark"), O("seek"), O("get_byte"),
                      O("read_term")}
    [] fam = "b1" -> {O("get_byte"), O("peek_byte"), Op("get_n_chars", 2, <<>>), O("at_end")}
    [] fam = "b2" -> {O("get_byte"), O("peek_byte"), Op("get_n_chars", 1, <<>>), O("mark"), O("seek"), O("get_char")}
    [] fam = "all" -> {O("get_char"), O("peek_char"), O("get_code"), O("peek_code"), Op("get_n_chars", 2, <<>>),
                       Op("get_n_chars", 1, <<>>), Op("get_n_chars", 0, <<>>), O("at_end"), O("read_term"), O("mark"),
                       O("seek"), O("get_byte"), O("peek_byte")}
(* stream opened with reposition(true) iff the family positions *)
Repos(fam) == fam \in {"t2", "b2", "all"}

WriteOps(typ) ==
  IF typ = "text"
  THEN IF Quick
       THEN {Op("put_char", 0, <<8364>>), Op("put_char", 0, <<10>>), Op("put_code", 0, <<233>>), Op("nl", 0, <<10>>),
             Op("write", 0, <<233, 97>>), Op("format_a", 0, <<8364>>), Op("format_s", 0, <<97, 10>>),
             Op("format_lit", 0, <<97, 8364>>), Op("put_byte", 0, <<65>>)}
       ELSE {Op("put_char", 0, <<c>>) : c \in {97, 8364, 10}} \cup {Op("put_code", 0, <<c>>) : c \in {233, 0}}
            \cup {Op("nl", 0, <<10>>), Op("write", 0, <<233, 97>>), Op("format_a", 0, <<8364>>), Op("format_w", 0, <<97>>),
                  Op("format_s", 0, <<233, 10>>), Op("format_lit", 0, <<97, 8364>>), Op("put_byte", 0, <<65>>)}
  ELSE {Op("put_byte", 0, <<b>>) : b \in {97, 0, 255}} \cup {Op("put_char", 0, <<97>>)}

(* bounds: number of read operations, by length of the payload in characters *)
ReadBound(origin, fam, n) ==
  IF Walk THEN 30
  ELSE IF Inv THEN 1
  ELSE IF origin # "py" THEN 2
  ELSE IF Quick \/ fam \in {"t2", "b2"} THEN (IF n <= 1 THEN 4 ELSE 3)
  ELSE (IF n <= 2 THEN 4 ELSE 3)
WriteBound == IF Walk THEN 3 ELSE 2

EofActions == {"error", "eof_code", "reset"}

VARIABLES s, hist, aux, meta
vars == <<s, hist, aux, meta>>
(* meta: [origin, fam, init (initial content), n (its length in characters), nr (reads done), nw (writes done)] ; aux: bytes/newlines *)
(* consumed according to the RESULTS delivered since the last reset/seek (independent of s.pos)        *)

Meta(origin, fam, init, n) == [origin |-> origin, fam |-> fam, init |-> init, n |-> n, nr |-> 0, nw |-> 0]

Init ==
  /\ hist = <<>> /\ aux = [cb |-> 0, cn |-> 0]
  /\ \E typ \in {"text", "binary"} : \E fam \in Families(typ) :
     \E e \in (IF Walk \/ Inv THEN EofActions ELSE {"any"}) :
       \/ \E p \in (IF typ = "text" THEN TextPayloads ELSE BinPayloads) :
            LET bytes == IF typ = "text" THEN Utf8Seq(p) ELSE p IN
            s = NewStream(typ, e, "r", bytes) /\ meta = Meta("py", fam, bytes, Len(p))
       \/ /\ fam \in {"tq1", "t1", "b1", "all"} /\ ~Inv
          /\ s = NewStream(typ, e, "w", <<>>) /\ meta = Meta("pl", fam, <<>>, 0)
       \/ /\ fam \in {"tq1", "t1", "b1", "all"} /\ ~Inv
          /\ \E p \in (IF typ = "text" THEN {<<233>>, <<97, 10>>} ELSE {<<255>>}) :
               LET bytes == IF typ = "text" THEN Utf8Seq(p) ELSE p IN
               s = NewStream(typ, e, "w", bytes) /\ meta = Meta("ap", fam, bytes, Len(p))

NeedsEofa(o) == o.op \notin {"at_end", "mark", "seek"}

StepRec(o, d) == [op |-> o.op, k |-> o.k, v |-> o.v, r |-> d.r, alts |-> d.alts, reset |-> d.reset]

(* consumption according to the results *)
UnitLen(typ, c) == IF typ = "text" THEN Utf8Len(c) ELSE 1
RECURSIVE SumLen(_, _)
SumLen(typ, cs) == IF cs = <<>> THEN 0 ELSE UnitLen(typ, Head(cs)) + SumLen(typ, Tail(cs))
NlOf(typ, cs) == IF typ = "text" THEN Cardinality({i \in 1..Len(cs) : cs[i] = 10}) ELSE 0
AuxAfter(a, o, d) ==
  LET b == IF d.reset THEN [cb |-> 0, cn |-> 0] ELSE a IN
  IF o.op \in {"read_term", "seek", "reopen"} THEN [cb |-> d.s.pos, cn |-> d.s.lines]
  ELSE IF (IsGet(o) /\ d.r.k \in {"char", "code", "byte"}) \/ o.op = "get_n_chars"
       THEN [cb |-> b.cb + SumLen(d.s.typ, d.r.v), cn |-> b.cn + NlOf(d.s.typ, d.r.v)]
       ELSE b

ReadStep ==
  /\ s.mode = "r" /\ meta.nr < ReadBound(meta.origin, meta.fam, meta.n)
  /\ \E o \in ReadOps(meta.fam) :
     \E e \in (IF s.eofa = "any" /\ s.past /\ NeedsEofa(o) THEN EofActions ELSE {s.eofa}) :
       LET s1 == [s EXCEPT !.eofa = e] IN
       /\ Enabled(s1, o)
       /\ LET d == Do(s1, o) IN
          /\ Assert(d.reset \/ o.op = "seek" \/ d.s.pos >= s.pos, "the position decreased without reset or seek")
          /\ Assert(\A i \in 1..Len(d.alts) : d.alts[i].pos >= d.s.pos - 1 /\ d.alts[i].pos <= d.s.pos + 1, "alternatives")
          /\ s' = d.s /\ aux' = AuxAfter(aux, o, d)
          /\ hist' = IF Inv THEN hist ELSE Append(hist, StepRec(o, d))
          /\ meta' = IF Inv THEN meta ELSE [meta EXCEPT !.nr = @ + 1]

WriteStep ==
  /\ s.mode = "w"
  /\ \/ /\ meta.nw < (IF meta.origin = "ap" THEN 1 ELSE WriteBound)
        /\ \E o \in WriteOps(s.typ) :
             LET d == Do(s, o) IN
             /\ s' = d.s /\ hist' = Append(hist, StepRec(o, d)) /\ aux' = aux
             /\ meta' = [meta EXCEPT !.nw = @ + 1]
     \/ /\ (meta.origin = "ap" => meta.nw >= 1)
        /\ LET o == O("reopen")  d == Do(s, o) IN
           /\ s' = d.s /\ hist' = Append(hist, StepRec(o, d)) /\ aux' = AuxAfter(aux, o, d)
           /\ UNCHANGED meta

Next == ReadStep \/ WriteStep

Finished == s.mode = "r" /\ meta.nr = ReadBound(meta.origin, meta.fam, meta.n)

Emit ==
  Finished =>
    PrintT(ToJson([typ |-> s.typ, eofa |-> s.eofa, origin |-> meta.origin, fam |-> meta.fam, repos |-> Repos(meta.fam),
                   init |-> meta.init, steps |-> hist]))

(* ---- what TLC decides about the specification itself ---- *)
Concrete(t) == IF t.eofa = "any" THEN {[t EXCEPT !.eofa = e] : e \in EofActions} ELSE {t}
PeekInv   == s.mode = "r" => \A t \in Concrete(s) : PeekIdempotent(t)
AtEndInv  == s.mode = "r" => \A t \in Concrete(s) : AtEndAgrees(t)
WfInv     == WellFormed(s)
(* position = bytes consumed, line count = newlines consumed (computed from the delivered results) *)
PosInv    == s.mode = "r" => s.pos = aux.cb /\ s.lines = aux.cn
(* (the position never decreases except by a reset or a seek: asserted on every transition in ReadStep) *)
(* a write-then-read round trip delivers the written characters: after re-opening, the content is the  *)
(* UTF-8 image of everything written (in order)                                                        *)
RECURSIVE Written(_, _)
Written(h, typ) ==
  IF h = <<>> THEN <<>>
  ELSE LET x == Head(h) IN
       (IF x.op \in WriteOpNames /\ x.r.k = "ok" THEN (IF typ = "text" THEN Utf8Seq(x.v) ELSE x.v) ELSE <<>>)
       \o Written(Tail(h), typ)
RoundTripInv == s.mode = "r" /\ ~Inv => s.content = meta.init \o Written(hist, s.typ)
=============================================================================
