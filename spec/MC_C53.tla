------------------------------- MODULE MC_C53 -------------------------------
(* C53: library(ugraphs) results match the graph-theoretic definitions (module Ugraphs).   *)
(* Every "case" state is one call; the specified result (in S-representation, so that the   *)
(* ordering invariant of the representation is asserted) is printed as a vector.           *)
(* quick:    every digraph on at most 3 of the vertices {10, a, f(x)} (567 graphs)         *)
(* thorough: every digraph on at most 4 of {10, 2, a, f(x)} (67 689 graphs) for the graph   *)
(*           algorithms, and a seeded sample of digraphs on {10, 2, a, ab, f(x)}           *)
EXTENDS Ugraphs, Json, IOUtils

CONSTANT Tier   \* "quick" | "thorough"

FX == Cmpd("f", <<Atom("x")>>)
U3 == {IntT(10), Atom("a"), FX}                      \* 10 < a < f(x)
U4 == U3 \cup {IntT(2)}                              \* 2 < 10 (by value, not by text)
U5 == <<IntT(2), IntT(10), Atom("a"), Atom("ab"), FX>>
Thorough == Tier = "thorough"
U  == IF Thorough THEN U4 ELSE U3
NSample == 4000
Seed == IF "C53_SEED" \in DOMAIN IOEnv THEN atoi(IOEnv.C53_SEED) ELSE 1

ASSUME TotalOrderOn(U4 \cup Range(U5))
Groups == {"unary", "vertex", "vlist", "elist", "binary"} \cup (IF Thorough THEN {"elist3", "sample5"} ELSE {})
OpsOf(g) ==
  CASE g = "unary"  -> {"vertices", "edges", "transpose_ugraph", "transitive_closure", "complement", "top_sort",
                        "vertices_edges_to_ugraph", "ve_implicit", "connect_ugraph"}
    [] g = "vertex" -> {"neighbours", "neighbors", "reachable"}
    [] g = "vlist"  -> {"add_vertices", "del_vertices"}
    [] g \in {"elist", "elist3"} -> {"add_edges", "del_edges"}
    [] g = "binary" -> {"compose", "ugraph_union"}
    [] g = "sample5" -> {"transpose_ugraph", "transitive_closure", "complement", "top_sort", "reachable",
                         "compose", "ugraph_union", "del_vertices"}

VARIABLES phase, grp, op, g1, g2, l
vars == <<phase, grp, op, g1, g2, l>>

(* sanity theorems of the oracle, evaluated as an invariant on the cases of one operation so that *)
(* TLC's workers share the work (a failure is a tool error, not a violation of the property)      *)
Sane == (phase = "case" /\ op = "top_sort" /\ Cardinality(g1.V) <= 3) => GraphSanity(g1)

EdgeTermsOver(W) == {Pair(u, w) : u \in W, w \in W}

(* a seeded pseudo-random digraph on the five vertices U5 (densities about 1/2, 1/4, 1/8 by turns) *)
Bit(k, b)    == (k \div (2 ^ b)) % 2 = 1
R(i, j, s)   == ((2 * j + 7 + 2 * s) * i * i + (11 * j + 3 + 4 * s) * i + 13 * j + 5 * Seed + 17 * s) % 32
Has(i, j, b) == LET d == i % 3 IN
                Bit(R(i, j, 0), b) /\ (d < 1 \/ Bit(R(i, j, 1), b)) /\ (d < 2 \/ Bit(R(i, j, 2), b))
Sample(i)    == Graph(Range(U5), {<<U5[q[1]], U5[q[2] + 1]>> : q \in {p \in (1..5) \X (0..4) : Has(i, p[1], p[2])}})
SampleSub(i) == LET G == Sample(i)
                    W == {U5[j] : j \in {k \in 1..5 : Bit(R(i + 1, k, 1), 2) \/ k = 1 + (i % 5)}}
                IN Graph(W, {e \in G.E : e[1] \in W /\ e[2] \in W})

Heavy == {"transpose_ugraph", "transitive_closure", "complement", "top_sort"}   \* run on every graph over U4 (thorough)

(* the graphs on V are generated in two steps (the out-edges of the least vertex first) so that the *)
(* second step, where the results are computed, is spread over TLC's workers                       *)
Least(V)     == SortSet(V)[1]
FirstRows(V) == IF V = {} THEN {Graph(V, {})} ELSE {Graph(V, E0) : E0 \in SUBSET ({Least(V)} \X V)}
Rest(G)      == IF G.V = {} THEN {G} ELSE {Graph(G.V, G.E \cup E2) : E2 \in SUBSET ((G.V \ {Least(G.V)}) \X G.V)}

(* first choice: the vertex set (or the whole first graph) *)
P1(g, o) ==
  CASE g = "unary"   -> UNION {FirstRows(V) : V \in SUBSET (IF Thorough /\ o \in Heavy THEN U4 ELSE U3)}
    [] g = "vertex"  -> UNION {FirstRows(V) : V \in SUBSET (IF Thorough /\ o = "reachable" THEN U4 ELSE U3)}
    [] g = "vlist"   -> {Graph(V, {}) : V \in SUBSET U3}
    [] g = "elist"   -> GraphsUpTo(U3, 2)
    [] g = "elist3"  -> {Graph(U3, {})}
    [] g = "binary"  -> GraphsUpTo(U3, IF Thorough THEN 3 ELSE 2)
    [] g = "sample5" -> {Graph({IntT(k)}, {}) : k \in 0..39}            \* 40 blocks of sample indices

(* second choice: the edges of the first graph and the other input *)
P2(g, o, G) ==
  CASE g = "unary"   -> {<<H, EmptyG, <<>>>> : H \in Rest(G)}
    [] g = "vertex"  ->
         IF o # "reachable" THEN {<<H, EmptyG, <<u>>>> : H \in Rest(G), u \in U3}
         ELSE IF Cardinality(G.V) < 4 THEN {<<H, EmptyG, <<u>>>> : H \in Rest(G), u \in G.V}
         ELSE {<<H, EmptyG, <<SortSet(G.V)[1 + (Cardinality(H.E) % 4)]>>>> : H \in Rest(G)}
    [] g = "vlist"   -> {<<H, EmptyG, s>> : H \in GraphsOn(G.V), s \in ListsUpTo(U3, 2)}
    [] g = "elist"   -> {<<G, EmptyG, s>> : s \in ListsUpTo(EdgeTermsOver(U3), 2)}
    [] g = "elist3"  -> {<<H, EmptyG, s>> : H \in GraphsOn(G.V), s \in ListsUpTo(EdgeTermsOver(U3), 1)}
    [] g = "binary"  -> {<<G, H, <<>>>> : H \in GraphsUpTo(U3, 2)}
    [] g = "sample5" ->
         LET blk == (CHOOSE u \in G.V : TRUE).i
             idx == {blk * (NSample \div 40) + k : k \in 1..(NSample \div 40)}
         IN CASE o \in {"compose", "ugraph_union"} -> {<<SampleSub(i), SampleSub(i + 17), <<>>>> : i \in idx}
              [] o = "reachable" -> {<<Sample(i), EmptyG, <<U5[1 + (i % 5)]>>>> : i \in idx}
              [] o = "del_vertices" -> {<<Sample(i), EmptyG, <<U5[1 + (i % 5)], U5[1 + ((i \div 5) % 5)]>>>> : i \in idx}
              [] OTHER -> {<<(IF i % 2 = 0 THEN Sample(i) ELSE SampleSub(i)), EmptyG, <<>>>> : i \in idx}

Init == phase = "op" /\ grp \in Groups /\ op \in OpsOf(grp) /\ g1 = EmptyG /\ g2 = EmptyG /\ l = <<>>
Next ==
  \/ /\ phase = "op" /\ phase' = "p1" /\ g1' \in P1(grp, op) /\ UNCHANGED <<grp, op, g2, l>>
  \/ /\ phase = "p1" /\ phase' = "case" /\ UNCHANGED <<grp, op>>
     /\ \E c \in P2(grp, op, g1) : g1' = c[1] /\ g2' = c[2] /\ l' = c[3]

(* ------------------------------------------------------------------------------------ *)
LV == Range(l)                                       \* a vertex list as a set
LE == EdgeSet(l)                                     \* an edge list as a set
MessyEdges == LET es == Rev(EdgeTerms(g1)) IN IF es = <<>> THEN es ELSE es \o <<es[Len(es)]>>   \* unsorted, one duplicate

Args ==
  CASE op \in {"vertices", "edges", "transpose_ugraph", "transitive_closure", "complement", "top_sort",
               "connect_ugraph"} -> <<SRep(g1)>>
    [] op = "vertices_edges_to_ugraph" -> <<LT(Rev(SortSet(g1.V))), LT(MessyEdges)>>
    [] op = "ve_implicit"              -> <<Nil, LT(MessyEdges)>>
    [] op \in {"neighbours", "neighbors", "reachable"} -> <<l[1], SRep(g1)>>
    [] op \in {"add_vertices", "del_vertices", "add_edges", "del_edges"} -> <<SRep(g1), LT(l)>>
    [] op \in {"compose", "ugraph_union"} -> <<SRep(g1), SRep(g2)>>

Applicable ==
  CASE op = "connect_ugraph" -> g1.V # {}            \* the documentation does not say what the start vertex of [] is
    [] OTHER -> TRUE

Res ==
  CASE op = "vertices"            -> Bag(SortSet(g1.V))
    [] op = "edges"               -> Bag(EdgeTerms(g1))
    [] op = "transpose_ugraph"    -> Ok(SRep(GTranspose(g1)))
    [] op = "transitive_closure"  -> Ok(SRep(Closure(g1)))
    [] op = "complement"          -> Ok(SRep(Complement(g1)))
    [] op = "top_sort"            -> OneOf(Map(LT, SetToSeq(TopSorts(g1))))
    [] op = "vertices_edges_to_ugraph" -> Ok(SRep(g1))
    [] op = "ve_implicit"         -> Ok(SRep(FromVE({}, g1.E)))
    (* connect_ugraph/3: "Adds Start as an additional vertex that is connected to all vertices in  *)
    (* UGraphIn ... Start is before any vertex in UGraphIn in the standard order of terms": the     *)
    (* query reports whether the new first vertex is Start, whether Start @< the old first vertex, *)
    (* its neighbours and the rest of the graph                                                     *)
    [] op = "connect_ugraph"      -> Ok(Cmpd("r", <<True, True, LT(SortSet(g1.V)), SRep(g1)>>))
    [] op \in {"neighbours", "neighbors"} -> IF l[1] \in g1.V THEN Ok(LT(SortSet(Succ(g1, l[1])))) ELSE Fails
    [] op = "reachable"           -> Ok(LT(SortSet(Reach(g1, l[1]))))
    [] op = "add_vertices"        -> Ok(SRep(AddVertices(g1, LV)))
    [] op = "del_vertices"        -> Ok(SRep(DelVertices(g1, LV)))
    [] op = "add_edges"           -> Ok(SRep(AddEdges(g1, LE)))
    [] op = "del_edges"           -> Ok(SRep(DelEdges(g1, LE)))
    [] op = "compose"             -> Ok(SRep(Compose(g1, g2)))
    [] op = "ugraph_union"        -> Ok(SRep(GUnion(g1, g2)))

Size(G) == "v" \o ToString(Cardinality(G.V)) \o "e" \o ToString(Cardinality(G.E))
Cls ==
  CASE op \in {"top_sort", "transitive_closure", "reachable"} ->
         Size(g1) \o (IF Acyclic(g1) THEN "-acyclic" ELSE "-cyclic") \o "-tc" \o ToString(Cardinality(TC(g1)))
    [] op \in {"neighbours", "neighbors"} -> Size(g1) \o (IF l[1] \in g1.V THEN "-in" ELSE "-out")
    [] op = "add_vertices" -> Size(g1) \o "-n" \o ToString(Len(l)) \o "-new" \o ToString(Cardinality(LV \ g1.V))
                              \o (IF Cardinality(LV) # Len(l) THEN "-dup" ELSE "")      \* the list repeats a vertex
    (* a vertex to delete that is not in the graph and precedes one that is to be deleted *)
    [] op = "del_vertices" -> Size(g1) \o "-n" \o ToString(Len(l)) \o
                              (IF \E u \in LV \ g1.V : \E w \in LV \cap g1.V : Lt(u, w) THEN "-absent-before-deleted"
                               ELSE IF LV \subseteq g1.V THEN "-present" ELSE "-absent")
    [] op \in {"add_edges", "del_edges"} -> Size(g1) \o "-n" \o ToString(Len(l)) \o "-hit" \o ToString(Cardinality(LE \cap g1.E))
                                            \o "-newv" \o ToString(Cardinality(Ends(LE) \ g1.V))
    [] op \in {"compose", "ugraph_union"} -> Size(g1) \o Size(g2) \o "-c" \o ToString(Cardinality(g1.V \cap g2.V))
    [] OTHER -> Size(g1)

Emit ==
  (phase = "case" /\ Applicable) =>
     LET r == Res IN
     PrintT(ToJson([g |-> grp, op |-> op, args |-> PkSeq(Args), k |-> r.k, v |-> Pk(r.v), cls |-> Cls]))
=============================================================================
