CONSTANT Tier = "thorough"
CONSTANT Mode = "inv"
INIT Init
NEXT Next
INVARIANT PeekInv
INVARIANT AtEndInv
INVARIANT WfInv
INVARIANT PosInv
