CONSTANT Tier = "quick"
INIT Init
NEXT Next
INVARIANT PathSound
INVARIANT Refinement
INVARIANT Header
INVARIANT Emit
