CONSTANT Tier = "quick"
INIT Init
NEXT Next
INVARIANT PathSound
INVARIANT RefinementOutsideIndexing
INVARIANT Header
INVARIANT Emit
