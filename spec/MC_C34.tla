------------------------------- MODULE MC_C34 -------------------------------
(* C34: the case table op x shape x size with closed-form answers, and the thin process *)
(* model: a started case ends with its answer or a resource error; the process is never  *)
(* "crashed". props/C34.py runs every printed case in a fresh child process and compares *)
(* the observed end (exit status, answer) with the allowed ones.                         *)
EXTENDS BigTerms, Json

CONSTANT Sizes

VARIABLES phase, op, shape, n, proc, outcome
vars == <<phase, op, shape, n, proc, outcome>>

ASSUME D(9) = 9 /\ D(10) = 11 /\ D(99) = 189 /\ D(1000) = 2893 /\ D(1000000) = 5888896
ASSUME TextLen("list", 3) = 7 /\ TextLen("rnest", 2) = 7 /\ TextLen("lnest", 2) = 5 /\ TextLen("dlist", 1) = 4
       /\ TextLen("conj", 1) = 9 /\ TextLen("wide", 500) = 3 + 249 + 250 * 5

Init ==
  /\ phase = "pick" /\ op \in Ops /\ shape = "list" /\ n = 0 /\ proc = "alive" /\ outcome = "none"

Next ==
  \/ /\ phase = "pick" /\ phase' = "run" /\ UNCHANGED <<op, proc, outcome>>
     /\ shape' \in Shapes /\ Applicable(op, shape')
     /\ n' \in Sizes
  \/ /\ phase = "run" /\ phase' = "done" /\ UNCHANGED <<op, shape, n>>
     /\ outcome' \in Outcomes /\ proc' = "alive"

Alive == proc = "alive"
Ends == phase = "done" => outcome \in Outcomes

Emit ==
  phase = "run" =>
  PrintT(ToJson([op |-> op, shape |-> shape, n |-> n, expect |-> Expected(op, shape, n), allowed |-> Outcomes]))
=============================================================================
