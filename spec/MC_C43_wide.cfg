CONSTANT Mode = "bfs"
CONSTANT LeafSet = "atoms"
CONSTANT GrowSet = "full"
CONSTANT Depth = 1
CONSTANT Names <- NamesDef
INIT Init
NEXT Next
INVARIANT Emit
INVARIANT ConsistentInv
INVARIANT LeafInv
INVARIANT FixInv
INVARIANT FrameInv
