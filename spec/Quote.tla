------------------------------- MODULE Quote -------------------------------
(* C55 - how writeq/1, write/1 and write_canonical/1 write atoms (and, for canonical output, terms). *)
(* Layer A only: the text is a function of the term.  Text and atom names are sequences of code      *)
(* points.                                                                                            *)
(*                                                                                                    *)
(* Sources:                                                                                           *)
(*  ISO/IEC 13211-1 7.10.5 (writing a term): with quoted(true) an atom is output unquoted exactly     *)
(*   when that text is a name token that reads back as the same atom, otherwise as a quoted token     *)
(*   (6.4.2): letter digit token (starts with a small letter, continues with alphanumeric            *)
(*   characters), graphic token (symbol characters only), semicolon token, cut token, and the atoms   *)
(*   [] and {}.  Not readable as themselves and therefore quoted: the empty atom, a single "." (it    *)
(*   is the end token), a graphic token starting with the comment opening "/*", the comma and the     *)
(*   bar (they are punctuation, 6.4), every other solo character, anything starting with a capital    *)
(*   letter, a digit or an underscore, and any mixture of classes.                                    *)
(*  ISO does not fix which escape sequence is used inside the quoted token; Scryer's choice           *)
(*   (DESIGN.md section 8 C55 and Appendix 2; src/heap_print.rs char_to_string) is: \' for the quote,  *)
(*   \\ for the backslash, the control escapes \a \b \f \n \r \t \v, a space as itself, every other  *)
(*   control or white space character as \xH..H\ with lower-case hexadecimal digits and no leading    *)
(*   zero, every other character (including " and `) as itself.                                       *)
(*  Extended characters (DESIGN.md Appendix 2): lower-case letters outside ASCII are small letters     *)
(*   (the atom consisting of e-acute is written unquoted), upper-case ones are capital letters         *)
(*   (quoted).                                                                                        *)
(*  write/1 = write_term with quoted(false), numbervars(true): the characters of the atom as they     *)
(*   are.  write_canonical/1 = quoted(true), ignore_ops(true), no numbervars (7.10.2, 8.14.2.? and     *)
(*   src/lib/builtins.pl): every compound term in functional notation - neither operator notation nor *)
(*   list notation nor curly-bracket notation is used - and variables as _N.                           *)
EXTENDS Integers, Sequences

Digit(c)   == c >= 48 /\ c <= 57
(* Latin-1 and the few other extended letters used by the models *)
SmallLetter(c)   == (c >= 97 /\ c <= 122) \/ (c >= 223 /\ c <= 246) \/ (c >= 248 /\ c <= 255) \/ c \in {955, 1078}
CapitalLetter(c) == (c >= 65 /\ c <= 90) \/ (c >= 192 /\ c <= 214) \/ (c >= 216 /\ c <= 222) \/ c \in {923, 1046}
Alnum(c)   == SmallLetter(c) \/ CapitalLetter(c) \/ Digit(c) \/ c = 95
SymbolChar(c) == c \in {35, 36, 38, 42, 43, 45, 46, 47, 58, 60, 61, 62, 63, 64, 94, 126, 92}   \* # $ & * + - . / : < = > ? @ ^ ~ \
Control(c)  == c < 32 \/ (c >= 127 /\ c <= 159)
WhiteExt(c) == c \in {160, 5760, 8232, 8233, 8239, 8287, 12288} \/ (c >= 8192 /\ c <= 8202)

All(a, P(_)) == \A i \in 1..Len(a) : P(a[i])

LetterDigit(a) == Len(a) >= 1 /\ SmallLetter(a[1]) /\ All(a, Alnum)
Graphic(a)     == Len(a) >= 1 /\ All(a, SymbolChar)
Solo(a)        == a \in {<<91, 93>>, <<123, 125>>, <<33>>, <<59>>}          \* [] {} ! ;
(* graphic tokens that do not read back as the atom *)
EndToken(a)      == a = <<46>>
CommentOpen(a)   == Len(a) >= 2 /\ a[1] = 47 /\ a[2] = 42
Misread(a)       == EndToken(a) \/ CommentOpen(a)

Unquoted(a) == LetterDigit(a) \/ (Graphic(a) /\ ~Misread(a)) \/ Solo(a)

(* coverage class of an atom *)
ClassOf(a) ==
  IF a = <<>> THEN "empty"
  ELSE IF LetterDigit(a) THEN "letter"
  ELSE IF Solo(a) THEN "solo"
  ELSE IF Graphic(a) THEN (IF EndToken(a) THEN "dot" ELSE IF CommentOpen(a) THEN "comment" ELSE "graphic")
  ELSE IF Len(a) = 1 THEN "char"
  ELSE "mixed"

-----------------------------------------------------------------------------
(* escapes *)
HexDigit(n) == IF n < 10 THEN 48 + n ELSE 87 + n
RECURSIVE Hex(_)
Hex(n) == IF n < 16 THEN <<HexDigit(n)>> ELSE Hex(n \div 16) \o <<HexDigit(n % 16)>>

EscChar(c) ==
  CASE c = 39 -> <<92, 39>>
    [] c = 92 -> <<92, 92>>
    [] c = 10 -> <<92, 110>>
    [] c = 13 -> <<92, 114>>
    [] c = 9  -> <<92, 116>>
    [] c = 11 -> <<92, 118>>
    [] c = 12 -> <<92, 102>>
    [] c = 8  -> <<92, 98>>
    [] c = 7  -> <<92, 97>>
    [] OTHER  -> IF Control(c) \/ WhiteExt(c) THEN <<92, 120>> \o Hex(c) \o <<92>> ELSE <<c>>

RECURSIVE EscAll(_, _)
EscAll(a, i) == IF i > Len(a) THEN <<>> ELSE EscChar(a[i]) \o EscAll(a, i + 1)

QuotedForm(a) == <<39>> \o EscAll(a, 1) \o <<39>>

WriteqAtom(a) == IF Unquoted(a) THEN a ELSE QuotedForm(a)
WriteAtom(a)  == a

(* which escapes the quoted form uses (coverage) *)
EscKinds(a) == { IF a[i] \in {39, 92} THEN "meta" ELSE IF a[i] \in {7, 8, 9, 10, 11, 12, 13} THEN "ctl"
                 ELSE IF Control(a[i]) \/ WhiteExt(a[i]) THEN "hex" ELSE "plain" : i \in 1..Len(a) }

-----------------------------------------------------------------------------
(* terms: uniform records [t, n, i, a]:  "a" atom (n = name), "i" integer (i), "v" variable (i = index), *)
(* "c" compound (n = name, a = arguments)                                                                *)
MkAtom(n)      == [t |-> "a", n |-> n, i |-> 0, a |-> <<>>]
MkInt(k)       == [t |-> "i", n |-> <<>>, i |-> k, a |-> <<>>]
MkVar(k)       == [t |-> "v", n |-> <<>>, i |-> k, a |-> <<>>]
MkCmp(n, args) == [t |-> "c", n |-> n, i |-> 0, a |-> args]

RECURSIVE NatText(_)
NatText(k) == IF k < 10 THEN <<48 + k>> ELSE NatText(k \div 10) \o <<48 + (k % 10)>>
IntText(k) == IF k < 0 THEN <<45>> \o NatText(0 - k) ELSE NatText(k)

(* write_canonical: functional notation throughout; variables are written _<index> here and compared *)
(* with the implementation's _N names up to a consistent renaming                                     *)
RECURSIVE Canon(_)
RECURSIVE CanonArgs(_, _)
Canon(t) ==
  CASE t.t = "a" -> WriteqAtom(t.n)
    [] t.t = "i" -> IntText(t.i)
    [] t.t = "v" -> <<95>> \o NatText(t.i)
    [] t.t = "c" -> WriteqAtom(t.n) \o <<40>> \o CanonArgs(t.a, 1) \o <<41>>
CanonArgs(args, i) ==
  IF i = Len(args) THEN Canon(args[i]) ELSE Canon(args[i]) \o <<44>> \o CanonArgs(args, i + 1)

=============================================================================
