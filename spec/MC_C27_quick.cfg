CONSTANTS
  NCases = 1500
  MaxC = 2
  Groups = 16
INIT Init
NEXT Next
INVARIANT Sane
INVARIANT Emit
