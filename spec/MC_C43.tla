------------------------------- MODULE MC_C43 -------------------------------
(* C43: histories of op/3 calls over a small universe, starting from the predefined table.               *)
(*                                                                                                        *)
(* Mode "bfs":  the reachable tables that differ from the initial table in at most Depth keys (reached by  *)
(*              the effective calls of GrowActs) are the explored states; in EVERY such state EVERY call  *)
(*              of LeafActs is applied (valid or not): one vector per state ("st": the table, how to      *)
(*              reach it, all observations in it) and one vector per transition ("tr": state, call,       *)
(*              admissible errors, admissible next tables with the observations in them and the calls     *)
(*              that lead back to the state).  A state is reached in the implementation by                *)
(*              Fix(InitTable, state) and re-entered by Fix(next, state); both are checked here (FixInv,   *)
(*              LeafInv) and observed there.                                                              *)
(* Mode "walk": random histories of Depth calls (TLC -simulate) from the initial table, two calls free of  *)
(*              argument errors followed by an arbitrary one.                                             *)
(* Observations in a table: the operators of the universe names (current_op/3 with all arguments unbound),*)
(* current_op/3 in the other 7 instantiation patterns instantiated from operators of the table, and the   *)
(* probe sentences read under the table.                                                                  *)
EXTENDS OpTable, Json

CONSTANTS Mode,     \* "bfs" | "walk"
          LeafSet,  \* "atoms" | "quick" | "full": the calls applied in every state
          GrowSet,  \* "tiny" | "small" | "full": the calls by which states are reached
          Depth

NamesDef   == {"+", "foo", "|", ",", "[]", "{}", "-", "bar"}
ProbeNames == {"+", "foo", "|", "-", "bar"}
Prios      == {0, 1, 200, 700, 1000, 1001, 1200, 1201, -1}
SpecArgs   == {A(s) : s \in Specifiers} \cup {A("xyf"), I(1)}     \* the 7 specifiers, a non-specifier atom, a non-atom
Anon       == V("_")

Act(P, S, N) == [P |-> P, S |-> S, N |-> N]
AtomActs == {Act(I(p), s, A(n)) : p \in Prios, s \in SpecArgs, n \in NamesDef}

(* unbound and ill-typed arguments in each position, alone and combined with other errors *)
ArgActs ==
       {Act(P, S, A(n)) : P \in {Anon, A("a")}, S \in {A("xfx"), A("fy"), Anon, A("xyf")}, n \in {"foo", ",", "|"}}
  \cup {Act(I(p), Anon, N) : p \in {200, 1201}, N \in {A("foo"), A(","), A("{}"), Anon}}
  \cup {Act(P, S, N) : P \in {I(200), I(1201), Anon}, S \in {A("xfx"), A("xyf"), Anon}, N \in {Anon, I(1), C1("f", A("x"))}}

(* lists of names: applied left to right; errors inside lists *)
NameLists ==
  { ListOf(<<A("foo"), A("bar")>>), ListOf(<<A("bar"), A("foo")>>), ListOf(<<A("foo"), A("foo")>>),
    ListOf(<<A("+"), A("foo")>>), ListOf(<<A("foo"), A("-")>>), ListOf(<<A("foo")>>),
    ListOf(<<A("foo"), A("|")>>), ListOf(<<A("|")>>), ListOf(<<A("|"), A("bar")>>),
    ListOf(<<A("foo"), A(",")>>), ListOf(<<A(",")>>), ListOf(<<A("foo"), Nil>>), ListOf(<<A("{}"), A("foo")>>),
    ListOf(<<A("foo"), Anon>>), PListOf(<<A("foo")>>, Anon), PListOf(<<A("foo")>>, A("bar")),
    ListOf(<<A("foo"), I(1)>>), ListOf(<<I(1), Anon>>) }
ListPrios == IF LeafSet = "full" THEN {0, 200, 700, 1001, 1201} ELSE {0, 200, 1001}
ListSpecs == IF LeafSet = "full" THEN {A("xfx"), A("xfy"), A("fy"), A("xf"), A("yf"), A("xyf")}
                                 ELSE {A("xfx"), A("fy"), A("yf"), A("xyf")}
ListActs == {Act(I(p), s, N) : p \in ListPrios, s \in ListSpecs, N \in NameLists}

LeafActs == IF LeafSet = "atoms" THEN AtomActs ELSE AtomActs \cup ArgActs \cup ListActs
NoAct    == Act(Anon, Anon, Anon)

(* the calls by which the explored states are reached *)
GrowSmall ==
  { Act(I(200), A("xfy"), A("foo")), Act(I(1000), A("yfx"), A("foo")), Act(I(200), A("fy"), A("foo")),
    Act(I(1200), A("fx"), A("foo")), Act(I(200), A("yf"), A("foo")), Act(I(1000), A("xf"), A("foo")),
    Act(I(0), A("yfx"), A("+")), Act(I(0), A("fy"), A("+")), Act(I(700), A("xf"), A("+")),
    Act(I(1001), A("xfy"), A("|")), Act(I(700), A("xfx"), A("bar")) }
GrowTiny ==
  { Act(I(200), A("xfy"), A("foo")), Act(I(200), A("fy"), A("foo")), Act(I(1000), A("yf"), A("foo")),
    Act(I(0), A("yfx"), A("+")), Act(I(700), A("xf"), A("+")), Act(I(1001), A("xfy"), A("|")) }
GrowFull == {a \in AtomActs : a.N.n \in {"foo", "+", "|"}}
GrowActs == IF GrowSet = "tiny" THEN GrowTiny ELSE IF GrowSet = "small" THEN GrowSmall ELSE GrowFull

ASSUME \A a \in LeafActs \cup ArgActs \cup ListActs : AtomNames(a.N) \subseteq NamesDef

VARIABLES phase, tb, act, hist
vars == <<phase, tb, act, hist>>

Dist(t) == Cardinality({k \in Keys : t[k] # InitTable[k]})
Res(t, a) == OpResult(t, a.P, a.S, a.N)
Effective(t, a) == LET r == Res(t, a) IN r.errs = {} /\ r.alts # {t}

Init == /\ tb = InitTable /\ act = NoAct /\ hist = <<>>
        /\ phase = IF Mode = "bfs" THEN "grow" ELSE "walk"

Grow == /\ phase = "grow"
        /\ \E a \in GrowActs : /\ Effective(tb, a)
                               /\ tb' \in Res(tb, a).alts
                               /\ Dist(tb') <= Depth
        /\ UNCHANGED <<phase, act, hist>>
Leaf == /\ phase = "grow" /\ phase' = "leaf"
        /\ act' \in LeafActs
        /\ UNCHANGED <<tb, hist>>
(* a walk step: TLC's RandomElement picks ONE call (otherwise -simulate would build, and evaluate Emit on, every       *)
(* successor); two calls without table-independent errors are followed by an arbitrary one                        *)
LikelyActs == {a \in LeafActs : StaticErrs(a.P, a.S, a.N) = {}}
Walk == /\ phase = "walk" /\ Len(hist) < Depth
        /\ act' = RandomElement(IF (Len(hist) % 3) # 2 THEN LikelyActs ELSE LeafActs)
        /\ tb' \in Res(tb, act').alts
        /\ hist' = Append(hist, [a |-> act', from |-> tb, to |-> tb'])
        /\ UNCHANGED phase
Next == Grow \/ Leaf \/ Walk

-----------------------------------------------------------------------------
(* canonical Prolog text of a term (functional notation, every atom quoted except [] and {}, list syntax);  *)
(* the names of this model contain no character that needs an escape                                        *)
RECURSIVE Txt(_)
RECURSIVE TxtArgs(_, _)
RECURSIVE TxtList(_)
TxtArgs(args, k) == IF k > Len(args) THEN "" ELSE (IF k > 1 THEN "," ELSE "") \o Txt(args[k]) \o TxtArgs(args, k + 1)
TxtList(x) == IF IsF(x, ".", 2) THEN "," \o Txt(x.a[1]) \o TxtList(x.a[2])
              ELSE IF x = Nil THEN "]" ELSE "|" \o Txt(x) \o "]"
Txt(x) == CASE x.t = "v" -> "_"
            [] x.t = "a" -> IF x.n \in {"[]", "{}"} THEN x.n ELSE Q(x.n)
            [] x.t = "i" -> IF x.i < 0 THEN "(" \o ToString(x.i) \o ")" ELSE ToString(x.i)
            [] x.t = "c" -> IF IsF(x, ".", 2) THEN "[" \o Txt(x.a[1]) \o TxtList(x.a[2])
                            ELSE Q(x.n) \o "(" \o TxtArgs(x.a, 1) \o ")"
ActTxt(a) == Txt(a.P) \o "," \o Txt(a.S) \o "," \o Txt(a.N)

(* observations *)
TabSeq(t)  == SetToSeq(Entries(t))
Modes      == SUBSET {"P", "T", "N"} \ {{}}
PatQ(m, e) == << IF "P" \in m THEN e[1] ELSE -1, IF "T" \in m THEN e[2] ELSE "_", IF "N" \in m THEN e[3] ELSE "_" >>
PatAns(t, q) == CurrentOp(t, IF q[1] = -1 THEN Anon ELSE I(q[1]), IF q[2] = "_" THEN Anon ELSE A(q[2]),
                             IF q[3] = "_" THEN Anon ELSE A(q[3]))
(* the patterns: every mode with at least one bound argument, instantiated from every triple of es *)
Queries(es) == SetToSeq({PatQ(m, e) : m \in Modes, e \in es})
ProbeSeq(ns) == SetToSeq({<<n, f>> : n \in ns \cap ProbeNames, f \in Forms} \ {<<"|", f>> : f \in Forms \ {"i1", "i2", "ia"}})
ProbeToks(ps) == [j \in 1..Len(ps) |-> Tokens(ps[j][1], ps[j][2])]
Obs(t, qs, ps) == [tab   |-> TabSeq(t),
                   ans   |-> [j \in 1..Len(qs) |-> SetToSeq(PatAns(t, qs[j]))],
                   reads |-> [j \in 1..Len(ps) |-> IF Specified(t, ps[j][1], ps[j][2]) THEN Read(t, ps[j][1], ps[j][2]) ELSE "?"]]

StateVec(t) ==
  LET qs == Queries(Entries(t))  ps == ProbeSeq(ProbeNames) IN
  [kind |-> "st", tab |-> TabSeq(t), reach |-> Fix(InitTable, t), qs |-> qs, pn |-> [j \in 1..Len(ps) |-> ps[j][1]],
   probes |-> ProbeToks(ps), obs |-> Obs(t, qs, ps)]

(* one call a in table t.  ts: the next tables to describe (all admissible ones, or the one a walk chose).        *)
(* Patterns are instantiated from the operators that the mentioned names have before or after the call; tables  *)
(* are not described when t is the only next table (the observations of the state apply).                       *)
StepVec(t, a, ts) ==
  LET r  == Res(t, a)
      ns == AtomNames(a.N)
      qs == Queries(UNION {{e \in Entries(u) : e[3] \in ns} : u \in {t} \cup ts})
      ps == ProbeSeq(ns)
      al == SetToSeq(ts)
      ad == SetToSeq(r.alts)
  IN [tab |-> TabSeq(t), act |-> ActTxt(a), ns |-> SetToSeq(ns),
      errs |-> [j \in 1..Len(SetToSeq(r.errs)) |-> Txt(SetToSeq(r.errs)[j])],
      adm |-> [j \in 1..Len(ad) |-> TabSeq(ad[j])],
      qs |-> IF ts = {t} THEN <<>> ELSE qs,
      probes |-> IF ts = {t} THEN <<>> ELSE ProbeToks(ps),
      alts |-> [j \in 1..Len(al) |->
                  IF ts = {t} THEN [same |-> TRUE, undo |-> <<>>, obs |-> Obs(t, <<>>, <<>>)]
                  ELSE [same |-> (al[j] = t), undo |-> Fix(al[j], t), obs |-> Obs(al[j], qs, ps)]]]

Emit ==
  /\ (phase = "grow") => PrintT(ToJson(StateVec(tb)))
  /\ (phase = "leaf") => PrintT(ToJson([kind |-> "tr", v |-> StepVec(tb, act, Res(tb, act).alts)]))
  /\ (phase = "walk" /\ Len(hist) = Depth) =>
        PrintT(ToJson([kind |-> "walk", steps |-> [j \in 1..Len(hist) |-> StepVec(hist[j].from, hist[j].a, {hist[j].to})]]))

(* invariants of the specification itself *)
ConsistentInv == Consistent(tb)
LeafInv == phase = "leaf" => \A t \in Res(tb, act).alts : Consistent(t) /\ FixOk(t, tb)
FixInv  == phase = "grow" => FixOk(InitTable, tb)
(* a successful call of a single name changes at most the key it names; a rejected one changes nothing *)
FrameInv == phase = "leaf" /\ IsAtom(act.N) =>
              \A t \in Res(tb, act).alts : \A k \in Keys : t[k] # tb[k] => (k[1] = act.N.n /\ Res(tb, act).errs = {})

ASSUME Consistent(InitTable)
ASSUME PrintT(ToJson([kind |-> "init", names |-> [j \in 1..Len(SetToSeq(NamesDef)) |-> Txt(A(SetToSeq(NamesDef)[j]))],
                      tab |-> TabSeq(InitTable), iso |-> SetToSeq(IsoTable), nleaf |-> Cardinality(LeafActs)]))
=============================================================================
