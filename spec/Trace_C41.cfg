INIT Init
NEXT Next
POSTCONDITION TraceJudged
