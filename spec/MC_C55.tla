------------------------------- MODULE MC_C55 -------------------------------
(* C55: writeq/1, write/1 and write_canonical/1 quote exactly as required.                         *)
(* Every "case" state is one behaviour of the specification Quote:                                  *)
(*   atom  an atom (code points) with the exact text writeq/1, write/1 and write_canonical/1 must   *)
(*         produce for it, stand-alone and as an argument (f(A), [A])                               *)
(*   term  a term with the exact text of write_canonical/1 (up to variable names)                   *)
(* TLC decides (sanity of the oracle): the quoted form of every atom, read with the quoted-token    *)
(* rules of the lexer specification (NumLex!QChar, ISO 6.4.2.1), is the atom again, contains no     *)
(* raw control or white-space character other than the space, and an atom is written unquoted only  *)
(* if it is one name token.                                                                         *)
EXTENDS Quote, Json, IOUtils, TLC

CONSTANT Tier   \* "quick" | "thorough"

NL == INSTANCE NumLex

-----------------------------------------------------------------------------
(* class-representative alphabet *)
AlphaQuick == {97, 98, 65, 49, 95,                     \* a b A 1 _
               43, 45, 42, 47, 46, 92, 58,              \* + - * / . \ :
               33, 59, 44, 124, 91, 93, 123, 125, 40,   \* ! ; , | [ ] { } (
               39, 34, 32, 10,                          \* ' " space LF
               233, 201, 1}                             \* e-acute E-acute SOH
AlphaMore  == {41, 37, 96, 9, 127, 160, 48, 122, 61, 60, 35, 36, 38, 63, 64, 94, 126, 62}
              \* ) % ` TAB DEL NBSP 0 z = < # $ & ? @ ^ ~ >
Alphabet == IF Tier = "quick" THEN AlphaQuick ELSE AlphaQuick \cup AlphaMore
MaxLen == 3
Tails(n) == UNION {[1..k -> Alphabet] : k \in 0..n}

(* extra atoms chosen by the driver (seeded random longer atoms): ndjson lines {"s": [code points]} *)
Extra == IF "C55_EXTRA" \in DOMAIN IOEnv THEN ndJsonDeserialize(IOEnv.C55_EXTRA) ELSE <<>>

-----------------------------------------------------------------------------
(* term space for canonical output *)
S(str) == NL!Codes(str)
LeavesFull  == {MkAtom(S("a")), MkAtom(S("B")), MkAtom(S("-")), MkAtom(S("[]")), MkAtom(S(",")), MkInt(1), MkInt(-1), MkVar(0)}
LeavesSmall == {MkAtom(S("a")), MkInt(1), MkInt(-1), MkAtom(S("-"))}
Un  == {S("f"), S("-"), S("\\+"), S("{}"), S("$VAR")}
Bin == {S("f"), S("-"), S(","), S("."), S(":-"), S("*"), S("="), S("^")}
Depth1(L) == {MkCmp(f, <<x>>) : f \in Un, x \in L} \cup {MkCmp(f, <<x, y>>) : f \in Bin, x \in L, y \in L}
SideLeaves == IF Tier = "quick" THEN LeavesSmall ELSE LeavesFull
Inner      == IF Tier = "quick" THEN Depth1(LeavesSmall) ELSE Depth1(LeavesFull)
(* a second variable so that sharing and distinctness of variables are both seen *)
VarPairs == {MkCmp(S("f"), <<MkVar(0), MkVar(0)>>), MkCmp(S("f"), <<MkVar(0), MkVar(1)>>), MkCmp(S("-"), <<MkVar(1), MkVar(0)>>),
             MkCmp(S("."), <<MkVar(0), MkVar(1)>>), MkCmp(S("."), <<MkVar(0), MkCmp(S("."), <<MkVar(1), MkAtom(S("[]"))>>)>>)}
(* proper lists and a few classics *)
Classics == {MkCmp(S("."), <<MkAtom(S("a")), MkCmp(S("."), <<MkAtom(S("b")), MkAtom(S("[]"))>>)>>),
             MkCmp(S("."), <<MkAtom(S("a")), MkCmp(S("."), <<MkAtom(S("b")), MkAtom(S("c"))>>)>>),
             MkCmp(S("-"), <<MkCmp(S("-"), <<MkInt(1)>>)>>),
             MkCmp(S("-"), <<MkCmp(S("-"), <<MkAtom(S("a"))>>)>>),
             MkCmp(S("-"), <<MkInt(1), MkInt(-1)>>),
             MkCmp(S("^"), <<MkCmp(S("-"), <<MkInt(2)>>), MkInt(2)>>),
             MkCmp(S("^"), <<MkInt(-2), MkInt(2)>>),
             MkCmp(S("-"), <<MkCmp(S("^"), <<MkInt(2), MkInt(2)>>)>>),
             MkCmp(S("\\+"), <<MkCmp(S(","), <<MkAtom(S("a")), MkAtom(S("b"))>>)>>),
             MkCmp(S("f"), <<MkAtom(S(":-"))>>),
             MkCmp(S("f"), <<MkCmp(S(":-"), <<MkAtom(S("a")), MkAtom(S("b"))>>)>>),
             MkCmp(S("="), <<MkAtom(S("a")), MkCmp(S("="), <<MkAtom(S("b")), MkAtom(S("c"))>>)>>),
             MkCmp(S("f"), <<MkAtom(S("A b")), MkAtom(S("")), MkAtom(S("don't")), MkAtom(S("[]")), MkAtom(S("{}")), MkAtom(S("|")), MkAtom(S(";"))>>),
             MkCmp(S("A"), <<MkAtom(S("a"))>>), MkCmp(S("a b"), <<MkInt(1), MkInt(2)>>), MkCmp(S(""), <<MkInt(0)>>),
             MkCmp(S("{}"), <<MkCmp(S(","), <<MkAtom(S("a")), MkAtom(S("b"))>>)>>),
             MkCmp(S("$VAR"), <<MkInt(27)>>), MkCmp(S("$VAR"), <<MkAtom(S("a"))>>), MkCmp(S("f"), <<MkCmp(S("$VAR"), <<MkInt(0)>>)>>),
             MkCmp(S(":-"), <<MkCmp(S("f"), <<MkVar(0)>>), MkCmp(S(","), <<MkCmp(S("g"), <<MkVar(0), MkVar(1)>>), MkCmp(S("\\+"), <<MkCmp(S("h"), <<MkVar(1)>>)>>)>>)>>)}

NG == 16
TermGroup(g) ==
  IF g = 1 THEN Depth1(LeavesFull) \cup VarPairs \cup Classics \cup LeavesFull
  ELSE IF g = 2 THEN {MkCmp(f, <<x>>) : f \in Un, x \in Inner}
  ELSE LET fs == {f \in Bin : (Len(f) + f[1]) % (NG - 2) = g - 3} IN
       {MkCmp(f, <<x, y>>) : f \in fs, x \in Inner, y \in SideLeaves} \cup {MkCmp(f, <<y, x>>) : f \in fs, x \in Inner, y \in SideLeaves}

-----------------------------------------------------------------------------
VARIABLES phase, kind, src, s, t, g
vars == <<phase, kind, src, s, t, g>>
NoTerm == MkInt(0)

Init ==
  /\ phase = "pick" /\ t = NoTerm
  /\ \/ kind = "atom" /\ src = "enum" /\ g = 0 /\ s \in ({<<a>> : a \in Alphabet} \cup {<<>>})
     \/ kind = "atom" /\ src = "rand" /\ s = <<>> /\ g \in 1..NG /\ Len(Extra) > 0
     \/ kind = "term" /\ src = "space" /\ s = <<>> /\ g \in 1..NG

Next ==
  /\ phase = "pick" /\ phase' = "case" /\ UNCHANGED <<kind, src, g>>
  /\ CASE kind = "atom" /\ src = "enum" ->
            /\ t' = NoTerm
            /\ IF s = <<>> THEN s' = <<>> ELSE s' \in {s \o x : x \in Tails(MaxLen - 1)}
       [] kind = "atom" /\ src = "rand" ->
            t' = NoTerm /\ \E i \in {j \in 1..Len(Extra) : j % NG = g - 1} : s' = Extra[i].s
       [] kind = "term" -> s' = <<>> /\ t' \in TermGroup(g)

-----------------------------------------------------------------------------
Wrap(pre, x, post) == pre \o x \o post
RECURSIVE SetSeq(_)
SetSeq(z) == IF z = {} THEN <<>> ELSE LET e == CHOOSE e \in z : TRUE IN <<e>> \o SetSeq(z \ {e})

EmitAtom ==
  LET wq == WriteqAtom(s) IN
  PrintT(ToJson([kind |-> "atom", src |-> src, s |-> s, wq |-> wq, w |-> WriteAtom(s),
                 wqarg |-> Wrap(<<102, 40>>, wq, <<41>>), wqlist |-> Wrap(<<91>>, wq, <<93>>),
                 warg |-> Wrap(<<102, 40>>, WriteAtom(s), <<41>>),
                 quoted |-> ~Unquoted(s), cls |-> ClassOf(s), esc |-> SetSeq(IF Unquoted(s) THEN {} ELSE EscKinds(s))]))

EmitTerm == PrintT(ToJson([kind |-> "term", src |-> src, t |-> t, canon |-> Canon(t)]))

Emit == phase = "case" => IF kind = "atom" THEN EmitAtom ELSE EmitTerm

-----------------------------------------------------------------------------
(* sanity of the oracle *)
RECURSIVE Decode(_, _, _)
Decode(q, i, acc) ==
  IF NL!At(q, i) = 39 /\ NL!At(q, i + 1) # 39 THEN <<i = Len(q), acc>>
  ELSE LET r == NL!QChar(q, i) IN
       IF r[2] = 0 THEN <<FALSE, acc>> ELSE Decode(q, r[2], Append(acc, r[1]))

SaneQuoted ==
  (phase = "case" /\ kind = "atom") =>
    LET q == QuotedForm(s) IN
    /\ q[1] = 39 /\ Decode(q, 2, <<>>) = <<TRUE, s>>
    /\ \A i \in 1..Len(q) : ~(Control(q[i]) \/ WhiteExt(q[i]))
SaneUnquoted ==
  (phase = "case" /\ kind = "atom" /\ Unquoted(s)) =>
    /\ s # <<>>
    /\ \A i \in 1..Len(s) : ~(Control(s[i]) \/ WhiteExt(s[i]) \/ s[i] = 32 \/ s[i] \in {39, 34, 96, 40, 41, 44, 124, 37})
    /\ (LetterDigit(s) \/ Graphic(s) \/ Solo(s))
    /\ ~(LetterDigit(s) /\ Graphic(s))
=============================================================================
