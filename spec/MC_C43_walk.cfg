CONSTANT Mode = "walk"
CONSTANT LeafSet = "full"
CONSTANT GrowSet = "small"
CONSTANT Depth = 20
CONSTANT Names <- NamesDef
INIT Init
NEXT Next
INVARIANT Emit
INVARIANT ConsistentInv
