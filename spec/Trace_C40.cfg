INIT Init
NEXT Next
POSTCONDITION TraceAccepted
