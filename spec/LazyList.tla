------------------------------ MODULE LazyList ------------------------------
(* C47: phrase_from_file(G, F) == phrase(G, Chars(F)).                                                *)
(*                                                                                                  *)
(* Layer A (the property): the answers of a grammar on the complete character list of the file; for  *)
(* the catalogue grammars these are given in closed form (operators A_...), on explicit contents and *)
(* on run-length encoded contents (used for files around the real chunk size).                       *)
(*                                                                                                  *)
(* Layer B (the mechanism, src/lib/pio.pl): the list handed to phrase/2 is lazy.  Its tail is an     *)
(* unbound variable with a frozen goal render_step(Stream, Pos, Tail) that remembers the stream      *)
(* position Pos (bytes).  Touching the tail wakes the goal: set_stream_position(Stream, Pos); at the *)
(* end of the stream the tail becomes []; otherwise the next K characters are read (chars_to_read:   *)
(* K = 4096 in the library, 2 or 3 here), appended as a partial string whose tail is frozen again     *)
(* with the new position.  Backtracking undoes the bindings of tails (the list shrinks back to what   *)
(* it was at the choice point and the frozen goal of that tail, with ITS position, is in force        *)
(* again) but not the position of the stream - hence the repositioning at every wake-up.              *)
(*                                                                                                  *)
(* A grammar is a small nondeterministic recogniser: control states with an ordered list of          *)
(* alternatives (clause order), instructions that look at the list cell at index n.  The machine     *)
(* runs it depth-first with a choice-point stack and collects ALL answers (findall/3).               *)
EXTENDS Integers, Sequences, FiniteSets

(* ---- characters and bytes ---- *)
W(c) == IF c < 128 THEN 1 ELSE IF c < 2048 THEN 2 ELSE IF c < 65536 THEN 3 ELSE 4
RECURSIVE BytesUpTo(_, _)
BytesUpTo(cs, p) == IF p = 0 THEN 0 ELSE BytesUpTo(cs, p - 1) + W(cs[p])
OnBoundary(cs, b) == \E p \in 0..Len(cs) : BytesUpTo(cs, p) = b
CharIdx(cs, b) == CHOOSE p \in 0..Len(cs) : BytesUpTo(cs, p) = b

(* ---- the lazy list ---- *)
(* sp: position of the stream (bytes); list: the materialised prefix; closed: the list ends in [];    *)
(* fp: the position remembered by the frozen goal of the current tail; wakes: number of wake-ups      *)
LzInit == [sp |-> 0, fp |-> 0, list |-> <<>>, closed |-> FALSE, wakes |-> 0]

Wake(cs, K, lz) ==
  LET total == BytesUpTo(cs, Len(cs)) IN
  IF lz.fp = total THEN [lz EXCEPT !.sp = lz.fp, !.closed = TRUE, !.wakes = @ + 1]
  ELSE LET p == CharIdx(cs, lz.fp)
           q == IF p + K < Len(cs) THEN p + K ELSE Len(cs)
           b == BytesUpTo(cs, q)
       IN [lz EXCEPT !.sp = b, !.fp = b, !.list = @ \o SubSeq(cs, p + 1, q), !.wakes = @ + 1]

Save(lz) == [mat |-> Len(lz.list), closed |-> lz.closed, fp |-> lz.fp]
Restore(lz, cp) == [lz EXCEPT !.list = SubSeq(@, 1, cp.mat), !.closed = cp.closed, !.fp = cp.fp]

EndCell == -1
NeedsWake(lz, n) == n >= Len(lz.list) /\ ~lz.closed
Cell(lz, n) == IF n < Len(lz.list) THEN lz.list[n + 1] ELSE EndCell      \* only when ~NeedsWake

(* materialised prefix ++ rest of the stream from the remembered position = content, at every step *)
LzInv(cs, lz) ==
  /\ lz.list = SubSeq(cs, 1, Len(lz.list))
  /\ OnBoundary(cs, lz.fp) /\ OnBoundary(cs, lz.sp)
  /\ lz.fp = BytesUpTo(cs, Len(lz.list))
  /\ lz.list \o SubSeq(cs, CharIdx(cs, lz.fp) + 1, Len(cs)) = cs
  /\ (lz.closed => lz.list = cs)

(* ---- grammars as recognisers ---- *)
I(op, set, q) == [op |-> op, set |-> set, q |-> q]
Goto(q)      == I("goto", {}, q)
AnyC(q)      == I("any", {}, q)            \* [_]
CharIn(S, q) == I("char", S, q)            \* [C] with C in S
AtEnd(q)     == I("end", {}, q)            \* the list ends here (phrase/2: the rest is [])
Mark(q)      == I("mark", {}, q)           \* remember the current index (the length of what was consumed)
Accept       == I("accept", {}, "")
FailI        == I("fail", {}, "")

NL == 10
(* the tail shared by all grammars: d = "..." (... --> [] | [_], ... .), then the end of the list *)
Common(q) ==
  CASE q = "d" -> <<Goto("e"), AnyC("d")>>
    [] q = "e" -> <<AtEnd("a")>>
    [] q = "a" -> <<Accept>>
    [] OTHER   -> <<FailI>>

LaState(j) == CASE j = 0 -> "l0" [] j = 1 -> "l1" [] j = 2 -> "l2" [] j = 3 -> "l3" [] j = 4 -> "l4" [] OTHER -> "l5"
LaIndex(q) == CASE q = "l0" -> 0 [] q = "l1" -> 1 [] q = "l2" -> 2 [] q = "l3" -> 3 [] q = "l4" -> 4 [] OTHER -> 5

(* g = [name, k]:                                                                                     *)
(*  all     g_all(Cs)   --> seq(Cs).                        (seq([]) --> []. seq([E|Es]) --> [E], seq(Es).) *)
(*  line    g_line(L)   --> seq(L), "\n", ... .             one answer per newline                     *)
(*  la k    g_la(K, Cs) --> ( la(K), { false } | [] ), seq(Cs).     looks K characters ahead, backtracks *)
(*  ef      g_ef(C)     --> ( seq(_), { false } | [C], ... ).       reads to the end, fails into the 2nd *)
(*  needle  g_needle(B) --> seq(B), "\xe9\a", ... .         one answer per occurrence                   *)
Alts(g, q) ==
  IF g.name = "all" THEN
    CASE q = "i" -> <<Goto("s")>> [] q = "s" -> <<Goto("m"), AnyC("s")>> [] q = "m" -> <<Mark("e")>> [] OTHER -> Common(q)
  ELSE IF g.name = "line" THEN
    CASE q = "i" -> <<Goto("s")>> [] q = "s" -> <<Goto("m"), AnyC("s")>> [] q = "m" -> <<Mark("t")>>
      [] q = "t" -> <<CharIn({NL}, "d")>> [] OTHER -> Common(q)
  ELSE IF g.name = "la" THEN
    CASE q = "i" -> <<Goto("l0"), Goto("s")>>
      [] q \in {"l0", "l1", "l2", "l3", "l4", "l5"} ->
           (IF LaIndex(q) < g.k THEN <<AnyC(LaState(LaIndex(q) + 1))>> ELSE <<FailI>>)
      [] q = "s" -> <<Goto("m"), AnyC("s")>> [] q = "m" -> <<Mark("e")>> [] OTHER -> Common(q)
  ELSE IF g.name = "ef" THEN
    CASE q = "i" -> <<Goto("f"), Goto("c")>> [] q = "f" -> <<Goto("ff"), AnyC("f")>> [] q = "ff" -> <<FailI>>
      [] q = "c" -> <<AnyC("m")>> [] q = "m" -> <<Mark("d")>> [] OTHER -> Common(q)
  ELSE \* needle
    CASE q = "i" -> <<Goto("s")>> [] q = "s" -> <<Goto("m"), AnyC("s")>> [] q = "m" -> <<Mark("t1")>>
      [] q = "t1" -> <<CharIn({233}, "t2")>> [] q = "t2" -> <<CharIn({97}, "d")>> [] OTHER -> Common(q)

(* ---- the machine ---- *)
(* m = [cur: instruction, n, marks, cps: stack of [alts, n, marks, lz: saved list state], answers, done] *)
Load(m, q, g, lz) ==                 \* enter control state q: first alternative now, the rest as a choice point
  LET as == Alts(g, q) IN
  [m EXCEPT !.cur = as[1],
            !.cps = IF Len(as) > 1 THEN Append(@, [alts |-> Tail(as), n |-> m.n, marks |-> m.marks, lz |-> Save(lz)]) ELSE @]

MInit(g) == Load([cur |-> FailI, n |-> 0, marks |-> <<>>, cps |-> <<>>, answers |-> <<>>, done |-> FALSE], "i", g, LzInit)

(* one step: returns [m, lz] *)
Backtrack(m, lz) ==
  IF m.cps = <<>> THEN [m |-> [m EXCEPT !.done = TRUE], lz |-> lz]
  ELSE LET cp == m.cps[Len(m.cps)]
           rest == SubSeq(m.cps, 1, Len(m.cps) - 1)
           m1 == [m EXCEPT !.cur = cp.alts[1], !.n = cp.n, !.marks = cp.marks,
                           !.cps = IF Len(cp.alts) > 1 THEN Append(rest, [cp EXCEPT !.alts = Tail(@)]) ELSE rest]
       IN [m |-> m1, lz |-> Restore(lz, cp.lz)]

Step(cs, K, g, m, lz) ==
  LET c == m.cur IN
  IF c.op = "goto" THEN [m |-> Load(m, c.q, g, lz), lz |-> lz]
  ELSE IF c.op = "mark" THEN [m |-> Load([m EXCEPT !.marks = Append(@, m.n)], c.q, g, lz), lz |-> lz]
  ELSE IF c.op = "accept" THEN Backtrack([m EXCEPT !.answers = Append(@, m.marks)], lz)
  ELSE IF c.op = "fail" THEN Backtrack(m, lz)
  ELSE IF NeedsWake(lz, m.n) THEN [m |-> m, lz |-> Wake(cs, K, lz)]          \* the frozen goal runs first
  ELSE LET x == Cell(lz, m.n) IN
       IF c.op = "end" THEN (IF x = EndCell THEN [m |-> Load(m, c.q, g, lz), lz |-> lz] ELSE Backtrack(m, lz))
       ELSE IF x # EndCell /\ (c.op = "any" \/ x \in c.set)
            THEN [m |-> Load([m EXCEPT !.n = @ + 1], c.q, g, lz), lz |-> lz]
            ELSE Backtrack(m, lz)

(* ---- layer A: the answers on the complete list, in closed form (an answer = the sequence of marks) ---- *)
RECURSIVE Where(_, _, _)              \* ascending indices i >= from with P(cs, i), as answers <<Off(i)>>
Where(cs, from, kind) ==
  IF from > Len(cs) THEN <<>>
  ELSE LET hit == IF kind = "nl" THEN cs[from] = NL ELSE (cs[from] = 233 /\ from < Len(cs) /\ cs[from + 1] = 97) IN
       (IF hit THEN << <<from - 1>> >> ELSE <<>>) \o Where(cs, from + 1, kind)
Answers(g, cs) ==
  CASE g.name \in {"all", "la"} -> << <<Len(cs)>> >>
    [] g.name = "line"          -> Where(cs, 1, "nl")            \* L = the text before each newline
    [] g.name = "ef"            -> IF cs = <<>> THEN <<>> ELSE << <<1>> >>
    [] OTHER                    -> Where(cs, 1, "needle")        \* B = the text before each occurrence

(* ---- the same on run-length encoded contents: runs = << [c, len], ... >>, len >= 1 ---- *)
RECURSIVE Expand(_)
Expand(runs) == IF runs = <<>> THEN <<>> ELSE [i \in 1..Head(runs).len |-> Head(runs).c] \o Expand(Tail(runs))
RECURSIVE TotalLen(_)
TotalLen(runs) == IF runs = <<>> THEN 0 ELSE Head(runs).len + TotalLen(Tail(runs))
RECURSIVE RleWhere(_, _, _)
RleWhere(runs, off, kind) ==          \* off: number of characters before Head(runs)
  IF runs = <<>> THEN <<>>
  ELSE LET r == Head(runs)
           here == IF kind = "nl"
                   THEN (IF r.c = NL THEN [i \in 1..r.len |-> <<off + i - 1>>] ELSE <<>>)
                   ELSE (IF r.c = 233 /\ Len(runs) > 1 /\ runs[2].c = 97 THEN << <<off + r.len - 1>> >> ELSE <<>>)
       IN here \o RleWhere(Tail(runs), off + r.len, kind)
RleAnswers(g, runs) ==
  CASE g.name \in {"all", "la"} -> << <<TotalLen(runs)>> >>
    [] g.name = "line"          -> RleWhere(runs, 0, "nl")
    [] g.name = "ef"            -> IF runs = <<>> THEN <<>> ELSE << <<1>> >>
    [] OTHER                    -> RleWhere(runs, 0, "needle")
Canonical(runs) == \A i \in 1..Len(runs) : runs[i].len >= 1 /\ (i > 1 => runs[i].c # runs[i - 1].c)
=============================================================================
