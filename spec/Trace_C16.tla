------------------------------ MODULE Trace_C16 ------------------------------
(* C16, impl -> spec direction: the texts that number_codes/2 and number_chars/2 produced for given     *)
(* numbers are read by the specification (NumLex!NumberOfText); each text must denote exactly the       *)
(* number it was produced from ("NumToText only as a relation").  Input: ndjson lines                   *)
(*   {"i": index, "s": [code points of the text], "k": "int"|"float", "neg": bool, "v": [code points of  *)
(*    the decimal numeral of |integer| or of the 64-bit pattern]}                                        *)
(* One verdict is printed per line; the driver requires a verdict for every line.                       *)
EXTENDS NumLex, Json, IOUtils

Rec == ndJsonDeserialize(IOEnv.TRACE)
NG == 16

VARIABLES phase, l, g
Init == phase = "pick" /\ l = 0 /\ g \in 1..NG
Next == /\ phase = "pick" /\ phase' = "case" /\ g' = g
        /\ l' \in {j \in 1..Len(Rec) : j % NG = g - 1}

Expected(r) == [k |-> r.k, v |-> [neg |-> r.neg, m |-> DecRun(r.v, 1, <<>>)[1]]]

Verdict ==
  phase = "case" =>
    LET r   == Rec[l]
        got == NumberOfText(r.s)
    IN PrintT(ToJson([i |-> r.i, ok |-> (got = Expected(r)), k |-> got.k, v |-> ToDec(got.v)]))
=============================================================================
