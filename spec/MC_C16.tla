------------------------------- MODULE MC_C16 -------------------------------
(* C16: numeric literals and number/text conversions are exact.                                  *)
(* Every "case" state is one behaviour of the specification NumLex:                              *)
(*   lex  a spelling (sequence of code points) with the value number_codes/number_chars must     *)
(*        give for it and what read_term must read from the spelling followed by " ."            *)
(*   int  an integer for the printing round trip                                                 *)
(*   flt  a finite double given by its bit pattern, decomposed as (-1)^neg * q * 2^e so that the  *)
(*        driver can construct it without reading a float literal, for the printing round trip   *)
(* The driver replays each printed vector against the real machine.  Sanity of the oracle itself *)
(* (TLC decides): Value(ToDecimal(n)) = n for the round-trip integers; for the boundary doubles  *)
(* FloatBits is the identity on exactly representable decimals, rounds exact midpoints to even   *)
(* and the neighbours of a midpoint to the nearer double.                                        *)
EXTENDS NumLex, Json, IOUtils, FiniteSets

CONSTANT Tier   \* "quick" | "thorough"

-----------------------------------------------------------------------------
(* enumerated spellings *)
Alphabet == {48, 49, 55, 57, 97, 102, 120, 98, 111, 39, 92, 46, 101, 69, 43, 45, 95, 32}
   \*         0   1   7   9   a    f    x   b    o   '   \   .    e   E   +   -   _  space
Starts == {48, 49, 55, 57, 43, 45, 39}      \* a digit, a sign or a quote
MaxLen == 5
Tails(n) == UNION {[1..k -> Alphabet] : k \in 0..n}

(* quick replays every spelling of length <= 4 and those of length 5 whose interest is not only   *)
(* in the characters that follow a finished token: the token (with sign and layout) covers at      *)
(* least 4 of the 5 characters, or it is malformed in its last two characters (for a malformed    *)
(* token j is the position of the offending underscore).  thorough replays all of them.            *)
Selected(s, x) ==
  \/ Tier # "quick"
  \/ Len(s) <= 4
  \/ (x.i > 0 /\ x.t.k # "err" /\ x.t.j >= Len(s))
  \/ (x.i > 0 /\ x.t.k = "err" /\ x.t.j >= Len(s) - 1)

(* A two-character beginning after which no text of up to 5 characters starts with [-] digit (NumLex!Prefix gives 0):  *)
(* no length-5 extension can be Selected, so quick does not generate them.  (+ is no sign; after - only layout or a     *)
(* digit may follow; a quoted sign needs the three characters '-'.)                                                     *)
Dead(p) == ~(Digit(p[1]) \/ (p[1] = 45 /\ (Digit(p[2]) \/ p[2] = 32)) \/ (p[1] = 39 /\ p[2] = 45))

-----------------------------------------------------------------------------
(* catalogue of long or special literals (text; entries with control or non-ASCII characters as codes) *)
CatText == <<
  "1234567890123456789012345678901234567890", "-1234567890123456789012345678901234567890",
  "0x123456789abcdefABCDEF0", "0xffffffffffffffff", "0x8000000000000000", "-0x8000000000000000", "0x7fffffffffffffff",
  "0o777777777777777777777777", "0o1000000000000000000000", "0b1111111111111111111111111111111111111111111111111111111111111111111111",
  "9223372036854775807", "9223372036854775808", "-9223372036854775808", "-9223372036854775809",
  "72057594037927935", "72057594037927936", "36028797018963968", "36028797018963967", "-36028797018963968", "-36028797018963969",
  "18446744073709551615", "18446744073709551616", "4611686018427387904", "-4611686018427387905",
  "00000000000000000000000000000000000000001", "0000", "007", "0_0", "00x1", "00'a",
  \* floats: range limits
  "1.0e308", "1.7976931348623157e308", "1.7976931348623158e308", "1.7976931348623159e308",
  "1.797693134862315807e308", "1.797693134862315808e308", "1.0e309", "1.0e400", "-1.0e400", "0.0e400", "1.0e-400", "1.0e999999999999",
  "1.0e-999999999999", "0.0e999999999999",
  "179769313486231580793728971405303415079934132710037826936173778980444968292764750946649017977587207096330286416692887910946555547851940402630657488671505820681908902000708383676273854845817711531764475730270069855571366959622842914819860834936475292719074168444365510704342711559699508093042880177904174497792.0",
  "4.9e-324", "5.0e-324", "4.0e-324", "2.5e-324", "2.4e-324", "2.4703282292062327e-324", "2.4703282292062328e-324", "7.4e-324", "7.5e-324",
  "2.2250738585072011e-308", "2.2250738585072012e-308", "2.2250738585072014e-308", "2.2250738585072009e-308", "2.225073858507201e-308",
  "2.2250738585072013830902327173324040642192159804623318306e-308",
  \* floats: ties and near-ties
  "0.1", "0.2", "0.3", "0.5", "0.7", "1.0e23", "1.0e22", "8.41e21", "5.0e-5", "123456.789e3", "3.141592653589793", "2.718281828459045",
  "9007199254740992.0", "9007199254740993.0", "9007199254740994.0", "9007199254740995.0",
  "9007199254740993.00000000000000000001", "9007199254740992.99999999999999999999", "9007199254740993.000000000000000000000000000000000000000",
  "1.00000000000000011102230246251565404236316680908203125", "1.00000000000000011102230246251565404236316680908203126",
  "1.00000000000000011102230246251565404236316680908203124", "1.00000000000000033306690738754696212708950042724609375",
  "0.500000000000000166533453693773481063544750213623046875", "0.500000000000000166533453693773481063544750213623046876",
  "1448997445238699.0e0", "17976931348623157.0e292", "0.000000000000000000000000000001e30", "100000000000000000000000000000.0e-29",
  "123456789012345678901234567890.0", "0.000001", "1.0e-5", "1.0E+5", "1.0e+05", "1.0e005", "1.0e-0", "1.0e+0", "1.5E3", "1.5e03",
  "0.0", "-0.0", "- 0.0", "00.0", "0.00", "-1.5e3", "- 1.0e10", "6.0e23", "6.02214076e23", "1.602176634e-19",
  "4.35", "2.675", "1.005", "0.30000000000000004", "100.0", "1.0e15", "1.0e16", "123456789012345680.0",
  \* digit groups
  "1_000_000", "1_ 000", "1_  0", "1_/**/0", "1_/* c */ 0", "1_% c", "1__0", "1_000.5", "1_0.5e1_0", "1.5_0", "1.0e1_0", "0_1", "0x1_0", "0'_", "0_'a", "1_a",
  "1_", "1_ ", "12_", "1_0_", "1_.0", "1_ .", "1_000_", "1_000_ ", "0_", "0b1_0", "0o7_7",
  \* character code constants
  "0'a", "0' ", "0'''", "0''", "0''a", "0'", "0'\\n", "0'\\t", "0'\\a", "0'\\b", "0'\\f", "0'\\v", "0'\\r", "0'\\\\", "0'\\'", "0'\\\"", "0'\\`",
  "0'\\x41\\", "0'\\x41", "0'\\101\\", "0'\\101", "0'\\x\\", "0'\\x110000\\", "0'\\x10FFFF\\", "0'\\x10ffff\\", "0'\\xD800\\", "0'\\xd7ff\\", "0'\\xDFFF\\", "0'\\xE000\\",
  "0'\\0\\", "0'\\x0\\", "0'\\7\\", "0'\\8\\", "0'\\e", "0'\\s", "0'\\z", "0'\\N", "0'\\x20\\", "0'\\x7F\\", "0'\\177\\", "0'\\777777777777\\", "0'\\xffffffffffff\\",
  "0'\"", "0'`", "0'(", "0')", "0'%", "0',", "0'|", "0'[", "0'{", "0'!", "0';", "0'.", "0'0", "0'9", "0'A", "0'Z", "0'_", "0'~", "0'/", "0'*", "0'#",
  "0'ab", "0'a ", "0'a.", "0'''a", "0''''", "-0'a", "- 0'a", "0'\\\\\\", "1'a", "0 'a'",
  \* radix constants
  "0x", "0xg", "0xG", "0X1F", "0x1F", "0x1f", "0xaBcDeF", "0x0", "0x00000000000000000000000000000000000001", "-0x10", "- 0x10",
  "0b", "0b2", "0B1", "0b101", "-0b101", "0b0", "0b12", "0o", "0o8", "0O7", "0o17", "0o78", "-0o17", "0x1.5", "0b1.5", "0b1e5", "0x1e5", "0o1e5",
  \* layout, comments, signs
  " 1", "  12", "1 ", " 1 ", "/* c */1", "/* c */ 1", "/**/1", "/* c 1", "1/**/", "1 /**/", "- 1", "-  1", "-/**/1", "- /**/ 1", "- /**/1", "-1/**/",
  "'-'1", "'-' 1", "'-'1.5", "'\\x2d\\'1", "'\\55\\'7", "'-''1", "'--'1", "''1", "'+'1", "'-'a", "'-'", "'-' ", "'-'0'a", "'-'0x1f", "\"-\"1", "`-`1",
  "+1", "+ 1", "--1", "-+1", "- -1", "-a", "-", "- ", "--", "-.5", "-1", "-1 ", " -1", " - 1", "-(1)", "(1)", "-1.0", "\\1", "1-1", "1 - 1", "- 1 - 1",
  \* not numbers
  "1e3", "1.e3", "1.", ".5", "1r3", "1R3", "12abc", "1.0e", "1.0e+", "1.0e-", "1.0e+-1", "1.0e--1", "1 000", "1.0.0", "1..2", "0.", "0.e1",
  "inf", "nan", "1.0Inf", "1.5NaN", "1.0e1.0", "1.0e1e1", "1,0", "1.0f", "1d0", "1.0d0", "0.1.", "a", "'1'", "\"1\"", "[1]", "1 .", "1. ", "X", "_1", "_", "", " "
>>

(* very long literals (309 and 1080 digits), thorough only: each costs seconds of BigInt arithmetic *)
CatHeavy == <<
  "179769313486231570814527423731704356798070567525844996598917476803157260780028538760589558632766878171540458953514382464234321326889464182768467546703537516986049910576551282076245490090389328944075868508455133942304583236903222948165808559332123348274797826204144723168738177180919299881250404026184124858368.0",
  "179769313486231580793728971405303415079934132710037826936173778980444968292764750946649017977587207096330286416692887910946555547851940402630657488671505820681908902000708383676273854845817711531764475730270069855571366959622842914819860834936475292719074168444365510704342711559699508093042880177904174497791.0",
  "0.00000000000000000000000000000000000000000000000000000000000000000000000000000000000000000000000000000000000000000000000000000000000000000000000000000000000000000000000000000000000000000000000000000000000000000000000000000000000000000000000000000000000000000000000000000000000000000000000000000000000000000000000000000000000000247032822920623272088284396434110686182529901307162382212792841250337753635104375932649918180817996189898282347722858865463328355177969898199387398005390939063150356595155702263922908583924491051844359318028499365361525003193704576782492193656236698636584807570015857692699037063119282795585513329278343384093519780155312465972635795746227664652728272200563740064854999770965994704540208281662262378573934507363390079677619305775067401763246736009689513405355374585166611342237666786041621596804619144672918403005300575308490487653917113865916462395249126236538818796362393732804238910186723484976682350898633885879256283027559956575244555072551893136908362547791869486679949683240497058210285131854513962138377228261454376934125320985913276672363281251"
>>

CatCodes == <<
  <<49, 95, 10, 48>>,                 \* 1_ LF 0
  <<49, 95, 9, 48>>,                  \* 1_ TAB 0
  <<49, 95, 37, 32, 99, 10, 48>>,     \* 1_% c LF 0
  <<9, 49>>, <<10, 49>>, <<13, 10, 49>>, <<11, 49>>, <<12, 49>>, <<49, 10>>, <<49, 9>>,
  <<37, 32, 99, 10, 49>>,             \* % c LF 1
  <<37, 32, 99>>,                     \* % c
  <<45, 37, 99, 10, 49>>,             \* -%c LF 1
  <<45, 10, 49>>,                     \* - LF 1
  <<48, 39, 9>>, <<48, 39, 10>>, <<48, 39, 0>>, <<48, 39, 127>>, <<48, 39, 92, 10>>, <<48, 39, 92, 10, 97>>,
  <<48, 39, 233>>, <<48, 39, 201>>, <<48, 39, 8364>>, <<48, 39, 128512>>, <<48, 39, 955>>, <<48, 39, 160>>, <<48, 39, 8232>>, <<48, 39, 173>>,
  <<48, 39, 1636>>,                   \* 0' ARABIC-INDIC DIGIT FOUR
  <<1633, 1634>>, <<65297, 65298>>,   \* digits that are not ASCII digits
  <<49, 1634>>, <<49, 46, 1634>>,
  <<49, 160>>, <<160, 49>>,           \* no-break space is not layout
  <<49, 0>>, <<0, 49>>, <<49, 46, 48, 0>>
>>

CatAll == IF Tier = "quick" THEN CatText ELSE CatText \o CatHeavy
Cat == [i \in 1..Len(CatAll) |-> Codes(CatAll[i])] \o CatCodes

-----------------------------------------------------------------------------
(* extra spellings / bit patterns chosen by the driver (seeded random samples; the values still come from this *)
(* specification): ndjson lines {"k": "lex"|"flt", "s": [code points]} - for "flt" the text is the decimal     *)
(* numeral of the 64-bit pattern.                                                                               *)
Extra == IF "C16_EXTRA" \in DOMAIN IOEnv THEN ndJsonDeserialize(IOEnv.C16_EXTRA) ELSE <<>>

-----------------------------------------------------------------------------
(* round-trip numbers *)
P(n) == Pow2(n)
near(n, ds) == {Add(P(n), FromInt(d)) : d \in ds}
IntPos ==
  {FromInt(k) : k \in {0, 1, 2, 9, 10, 99, 100, 255, 65535, 1000000}}
  \cup UNION {near(k, {-1, 0, 1}) : k \in {31, 32, 53, 55, 56, 62, 63, 64, 70, 128, 200}}
  \cup {Pow(Ten, k) : k \in {9, 18, 19, 20, 40, 100}} \cup {Sub(Pow(Ten, k), One) : k \in {9, 18, 19, 20, 40}}
Ints == IntPos \cup {Neg(v) : v \in IntPos}

BiasedExps == IF Tier = "quick" THEN {0, 1, 1022, 1023, 1024, 1075, 1076, 2046}
              ELSE {0, 1, 2, 3, 512, 1000, 1021, 1022, 1023, 1024, 1025, 1026, 1050, 1074, 1075, 1076, 1077, 1100, 1500, 2045, 2046}
Fracs == {BZero, One, Two, P(51), Sub(P(52), One), Sub(P(52), Two), Add(P(51), One),
          [neg |-> FALSE, m |-> DecRun(Codes("2702159776422298"), 1, <<>>)[1]],     \* 0x999999999999A (0.1, 0.2, 0.4 ...)
          [neg |-> FALSE, m |-> DecRun(Codes("1501199875790165"), 1, <<>>)[1]]}     \* 0x5555555555555
(* -0.0 is not a value of Scryer's floats (see NumLex!TokValue) and is left out *)
NegExps == IF Tier = "quick" THEN {0, 1023} ELSE BiasedExps      \* the sign is independent of the digits
BoundaryBits == ({Add(Mul(FromInt(be), P52), f) : be \in BiasedExps, f \in Fracs}
                 \cup {Add(Add(Mul(FromInt(be), P52), f), SignBit) : be \in NegExps, f \in Fracs}) \ {SignBit}
(* the doubles nearest to powers of ten (shortest decimal output has one digit) *)
TenExps == IF Tier = "quick" THEN {k \in -323..308 : k % 13 = 0 \/ k \in {-323, -308, -307, -5, -4, -3, -1, 0, 1, 14, 15, 16, 17, 21, 22, 23, 308}}
           ELSE -323..308

NG == 16
GroupOf(S, g) == {x \in S : (Len(x.m) + (IF x.m = <<>> THEN 0 ELSE x.m[1]) + (IF x.neg THEN 1 ELSE 0)) % NG = g - 1}

-----------------------------------------------------------------------------
VARIABLES phase, kind, src, s, n, g
vars == <<phase, kind, src, s, n, g>>

Init ==
  /\ phase = "pick" /\ n = BZero
  /\ \/ kind = "lex" /\ src = "enum" /\ g = 0 /\ s \in ({<<a, b>> : a \in Starts, b \in Alphabet} \cup {<<>>})
     \/ kind = "lex" /\ src = "cat" /\ s = <<>> /\ g \in 1..NG
     \/ kind = "lex" /\ src = "rand" /\ s = <<>> /\ g \in 1..NG /\ Len(Extra) > 0
     \/ kind = "int" /\ src = "bound" /\ s = <<>> /\ g \in 1..NG
     \/ kind = "flt" /\ src = "bound" /\ s = <<>> /\ g \in 1..NG
     \/ kind = "flt" /\ src = "ten" /\ s = <<>> /\ g \in 1..NG
     \/ kind = "flt" /\ src = "rand" /\ s = <<>> /\ g \in 1..NG /\ Len(Extra) > 0

Idx(len) == {j \in 1..len : j % NG = g - 1}

Next ==
  /\ phase = "pick" /\ phase' = "case" /\ UNCHANGED <<kind, src, g>>
  /\ CASE kind = "lex" /\ src = "enum" ->
            /\ n' = BZero
            /\ IF s = <<>> THEN s' \in {<<a>> : a \in Starts}
               ELSE s' \in {s \o t : t \in Tails(IF Tier = "quick" /\ Dead(s) THEN MaxLen - 3 ELSE MaxLen - 2)}
                    /\ Selected(s', Lex(s'))
       [] kind = "lex" /\ src = "cat" -> n' = BZero /\ \E i \in Idx(Len(Cat)) : s' = Cat[i]
       [] kind = "lex" /\ src = "rand" -> n' = BZero /\ \E i \in Idx(Len(Extra)) : Extra[i].k = "lex" /\ s' = Extra[i].s
       [] kind = "int" -> s' = <<>> /\ n' \in GroupOf(Ints, g)
       [] kind = "flt" /\ src = "bound" -> s' = <<>> /\ n' \in GroupOf(BoundaryBits, g)
       [] kind = "flt" /\ src = "ten" -> s' = <<>> /\ \E k \in TenExps : (k + 323) % NG = g - 1 /\ n' = FloatBits(One, k)
       [] kind = "flt" /\ src = "rand" ->
            s' = <<>> /\ \E i \in Idx(Len(Extra)) : Extra[i].k = "flt" /\ n' = [neg |-> FALSE, m |-> DecRun(Extra[i].s, 1, <<>>)[1]]

-----------------------------------------------------------------------------
Val(r) == [k |-> r.k, v |-> ToDec(r.v)]

EmitLex ==
  LET x  == Lex(s)
      s2 == s \o <<32, 46>>
      x2 == Lex(s2)
  IN PrintT(ToJson([kind |-> "lex", src |-> src, s |-> s,
                    nc |-> Val(NumberOfLex(s, x)), rd |-> Val(ReadOfLex(s2, x2)),
                    form |-> x.t.form, grp |-> x.t.grp, neg |-> x.neg, lead |-> (SkipLayout(s, 1) # 1),
                    rest |-> RestKindOfLex(s, x), eot |-> ErrAtEnd(s, x), rform |-> x2.t.form, rrest |-> RestKindOfLex(s2, x2)]))

EmitFlt ==
  LET u == Unpack(n) IN
  PrintT(ToJson([kind |-> "flt", src |-> src, bits |-> ToDec(n), neg |-> u[1], q |-> ToDec(u[2]), e |-> u[3]]))

Emit ==
  phase = "case" =>
    CASE kind = "lex" -> EmitLex
      [] kind = "int" -> PrintT(ToJson([kind |-> "int", src |-> src, v |-> ToDec(n)]))
      [] kind = "flt" -> EmitFlt

-----------------------------------------------------------------------------
(* sanity of the oracle (a failure is a specification error: exit 2, not a VIOLATION) *)
(* |x| = q * 2^e as an exact decimal <<M, E>> *)
ExactDec(q, e) == IF e >= 0 THEN <<Mul(q, Pow2(e)), 0>> ELSE <<Mul(q, Pow(Five, 0 - e)), e>>
Bits0(M, E) == IF IsZero(M) THEN BZero ELSE FloatBits(M, E)

(* the checks on doubles far from 1 involve numbers of 300 to 750 digits; they are left to the thorough tier *)
SaneFrom == IF Tier = "quick" THEN Mul(FromInt(900), P52) ELSE BZero
SaneTo   == IF Tier = "quick" THEN Mul(FromInt(1200), P52) ELSE SignBit
SaneInt == (phase = "case" /\ kind = "int") => NumberOfText(Codes(ToDec(n))) = [k |-> "int", v |-> n]

SaneFlt ==
  (phase = "case" /\ kind = "flt" /\ src = "bound" /\ Cmp(n, SignBit) < 0 /\ Cmp(n, SaneFrom) >= 0 /\ Cmp(n, SaneTo) < 0) =>
    LET u   == Unpack(n)
        mag == IF u[1] THEN Sub(n, SignBit) ELSE n
        q   == u[2]
        e   == u[3]
        x   == ExactDec(q, e)
        mid == ExactDec(Add(Mul(q, Two), One), e - 1)          \* the midpoint between x and the next double
        nxt == Add(mag, One)
        clip(b) == IF Cmp(b, InfBits) >= 0 THEN Overflow ELSE b
        odd == q.m # <<>> /\ q.m[1] % 2 = 1
    IN /\ Bits0(x[1], x[2]) = mag
       /\ Bits0(mid[1], mid[2]) = (IF odd THEN clip(nxt) ELSE mag)
       /\ Bits0(Add(Mul(mid[1], Ten), One), mid[2] - 1) = clip(nxt)
       /\ Bits0(Sub(Mul(mid[1], Ten), One), mid[2] - 1) = mag
       /\ Unpack(mag) = <<FALSE, q, e>>

(* the digit-group extension does not change the value; a token never extends past the text *)
SaneLex ==
  (phase = "case" /\ kind = "lex") =>
    LET x == Lex(s) IN
    /\ x.i > 0 /\ x.t.k # "err" => (x.t.j > x.i /\ x.t.j <= Len(s) + 1)
    /\ x.i > 0 /\ x.t.k = "int" /\ x.t.form = "dec" /\ ~x.t.grp =>
         x.t.v.m = DecRun(s, x.i, <<>>)[1]
=============================================================================
