CONSTANT Tier = "quick"
CONSTANT Mode = "bfs"
CONSTANT Depth = 3
CONSTANT Paths <- PathsDef
CONSTANT Parent <- ParentDef
CONSTANT Base <- BaseDef
INIT Init
NEXT Next
VIEW View
INVARIANT Emit
INVARIANT WfInv
