// Hook-dependent harness parts (feature "hooks" => scryer-prolog/verif-hooks).
use serde_json::{json, Value};

use crate::Session;

/// extra job steps available with hooks
pub fn step(sess: &mut Option<Session>, st: &Value) -> Option<Value> {
    let _ = sess;
    if st.get("arm").is_some() {
        let on = st.get("arm").and_then(|v| v.as_bool()).unwrap_or(false);
        scryer_prolog::verif::arm(on);
        return Some(json!({"ok": true}));
    }
    if st.get("drain").is_some() {
        let evs = scryer_prolog::verif::drain();
        let evs: Vec<Value> = evs
            .iter()
            .map(|s| serde_json::from_str(s).unwrap_or(json!({"bad": s})))
            .collect();
        return Some(json!({"events": evs}));
    }
    None
}

/// extra subcommands available with hooks
pub fn command(cmd: &str, args: &[String]) -> bool {
    let _ = args;
    match cmd {
        "heapops" => {
            heapops();
            true
        }
        _ => false,
    }
}

fn str_of(arg: &Value) -> String {
    // sequences over {"c","z"}: c = a non-NUL byte, z = NUL
    arg.as_array()
        .map(|a| {
            a.iter()
                .map(|x| if x.as_str() == Some("z") { '\u{0}' } else { 'a' })
                .collect()
        })
        .unwrap_or_default()
}

/// C33: replay transitions of spec/Heap.tla on a real stand-alone Heap with a canary guard region.
/// input lines: {"len","cap","op":{"name","arg"},"maxcap"}; output: {"ok","len","cap","guard","skipped"}
fn heapops() {
    use scryer_prolog::verif::{HeapProbe, GROW_FAIL};
    use std::io::{BufRead, Write};
    let mut out = crate::protocol_out();
    let stdin = std::io::stdin();
    for line in stdin.lock().lines() {
        let line = match line {
            Ok(l) => l,
            Err(_) => break,
        };
        if line.trim().is_empty() {
            continue;
        }
        let v: Value = match serde_json::from_str(&line) {
            Ok(v) => v,
            Err(_) => continue,
        };
        let len = v["len"].as_u64().unwrap_or(0) as usize;
        let cap = v["cap"].as_u64().unwrap_or(0) as usize;
        let maxcap = v["maxcap"].as_u64().unwrap_or(0) as usize;
        let name = v["op"]["name"].as_str().unwrap_or("").to_string();
        let arg = v["op"]["arg"].clone();
        let r = std::panic::catch_unwind(std::panic::AssertUnwindSafe(|| {
            GROW_FAIL.set(0);
            if cap == 0 {
                return json!({"skipped": "empty heap (real initial capacity differs from the model's)"});
            }
            let mut h = match HeapProbe::with_cell_capacity(cap / 8) {
                Some(h) => h,
                None => return json!({"skipped": "alloc"}),
            };
            if name == "copy_pstr_within" {
                let l = arg.as_u64().unwrap_or(0) as usize;
                let s: String = std::iter::repeat('a').take(l).collect();
                if !h.allocate_pstr(&s) || h.byte_len() > len || h.cap_and_guard().0 != cap {
                    return json!({"skipped": "source string does not fit below len"});
                }
            }
            while h.byte_len() < len {
                if !h.push_cell() {
                    return json!({"skipped": "fill"});
                }
            }
            if h.byte_len() != len || h.cap_and_guard().0 != cap {
                return json!({"skipped": "fill mismatch"});
            }
            // growth beyond maxcap must fail: allow exactly the doublings that stay within maxcap
            let mut allowed = 0i64;
            let mut c = cap;
            while c * 2 <= maxcap {
                c *= 2;
                allowed += 1;
            }
            GROW_FAIL.set(allowed + 1);
            let ok = match name.as_str() {
                "push_cell" => h.push_cell(),
                "reserve_write" => {
                    let n = arg[0].as_u64().unwrap_or(0) as usize;
                    let k = arg[1].as_u64().unwrap_or(0) as usize;
                    h.reserve_and_write(n, k)
                }
                "allocate_pstr" => h.allocate_pstr(&str_of(&arg)),
                "allocate_cstr" => h.allocate_cstr(&str_of(&arg)),
                "append" => h.append_cells(arg.as_u64().unwrap_or(0) as usize),
                "copy_slice_to_end" => {
                    let m = arg.as_u64().unwrap_or(0) as usize;
                    if m * 8 > len {
                        GROW_FAIL.set(0);
                        return json!({"skipped": "slice longer than heap"});
                    }
                    h.copy_slice_to_end(0, m)
                }
                "copy_pstr_within" => h.copy_pstr_within(0).is_some(),
                "truncate" => {
                    h.truncate(arg.as_u64().unwrap_or(0) as usize);
                    true
                }
                _ => {
                    GROW_FAIL.set(0);
                    return json!({"skipped": "unknown op"});
                }
            };
            GROW_FAIL.set(0);
            let (c2, guard) = h.cap_and_guard();
            let mut res = json!({"ok": ok, "len": h.byte_len(), "cap": c2, "guard": guard});
            if name == "copy_pstr_within" && ok {
                // the copy must read back as the same string
                let l = arg.as_u64().unwrap_or(0) as usize;
                res["copy_ok"] = json!(h.read_pstr(len).len() == l);
            }
            res
        }));
        let res = match r {
            Ok(v) => v,
            Err(_) => {
                GROW_FAIL.set(0);
                json!({"panic": crate::take_panic()})
            }
        };
        let _ = writeln!(out, "{}", res);
    }
    let _ = out.flush();
}
