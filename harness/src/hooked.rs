// Hook-dependent harness parts (feature "hooks" => scryer-prolog/verif-hooks).
use serde_json::{json, Value};

use crate::Session;

/// extra job steps available with hooks
pub fn step(sess: &mut Option<Session>, st: &Value) -> Option<Value> {
    let _ = sess;
    if st.get("arm").is_some() {
        let on = st.get("arm").and_then(|v| v.as_bool()).unwrap_or(false);
        scryer_prolog::verif::arm(on);
        return Some(json!({"ok": true}));
    }
    if let Some(k) = st.get("grow_fail").and_then(|v| v.as_i64()) {
        scryer_prolog::verif::GROW_FAIL.set(k);
        return Some(json!({"ok": true}));
    }
    if let Some(d) = st.get("virt_limit_rel").and_then(|v| v.as_i64()) {
        // the main heap pretends to be full d bytes beyond its current length (d < 0: switch off)
        if d < 0 {
            scryer_prolog::verif::VIRT_LIMIT.store(0, std::sync::atomic::Ordering::SeqCst);
        } else if let Some(s) = sess.as_ref() {
            let fp = scryer_prolog::verif::footprint(&s.machine, "\u{1}");
            let cells = fp.iter().find(|(k, _)| *k == "heap_cells").map(|(_, v)| *v).unwrap_or(0);
            scryer_prolog::verif::VIRT_LIMIT
                .store((cells as usize) * 8 + d as usize, std::sync::atomic::Ordering::SeqCst);
        }
        return Some(json!({"ok": true}));
    }
    if st.get("grow_attempts").is_some() {
        let n = scryer_prolog::verif::GROW_ATTEMPTS.swap(0, std::sync::atomic::Ordering::SeqCst);
        return Some(json!({"grow_attempts": n}));
    }
    if let Some(n) = st.get("instr_at").and_then(|v| v.as_i64()) {
        scryer_prolog::verif::INSTR.set(n);
        return Some(json!({"ok": true}));
    }
    if let Some(on) = st.get("count_instr").and_then(|v| v.as_bool()) {
        scryer_prolog::verif::COUNT_INSTR.store(on, std::sync::atomic::Ordering::SeqCst);
        let n = scryer_prolog::verif::INSTR_COUNT.swap(0, std::sync::atomic::Ordering::SeqCst);
        return Some(json!({"instr_count": n}));
    }
    if let Some(prefix) = st.get("footprint").and_then(|v| v.as_str()) {
        if let Some(s) = sess.as_ref() {
            let fp = scryer_prolog::verif::footprint(&s.machine, prefix);
            let mut m = serde_json::Map::new();
            for (k, v) in fp {
                m.insert(k.to_string(), json!(v));
            }
            return Some(json!({"footprint": Value::Object(m)}));
        }
        return Some(json!({"error": "no session"}));
    }
    if st.get("drain").is_some() {
        let evs = scryer_prolog::verif::drain();
        let evs: Vec<Value> = evs
            .iter()
            .map(|s| serde_json::from_str(s).unwrap_or(json!({"bad": s})))
            .collect();
        return Some(json!({"events": evs}));
    }
    None
}

/// extra subcommands available with hooks
pub fn command(cmd: &str, args: &[String]) -> bool {
    let _ = args;
    match cmd {
        "heapops" => {
            heapops();
            true
        }
        "atoms" => {
            atoms();
            true
        }
        "charreader" => {
            charreader();
            true
        }
        _ => false,
    }
}

fn str_of(arg: &Value) -> String {
    // sequences over {"c","z"}: c = a non-NUL byte, z = NUL
    arg.as_array()
        .map(|a| {
            a.iter()
                .map(|x| if x.as_str() == Some("z") { '\u{0}' } else { 'a' })
                .collect()
        })
        .unwrap_or_default()
}

/// C33: replay transitions of spec/Heap.tla on a real stand-alone Heap with a canary guard region.
/// input lines: {"len","cap","op":{"name","arg"},"maxcap"}; output: {"ok","len","cap","guard","skipped"}
fn heapops() {
    use scryer_prolog::verif::{HeapProbe, GROW_FAIL};
    use std::io::{BufRead, Write};
    let mut out = crate::protocol_out();
    let stdin = std::io::stdin();
    for line in stdin.lock().lines() {
        let line = match line {
            Ok(l) => l,
            Err(_) => break,
        };
        if line.trim().is_empty() {
            continue;
        }
        let v: Value = match serde_json::from_str(&line) {
            Ok(v) => v,
            Err(_) => continue,
        };
        let len = v["len"].as_u64().unwrap_or(0) as usize;
        let cap = v["cap"].as_u64().unwrap_or(0) as usize;
        let maxcap = v["maxcap"].as_u64().unwrap_or(0) as usize;
        let name = v["op"]["name"].as_str().unwrap_or("").to_string();
        let arg = v["op"]["arg"].clone();
        let r = std::panic::catch_unwind(std::panic::AssertUnwindSafe(|| {
            GROW_FAIL.set(0);
            if cap == 0 {
                return json!({"skipped": "empty heap (real initial capacity differs from the model's)"});
            }
            let mut h = match HeapProbe::with_cell_capacity(cap / 8) {
                Some(h) => h,
                None => return json!({"skipped": "alloc"}),
            };
            if name == "copy_pstr_within" {
                let l = arg.as_u64().unwrap_or(0) as usize;
                let s: String = std::iter::repeat('a').take(l).collect();
                if !h.allocate_pstr(&s) || h.byte_len() > len || h.cap_and_guard().0 != cap {
                    return json!({"skipped": "source string does not fit below len"});
                }
            }
            while h.byte_len() < len {
                if !h.push_cell() {
                    return json!({"skipped": "fill"});
                }
            }
            if h.byte_len() != len || h.cap_and_guard().0 != cap {
                return json!({"skipped": "fill mismatch"});
            }
            // growth beyond maxcap must fail: allow exactly the doublings that stay within maxcap
            let mut allowed = 0i64;
            let mut c = cap;
            while c * 2 <= maxcap {
                c *= 2;
                allowed += 1;
            }
            GROW_FAIL.set(allowed + 1);
            let ok = match name.as_str() {
                "push_cell" => h.push_cell(),
                "reserve_write" => {
                    let n = arg[0].as_u64().unwrap_or(0) as usize;
                    let k = arg[1].as_u64().unwrap_or(0) as usize;
                    h.reserve_and_write(n, k)
                }
                "allocate_pstr" => h.allocate_pstr(&str_of(&arg)),
                "allocate_cstr" => h.allocate_cstr(&str_of(&arg)),
                "append" => h.append_cells(arg.as_u64().unwrap_or(0) as usize),
                "copy_slice_to_end" => {
                    let m = arg.as_u64().unwrap_or(0) as usize;
                    if m * 8 > len {
                        GROW_FAIL.set(0);
                        return json!({"skipped": "slice longer than heap"});
                    }
                    h.copy_slice_to_end(0, m)
                }
                "copy_pstr_within" => h.copy_pstr_within(0).is_some(),
                "truncate" => {
                    h.truncate(arg.as_u64().unwrap_or(0) as usize);
                    true
                }
                _ => {
                    GROW_FAIL.set(0);
                    return json!({"skipped": "unknown op"});
                }
            };
            GROW_FAIL.set(0);
            let (c2, guard) = h.cap_and_guard();
            let mut res = json!({"ok": ok, "len": h.byte_len(), "cap": c2, "guard": guard});
            if name == "copy_pstr_within" && ok {
                // the copy must read back as the same string
                let l = arg.as_u64().unwrap_or(0) as usize;
                res["copy_ok"] = json!(h.read_pstr(len).len() == l);
            }
            res
        }));
        let res = match r {
            Ok(v) => v,
            Err(_) => {
                GROW_FAIL.set(0);
                json!({"panic": crate::take_panic()})
            }
        };
        let _ = writeln!(out, "{}", res);
    }
    let _ = out.flush();
}


/// C32: N real threads intern overlapping sets of texts in the process-wide atom table, with random
/// yields at every step of build_with; step events are recorded.
/// input: {"threads": [[text,..],..], "seed": n, "sleep_us": n, "init_size": bytes}
fn atoms() {
    use scryer_prolog::verif as v;
    use std::io::{BufRead, Write};
    let mut out = crate::protocol_out();
    let stdin = std::io::stdin();
    for line in stdin.lock().lines() {
        let line = match line {
            Ok(l) => l,
            Err(_) => break,
        };
        if line.trim().is_empty() {
            continue;
        }
        let sc: Value = match serde_json::from_str(&line) {
            Ok(v) => v,
            Err(_) => continue,
        };
        let threads: Vec<Vec<String>> = sc["threads"]
            .as_array()
            .map(|a| {
                a.iter()
                    .map(|t| {
                        t.as_array()
                            .map(|x| x.iter().filter_map(|s| s.as_str().map(|s| s.to_string())).collect())
                            .unwrap_or_default()
                    })
                    .collect()
            })
            .unwrap_or_default();
        let seed = sc["seed"].as_u64().unwrap_or(1);
        let sleep_us = sc["sleep_us"].as_u64().unwrap_or(50);
        let init_size = sc["init_size"].as_u64().unwrap_or(0) as usize;
        v::atom_table_release();
        v::set_atom_table_init_size(init_size);
        v::atom_table_hold();
        v::set_atom_trace(Some("sv"));
        v::set_yield(Some(Box::new(move |tid, _step| {
            // cheap per-call pseudo random decision from a thread-local xorshift
            thread_local! { static RNG: std::cell::Cell<u64> = const { std::cell::Cell::new(0) }; }
            let r = RNG.with(|c| {
                let mut x = c.get();
                if x == 0 {
                    x = seed.wrapping_mul(0x9E3779B97F4A7C15) ^ ((tid as u64 + 1) << 32) | 1;
                }
                x ^= x << 13;
                x ^= x >> 7;
                x ^= x << 17;
                c.set(x);
                x
            });
            match r % 4 {
                0 => std::thread::yield_now(),
                1 => std::thread::sleep(std::time::Duration::from_micros(r % (sleep_us + 1))),
                _ => {}
            }
        })));
        let _ = v::drain();
        v::arm(true);
        let barrier = std::sync::Arc::new(std::sync::Barrier::new(threads.len().max(1)));
        let mut handles = Vec::new();
        for (i, texts) in threads.iter().enumerate() {
            let texts = texts.clone();
            let b = barrier.clone();
            handles.push(std::thread::spawn(move || {
                v::set_tid(i as u32 + 1);
                b.wait();
                let mut res = Vec::new();
                for t in texts.iter() {
                    let r = std::panic::catch_unwind(|| v::intern(t));
                    match r {
                        Ok((idx, back)) => res.push(json!({"text": t, "atom": idx, "back": back})),
                        Err(_) => res.push(json!({"text": t, "panic": true})),
                    }
                }
                res
            }));
        }
        let mut results = Vec::new();
        for h in handles {
            match h.join() {
                Ok(r) => results.push(json!(r)),
                Err(_) => results.push(json!({"panic": true})),
            }
        }
        v::arm(false);
        v::set_yield(None);
        v::set_atom_trace(None);
        let evs: Vec<Value> = v::drain()
            .iter()
            .map(|s| serde_json::from_str(s).unwrap_or(json!({"bad": s})))
            .collect();
        // read every atom's text back once more, after all growth happened
        let mut later = Vec::new();
        for r in results.iter() {
            if let Some(a) = r.as_array() {
                for x in a {
                    if let Some(idx) = x["atom"].as_u64() {
                        let t = std::panic::catch_unwind(|| v::atom_text(idx)).unwrap_or_else(|_| "<panic>".into());
                        later.push(json!({"atom": idx, "text": t}));
                    }
                }
            }
        }
        let _ = writeln!(out, "{}", json!({"results": results, "events": evs, "later": later}));
    }
    v::atom_table_release();
    let _ = out.flush();
}

struct Chunked {
    chunks: std::collections::VecDeque<Vec<u8>>,
}

impl std::io::Read for Chunked {
    fn read(&mut self, buf: &mut [u8]) -> std::io::Result<usize> {
        loop {
            match self.chunks.front_mut() {
                None => return Ok(0),
                Some(c) if c.is_empty() => {
                    self.chunks.pop_front();
                    continue;
                }
                Some(c) => {
                    let n = c.len().min(buf.len());
                    buf[..n].copy_from_slice(&c[..n]);
                    c.drain(..n);
                    if c.is_empty() {
                        self.chunks.pop_front();
                    }
                    return Ok(n);
                }
            }
        }
    }
}

/// C18: drive the real CharReader over a byte source delivered in the given chunks.
/// input: {"chunks": [[b,..],..], "ops": ["read" | "peek" | "putback:<cp>" | "consume:<n>" | "readbytes:<n>"]}
fn charreader() {
    use std::io::{BufRead, Write};
    let mut out = crate::protocol_out();
    let stdin = std::io::stdin();
    for line in stdin.lock().lines() {
        let line = match line {
            Ok(l) => l,
            Err(_) => break,
        };
        if line.trim().is_empty() {
            continue;
        }
        let sc: Value = match serde_json::from_str(&line) {
            Ok(v) => v,
            Err(_) => continue,
        };
        let chunks: std::collections::VecDeque<Vec<u8>> = sc["chunks"]
            .as_array()
            .map(|a| {
                a.iter()
                    .map(|c| {
                        c.as_array()
                            .map(|x| x.iter().map(|b| b.as_u64().unwrap_or(0) as u8).collect())
                            .unwrap_or_default()
                    })
                    .collect()
            })
            .unwrap_or_default();
        let ops: Vec<String> = sc["ops"]
            .as_array()
            .map(|a| a.iter().filter_map(|s| s.as_str().map(|s| s.to_string())).collect())
            .unwrap_or_default();
        let mut rdr = scryer_prolog::verif::CharReaderProbe::new(Box::new(Chunked { chunks }));
        let mut res: Vec<Value> = Vec::new();
        for op in ops.iter() {
            let r = std::panic::catch_unwind(std::panic::AssertUnwindSafe(|| {
                let conv = |x: Option<std::io::Result<char>>| match x {
                    None => json!({"eof": true}),
                    Some(Ok(c)) => json!({"c": c as u32}),
                    Some(Err(e)) => json!({"err": format!("{}", e)}),
                };
                if op == "read" {
                    conv(rdr.read_char())
                } else if op == "peek" {
                    conv(rdr.peek_char())
                } else if let Some(cp) = op.strip_prefix("putback:") {
                    let c = char::from_u32(cp.parse::<u32>().unwrap_or(97)).unwrap_or('a');
                    rdr.put_back_char(c);
                    json!({"ok": true})
                } else if let Some(n) = op.strip_prefix("consume:") {
                    rdr.consume(n.parse::<usize>().unwrap_or(0));
                    json!({"ok": true})
                } else if let Some(n) = op.strip_prefix("readbytes:") {
                    let mut buf = vec![0u8; n.parse::<usize>().unwrap_or(0)];
                    match rdr.read_bytes(&mut buf) {
                        Ok(k) => json!({"bytes": buf[..k].to_vec()}),
                        Err(e) => json!({"err": format!("{}", e)}),
                    }
                } else {
                    json!({"error": "unknown op"})
                }
            }));
            match r {
                Ok(v) => res.push(v),
                Err(_) => {
                    res.push(json!({"panic": crate::take_panic()}));
                    break;
                }
            }
        }
        let _ = writeln!(out, "{}", json!({"res": res}));
    }
    let _ = out.flush();
}
