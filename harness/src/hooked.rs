// Hook-dependent harness parts (feature "hooks" => scryer-prolog/verif-hooks).
use serde_json::{json, Value};

use crate::Session;

/// extra job steps available with hooks
pub fn step(sess: &mut Option<Session>, st: &Value) -> Option<Value> {
    let _ = sess;
    if st.get("arm").is_some() {
        let on = st.get("arm").and_then(|v| v.as_bool()).unwrap_or(false);
        scryer_prolog::verif::arm(on);
        return Some(json!({"ok": true}));
    }
    if st.get("drain").is_some() {
        let evs = scryer_prolog::verif::drain();
        let evs: Vec<Value> = evs
            .iter()
            .map(|s| serde_json::from_str(s).unwrap_or(json!({"bad": s})))
            .collect();
        return Some(json!({"events": evs}));
    }
    None
}

/// extra subcommands available with hooks
pub fn command(cmd: &str, args: &[String]) -> bool {
    let _ = (cmd, args);
    false
}
