// sv-harness: conformance harness binding the TLA+ specification to the real scryer-prolog crate.
//
// Subcommands (first argument):
//   exec      read ndjson jobs on stdin, run them against real Machines, write ndjson results on stdout
//   (others are in their own modules, see below)
//
// A panic in the code under test is data: it is caught, reported in the result and the Machine is rebuilt.

use std::cell::RefCell;
use std::io::{BufRead, Read, Write};
use std::mem::ManuallyDrop;
use std::panic::{catch_unwind, AssertUnwindSafe};
use std::rc::Rc;

use scryer_prolog::{LeafAnswer, Machine, MachineBuilder, OutputStreamConfig, StreamConfig, Term};
use serde_json::{json, Value};

#[cfg(feature = "hooks")]
mod hooked;

thread_local! {
    static LAST_PANIC: RefCell<Option<String>> = const { RefCell::new(None) };
}

pub fn install_panic_hook() {
    std::panic::set_hook(Box::new(|info| {
        let loc = info
            .location()
            .map(|l| format!("{}:{}", l.file(), l.line()))
            .unwrap_or_else(|| "?".into());
        let msg = if let Some(s) = info.payload().downcast_ref::<&str>() {
            (*s).to_string()
        } else if let Some(s) = info.payload().downcast_ref::<String>() {
            s.clone()
        } else {
            "?".to_string()
        };
        let mut m = msg;
        if m.len() > 300 {
            m.truncate(300);
        }
        LAST_PANIC.with(|p| *p.borrow_mut() = Some(format!("{} @ {}", m, loc)));
    }));
}

pub fn take_panic() -> String {
    LAST_PANIC
        .with(|p| p.borrow_mut().take())
        .unwrap_or_else(|| "panic".into())
}

pub fn term_json(t: &Term) -> Value {
    match t {
        Term::Integer(i) => json!({"i": i.to_string()}),
        Term::Rational(r) => json!({"r": [r.numerator().to_string(), r.denominator().to_string()]}),
        Term::Float(f) => json!({"f": format!("{:016x}", f.to_bits()), "d": format!("{:?}", f)}),
        Term::Atom(a) => json!({"a": a}),
        Term::String(s) => json!({"s": s}),
        Term::List(l) => json!({"l": l.iter().map(term_json).collect::<Vec<_>>()}),
        Term::Compound(f, args) => {
            json!({"c": f, "args": args.iter().map(term_json).collect::<Vec<_>>()})
        }
        Term::Var(v) => json!({"v": v}),
        _ => json!({"unknown": format!("{:?}", t)}),
    }
}

pub struct Session {
    pub machine: Machine,
    pub out: Rc<RefCell<Vec<u8>>>,
    pub dirty: bool,
}

impl Session {
    pub fn new() -> Session {
        #[cfg(feature = "hooks")]
        {
            // a fresh Machine is never built under an armed injector
            use std::sync::atomic::Ordering;
            scryer_prolog::verif::VIRT_LIMIT.store(0, Ordering::SeqCst);
            scryer_prolog::verif::GROW_FAIL.set(0);
            scryer_prolog::verif::INSTR.set(0);
            scryer_prolog::verif::clear_interrupt();
        }
        let out = Rc::new(RefCell::new(Vec::new()));
        let streams = StreamConfig::in_memory().with_user_output(OutputStreamConfig::callback(
            Box::new({
                let out = out.clone();
                move |x| {
                    let mut buf = Vec::new();
                    let _ = x.read_to_end(&mut buf);
                    out.borrow_mut().extend_from_slice(&buf);
                }
            }),
        ));
        let machine = MachineBuilder::default().with_streams(streams).build();
        Session {
            machine,
            out,
            dirty: false,
        }
    }

    pub fn take_out(&self) -> String {
        let v = std::mem::take(&mut *self.out.borrow_mut());
        String::from_utf8_lossy(&v).into_owned()
    }

    /// run one query with a watchdog: after `tmo_ms` the interrupt flag is raised (hooks build only), which
    /// ends a runaway query with the interrupt ball; the result is marked "tmo": true.
    pub fn query_tmo(&mut self, q: &str, max: usize, tmo_ms: u64) -> Value {
        #[cfg(feature = "hooks")]
        {
            use std::sync::atomic::{AtomicBool, Ordering};
            use std::sync::Arc;
            let done = Arc::new(AtomicBool::new(false));
            let fired = Arc::new(AtomicBool::new(false));
            let (d2, f2) = (done.clone(), fired.clone());
            let h = std::thread::spawn(move || {
                let t0 = std::time::Instant::now();
                while !d2.load(Ordering::Relaxed) {
                    if t0.elapsed().as_millis() as u64 >= tmo_ms {
                        f2.store(true, Ordering::SeqCst);
                        scryer_prolog::verif::raise_interrupt();
                        // keep raising: nested dispatch loops may swallow one request
                        std::thread::sleep(std::time::Duration::from_millis(50));
                        continue;
                    }
                    std::thread::sleep(std::time::Duration::from_millis(5));
                }
            });
            let mut r = self.query(q, max);
            done.store(true, Ordering::SeqCst);
            let _ = h.join();
            scryer_prolog::verif::clear_interrupt();
            if fired.load(Ordering::SeqCst) {
                r["tmo"] = json!(true);
                self.dirty = true;
            }
            return r;
        }
        #[cfg(not(feature = "hooks"))]
        {
            let _ = tmo_ms;
            self.query(q, max)
        }
    }

    /// run one query, collecting at most `max` answers.
    pub fn query(&mut self, q: &str, max: usize) -> Value {
        let machine = &mut self.machine;
        let r = catch_unwind(AssertUnwindSafe(|| {
            let mut qs = ManuallyDrop::new(machine.run_query(q.to_string()));
            let mut out: Vec<Value> = Vec::new();
            let mut capped = false;
            let mut exc = false;
            loop {
                if out.len() >= max {
                    capped = true;
                    break;
                }
                match qs.next() {
                    None => break,
                    Some(Ok(LeafAnswer::True)) => out.push(json!("T")),
                    Some(Ok(LeafAnswer::False)) => out.push(json!("F")),
                    Some(Ok(LeafAnswer::Exception(t))) => {
                        exc = true;
                        out.push(json!({"x": term_json(&t)}))
                    }
                    Some(Ok(LeafAnswer::LeafAnswer { bindings, .. })) => {
                        let mut m = serde_json::Map::new();
                        for (k, v) in bindings.iter() {
                            m.insert(k.clone(), term_json(v));
                        }
                        out.push(json!({"b": Value::Object(m)}))
                    }
                    Some(Err(t)) => {
                        exc = true;
                        out.push(json!({"e": term_json(&t)}))
                    }
                }
            }
            drop(ManuallyDrop::into_inner(qs));
            (out, capped, exc)
        }));
        match r {
            Ok((a, capped, exc)) => {
                if exc {
                    self.dirty = true;
                }
                json!({"a": a, "capped": capped, "out": self.take_out()})
            }
            Err(_) => {
                self.dirty = true;
                json!({"panic": take_panic(), "out": self.take_out()})
            }
        }
    }
}

fn run_job(sess: &mut Option<Session>, job: &Value) -> Value {
    let id = job.get("id").cloned().unwrap_or(Value::Null);
    let fresh = job.get("fresh").and_then(|v| v.as_bool()).unwrap_or(false);
    let keep = job.get("keep").and_then(|v| v.as_bool()).unwrap_or(false);
    if fresh || sess.is_none() || (sess.as_ref().unwrap().dirty && !keep) {
        *sess = None;
        *sess = Some(Session::new());
    }
    let mut res: Vec<Value> = Vec::new();
    let steps = job.get("steps").and_then(|v| v.as_array()).cloned().unwrap_or_default();
    let t0 = std::time::Instant::now();
    for st in steps.iter() {
        if sess.is_none() {
            *sess = Some(Session::new());
        }
        let s = sess.as_mut().unwrap();
        if let Some(text) = st.get("consult").and_then(|v| v.as_str()) {
            let module = st.get("module").and_then(|v| v.as_str()).unwrap_or("user");
            let m = &mut s.machine;
            let r = catch_unwind(AssertUnwindSafe(|| {
                m.consult_module_string(module, text.to_string());
            }));
            match r {
                Ok(()) => res.push(json!({"ok": true, "out": s.take_out()})),
                Err(_) => {
                    res.push(json!({"panic": take_panic()}));
                    *sess = None;
                }
            }
        } else if let Some(text) = st.get("load").and_then(|v| v.as_str()) {
            let module = st.get("module").and_then(|v| v.as_str()).unwrap_or("user");
            let m = &mut s.machine;
            let r = catch_unwind(AssertUnwindSafe(|| {
                m.load_module_string(module, text.to_string());
            }));
            match r {
                Ok(()) => res.push(json!({"ok": true, "out": s.take_out()})),
                Err(_) => {
                    res.push(json!({"panic": take_panic()}));
                    *sess = None;
                }
            }
        } else if let Some(q) = st.get("q").and_then(|v| v.as_str()) {
            let max = st.get("max").and_then(|v| v.as_u64()).unwrap_or(64) as usize;
            let r = match st.get("tmo_ms").and_then(|v| v.as_u64()) {
                Some(t) => s.query_tmo(q, max, t),
                None => s.query(q, max),
            };
            let panicked = r.get("panic").is_some() || r.get("tmo").is_some();
            res.push(r);
            if panicked {
                *sess = None;
            }
        } else if st.get("new").is_some() {
            *sess = None;
            *sess = Some(Session::new());
            res.push(json!({"ok": true}));
        } else if st.get("infer").is_some() {
            let n = s.machine.get_inference_count();
            res.push(json!({"infer": n}));
        } else {
            #[cfg(feature = "hooks")]
            {
                if let Some(v) = hooked::step(sess, st) {
                    res.push(v);
                    continue;
                }
            }
            res.push(json!({"error": "unknown step"}));
        }
    }
    json!({"id": id, "res": res, "us": t0.elapsed().as_micros() as u64})
}

/// The code under test prints warnings straight to the process's stdout (println!).
/// Keep the protocol channel private: duplicate fd 1, then point fd 1 at /dev/null.
pub fn protocol_out() -> std::fs::File {
    use std::os::unix::io::FromRawFd;
    unsafe {
        let fd = libc::dup(1);
        let devnull = libc::open(b"/dev/null\0".as_ptr() as *const libc::c_char, libc::O_WRONLY);
        if devnull >= 0 {
            libc::dup2(devnull, 1);
            libc::close(devnull);
        }
        std::fs::File::from_raw_fd(fd)
    }
}

fn cmd_exec() {
    let stdin = std::io::stdin();
    let mut stdout = protocol_out();
    let mut sess: Option<Session> = None;
    for line in stdin.lock().lines() {
        let line = match line {
            Ok(l) => l,
            Err(_) => break,
        };
        if line.trim().is_empty() {
            continue;
        }
        let job: Value = match serde_json::from_str(&line) {
            Ok(v) => v,
            Err(e) => {
                let _ = writeln!(stdout, "{}", json!({"id": null, "error": format!("bad job: {}", e)}));
                continue;
            }
        };
        let r = run_job(&mut sess, &job);
        let _ = writeln!(stdout, "{}", r);
        let _ = stdout.flush();
    }
}

fn main() {
    install_panic_hook();
    let args: Vec<String> = std::env::args().collect();
    let cmd = args.get(1).map(|s| s.as_str()).unwrap_or("");
    match cmd {
        "exec" => cmd_exec(),
        "version" => println!("sv-harness 0.1 hooks={}", cfg!(feature = "hooks")),
        _ => {
            #[cfg(feature = "hooks")]
            {
                if hooked::command(cmd, &args[2..]) {
                    return;
                }
            }
            eprintln!("unknown command {:?}", cmd);
            std::process::exit(2);
        }
    }
}
