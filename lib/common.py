"""Shared plumbing for the /verif checks: paths, harness build, TLC runner, job supervisor,
evidence writer, known-findings matcher, violation reporting.

Exit codes of ./check: 0 held (possibly KNOWN-FINDING lines), 1 VIOLATION, 2 tool error."""
import fcntl
import hashlib
import json
import os
import re
import resource
import shutil
import subprocess
import sys
import time

VERIF = os.path.dirname(os.path.dirname(os.path.abspath(__file__)))
REPO = os.environ.get("VERIF_REPO", "/repo")
SPEC = os.path.join(VERIF, "spec")
WORK = os.path.join(VERIF, "work")
EVID = os.path.join(VERIF, "evidence")
REPLAYS = os.path.join(EVID, "replays")
HARNESS = os.path.join(VERIF, "harness")
JAR = "/opt/veriftools/tla/tla2tools.jar:/opt/veriftools/tla/CommunityModules-deps.jar"


class ToolError(Exception):
    pass


def seed():
    try:
        return int(os.environ.get("VERIF_SEED", "1"))
    except ValueError:
        return 1


def ensure_dirs():
    for d in (WORK, EVID, REPLAYS):
        os.makedirs(d, exist_ok=True)


# --------------------------------------------------------------------------------------------
# harness build
# --------------------------------------------------------------------------------------------

_built = {}


def build_harness(hooks=True, quiet=True):
    """Build the harness against the current /repo working tree (cargo is incremental).
    Returns (binary path, degraded flag). If the hook build fails but the hook-free build works,
    returns the hook-free binary with degraded=True."""
    key = "hooks" if hooks else "nohooks"
    if key in _built:
        return _built[key]
    ensure_dirs()
    lock = open(os.path.join(WORK, ".cargo.lock"), "w")
    fcntl.flock(lock, fcntl.LOCK_EX)
    try:
        # keep Cargo.lock in sync with the repo (offline resolution needs it)
        src_lock = os.path.join(REPO, "Cargo.lock")
        dst_lock = os.path.join(HARNESS, "Cargo.lock")
        if os.path.exists(src_lock) and not os.path.exists(dst_lock):
            shutil.copy(src_lock, dst_lock)
        env = dict(os.environ)
        env["CARGO_NET_OFFLINE"] = "true"

        def cargo(args, target):
            cmd = ["cargo", "build", "--offline", "--manifest-path",
                   os.path.join(HARNESS, "Cargo.toml"), "--target-dir", os.path.join(HARNESS, target)] + args
            return subprocess.run(cmd, cwd=HARNESS, env=env, stdout=subprocess.PIPE,
                                  stderr=subprocess.STDOUT, text=True, timeout=3600)

        if hooks:
            r = cargo([], "target")
            if r.returncode != 0 and ("undefined hidden symbol" in r.stdout or "linking with" in r.stdout):
                # incremental artefacts of the path dependency went stale (seen after rapid successive edits of /repo):
                # rebuild the two crates from scratch once before giving up on the hook build
                subprocess.run(["cargo", "clean", "--offline", "--manifest-path", os.path.join(HARNESS, "Cargo.toml"),
                                "--target-dir", os.path.join(HARNESS, "target"), "-p", "scryer-prolog", "-p", "sv-harness"],
                               cwd=HARNESS, env=env, stdout=subprocess.PIPE, stderr=subprocess.STDOUT, text=True, timeout=600)
                r = cargo([], "target")
            if r.returncode == 0:
                _built[key] = (os.path.join(HARNESS, "target", "debug", "sv-harness"), False)
                return _built[key]
            sys.stderr.write("harness build with hooks failed; trying hook-free (degraded) build\n")
            sys.stderr.write(r.stdout[-3000:] + "\n")
        r = cargo(["--no-default-features"], "target-nohooks")
        if r.returncode != 0:
            sys.stderr.write(r.stdout[-6000:] + "\n")
            raise ToolError("cargo build of the harness failed (the repository tree does not compile?)")
        _built[key] = (os.path.join(HARNESS, "target-nohooks", "debug", "sv-harness"), hooks)
        return _built[key]
    finally:
        fcntl.flock(lock, fcntl.LOCK_UN)
        lock.close()


# --------------------------------------------------------------------------------------------
# TLC
# --------------------------------------------------------------------------------------------

class TlcResult:
    def __init__(self):
        self.rc = None
        self.out = ""
        self.generated = 0
        self.distinct = 0
        self.depth = 0
        self.violated = None   # name of violated invariant / property, if any
        self.error = None      # tool-level error text
        self.lines = []
        self.wall = 0.0
        self.cmd = ""
        self.coverage_zero = []

    def printed(self):
        """JSON values printed by PrintT(ToJson(x)): lines that are a TLA+ string literal holding JSON."""
        res = []
        for ln in self.lines:
            if len(ln) > 2 and ln[0] == '"' and ln[-1] == '"' and ln[1] in "{[":
                try:
                    inner = json.loads(ln)
                    res.append(json.loads(inner))
                except Exception:
                    pass
        return res


def run_tlc(module, cfg=None, workers=8, timeout=600, simulate=None, depth=None, env_extra=None,
            coverage=False, xss="512m", xmx="8g", deadlock=False, tag=None, dfs=False, seedval=None,
            extra=None):
    """Run TLC on spec/<module>.tla with spec/<cfg>. Returns TlcResult. Raises ToolError on tool failures
    (parse errors, timeouts, TLC crashes); invariant violations are reported in result.violated."""
    ensure_dirs()
    cfg = cfg or (module + ".cfg")
    tag = tag or (module + "-" + os.path.splitext(os.path.basename(cfg))[0])
    meta = os.path.join(WORK, "tlc", tag + "-" + str(os.getpid()))
    shutil.rmtree(meta, ignore_errors=True)
    os.makedirs(meta, exist_ok=True)
    jopts = "-Xss%s" % xss
    if dfs:
        jopts += " -Dtlc2.tool.queue.IStateQueue=StateDeque"
    cmd = ["java", "-XX:+UseParallelGC", "-Xmx" + xmx, "-Xss" + xss]
    if dfs:
        cmd.append("-Dtlc2.tool.queue.IStateQueue=StateDeque")
    cmd += ["-cp", JAR, "tlc2.TLC", "-workers", str(workers), "-metadir", meta, "-cleanup",
            "-noGenerateSpecTE", "-config", cfg]
    if not deadlock:
        cmd.append("-deadlock")  # -deadlock switches deadlock checking OFF
    if coverage:
        cmd += ["-coverage", "1"]
    if simulate is not None:
        cmd += ["-simulate", "num=%d" % simulate]
        if depth:
            cmd += ["-depth", str(depth)]
        cmd += ["-seed", str(seedval if seedval is not None else seed())]
    if extra:
        cmd += extra
    cmd.append(module + ".tla")
    env = dict(os.environ)
    env.pop("JAVA_TOOL_OPTIONS", None)
    if env_extra:
        env.update({k: str(v) for k, v in env_extra.items()})
    res = TlcResult()
    res.cmd = " ".join(cmd)
    t0 = time.time()
    timeout = timeout * load_scale()
    proc = subprocess.Popen(cmd, cwd=SPEC, env=env, stdout=subprocess.PIPE, stderr=subprocess.STDOUT, text=True)
    res.timed_out = False
    try:
        out, _ = proc.communicate(timeout=timeout)
        rc = proc.returncode
    except subprocess.TimeoutExpired:
        proc.kill()
        out, _ = proc.communicate()
        shutil.rmtree(meta, ignore_errors=True)
        if simulate is None:
            raise ToolError("TLC timeout after %ss: %s" % (timeout, res.cmd))
        # a simulation is a time-boxed exploration: the behaviours generated until the limit count, the run is not an error
        # (the last line may be cut off)
        out = out[:out.rfind("\n") + 1] if out else ""
        rc = 0
        res.timed_out = True
    res.wall = time.time() - t0
    shutil.rmtree(meta, ignore_errors=True)
    res.rc = rc
    res.out = out
    res.lines = out.splitlines()
    for ln in res.lines:
        m = re.match(r"^(\d+) states generated, (\d+) distinct states found", ln)
        if m:
            res.generated = int(m.group(1))
            res.distinct = int(m.group(2))
        m = re.match(r"^The depth of the complete state graph search is (\d+)", ln)
        if m:
            res.depth = int(m.group(1))
        m = re.match(r"^Error: Invariant (\S+) is violated", ln)
        if m:
            res.violated = m.group(1)
        m = re.match(r"^Error: Action property (\S+) is violated", ln)
        if m:
            res.violated = m.group(1)
        if ln.startswith("Error: Temporal properties were violated"):
            res.violated = "temporal"
        m = re.match(r"^Error: The postcondition (\S*) ?is violated|^Error: Postcondition", ln)
        if m:
            res.violated = "postcondition"
    if simulate is not None and res.generated == 0:
        # simulation mode prints a different summary
        for ln in res.lines:
            m = re.match(r"^The number of states generated: (\d+)", ln)
            if m:
                res.generated = int(m.group(1))
                res.distinct = res.distinct or int(m.group(1))
    if res.timed_out and res.generated == 0:
        res.generated = res.distinct = sum(1 for ln in res.lines if ln.startswith('"'))
    if coverage:
        for ln in res.lines:
            m = re.match(r"^<(\w+) line \d+, col \d+ to line \d+, col \d+ of module (\w+)>: (\d+):(\d+)", ln)
            if m and int(m.group(3)) == 0 and int(m.group(4)) == 0:
                res.coverage_zero.append(m.group(1))
    if res.violated is None and res.rc not in (0,):
        # rc 12 = safety violation, 13 liveness; others are tool errors
        errs = [l for l in res.lines if l.startswith("Error") or "Exception" in l or "***" in l]
        if any("Assumption" in l and "is false" in l for l in res.lines):
            res.error = "assumption false"
        res.error = res.error or ("TLC rc=%s: %s" % (res.rc, " | ".join(errs[:6])))
    return res


def tlc_ok(res, what=""):
    """Raise ToolError unless the TLC run finished cleanly without violation."""
    if res.error:
        tail = "\n".join(res.lines[-40:])
        raise ToolError("TLC failed %s: %s\n%s" % (what, res.error, tail))
    if res.violated:
        tail = "\n".join(res.lines[-60:])
        raise ToolError("TLC reports %s violated in %s (specification-level failure)\n%s" % (res.violated, what, tail))
    return res


# --------------------------------------------------------------------------------------------
# job supervisor
# --------------------------------------------------------------------------------------------

def load_scale():
    """time-outs are sized for an idle 16-core box; stretch them when the machine is oversubscribed"""
    try:
        return max(1.0, os.getloadavg()[0] / float(os.cpu_count() or 16))
    except Exception:
        return 1.0


def scaled_ms(ms):
    return int(ms * load_scale())


def _limits(mem_gb):
    def f():
        try:
            resource.setrlimit(resource.RLIMIT_AS, (int(mem_gb * (1 << 30)), int(mem_gb * (1 << 30))))
        except Exception:
            pass
        os.setsid()
        try:
            # a worker must not outlive the driver (a query that never ends would spin for ever once nobody watches it)
            import ctypes
            ctypes.CDLL("libc.so.6", use_errno=True).prctl(1, 9, 0, 0, 0)      # PR_SET_PDEATHSIG, SIGKILL
        except Exception:
            pass
    return f


def run_jobs(jobs, workers=8, job_timeout=20.0, mem_gb=6, hooks=True, subcmd="exec", binary=None):
    """Run jobs (list of dicts with unique 'id') through `sv-harness exec` worker processes.
    Returns dict id -> result. A job whose worker dies or stalls gets {"id":..,"crash": reason}."""
    if binary is None:
        binary, _ = build_harness(hooks)
    jobs = list(jobs)
    results = {}
    if not jobs:
        return results
    workers = max(1, min(workers, len(jobs)))
    scale = load_scale()
    job_timeout = job_timeout * scale
    if scale > 1.0:
        jobs = [dict(j, timeout=j["timeout"] * scale) if "timeout" in j else j for j in jobs]
        for j in jobs:      # the in-process watchdog of individual queries
            for st in j.get("steps", []):
                if isinstance(st, dict) and "tmo_ms" in st and not st.get("_sc"):
                    st["tmo_ms"] = int(st["tmo_ms"] * scale)
                    st["_sc"] = True
    shards = [jobs[i::workers] for i in range(workers)]
    import threading

    def serve(shard):
        idx = 0
        while idx < len(shard):
            p = subprocess.Popen([binary, subcmd], stdin=subprocess.PIPE, stdout=subprocess.PIPE,
                                 stderr=subprocess.DEVNULL, text=True, preexec_fn=_limits(mem_gb), bufsize=1)
            try:
                while idx < len(shard):
                    job = shard[idx]
                    try:
                        p.stdin.write(json.dumps(job) + "\n")
                        p.stdin.flush()
                    except Exception:
                        results[job["id"]] = {"id": job["id"], "crash": "worker died before job (rc=%s)" % p.poll()}
                        idx += 1
                        break
                    line = _readline_timeout(p, job.get("timeout", job_timeout))
                    if line is None:
                        rc = p.poll()
                        try:
                            os.killpg(p.pid, 9)
                        except Exception:
                            pass
                        p.wait()
                        reason = "timeout" if rc is None else "died rc=%s" % rc
                        results[job["id"]] = {"id": job["id"], "crash": reason}
                        idx += 1
                        break
                    try:
                        r = json.loads(line)
                    except Exception:
                        r = {"id": job["id"], "crash": "bad output: " + line[:200]}
                    results[job["id"]] = r
                    idx += 1
            finally:
                try:
                    p.stdin.close()
                except Exception:
                    pass
                try:
                    if p.poll() is None:
                        try:
                            p.wait(timeout=5)
                        except Exception:
                            os.killpg(p.pid, 9)
                            p.wait()
                except Exception:
                    pass

    ths = [threading.Thread(target=serve, args=(s,)) for s in shards]
    for t in ths:
        t.start()
    for t in ths:
        t.join()
    return results


def _readline_timeout(p, timeout):
    import select
    fd = p.stdout.fileno()
    deadline = time.time() + timeout
    buf = getattr(p, "_svbuf", b"")
    while True:
        if b"\n" in buf:
            line, _, rest = buf.partition(b"\n")
            p._svbuf = rest
            return line.decode("utf-8", "replace")
        remaining = deadline - time.time()
        if remaining <= 0:
            p._svbuf = buf
            return None
        r, _, _ = select.select([fd], [], [], min(remaining, 1.0))
        if r:
            chunk = os.read(fd, 1 << 16)
            if not chunk:
                p._svbuf = buf
                return None
            buf += chunk
        elif p.poll() is not None:
            # process ended; drain
            chunk = os.read(fd, 1 << 16)
            if chunk:
                buf += chunk
                continue
            p._svbuf = buf
            return None


# --------------------------------------------------------------------------------------------
# results: violations, known findings, evidence
# --------------------------------------------------------------------------------------------

def load_known():
    """known_findings.json plus per-property fragments known/<id>.json (same format)"""
    import glob
    out = {"findings": [], "fixed": []}
    paths = [os.path.join(VERIF, "known_findings.json")] + sorted(glob.glob(os.path.join(VERIF, "known", "*.json")))
    for p in paths:
        if os.path.exists(p):
            with open(p) as f:
                d = json.load(f)
            out["findings"] += d.get("findings", [])
            out["fixed"] += d.get("fixed", [])
    return out


def simulate_parallel(module, cfg, procs=4, num=400, depth=400, timeout=1800, **kw):
    """several single-worker TLC simulations in parallel with distinct seeds (TLC's workers share one random stream
    for RandomElement, so one process per seed is what gives distinct behaviours). Returns list of TlcResult."""
    import threading
    out = [None] * procs
    errs = []

    def one(i):
        try:
            out[i] = run_tlc(module, cfg, workers=1, simulate=num, depth=depth, timeout=timeout,
                             seedval=seed() * 1000 + i, tag="%s-sim%d" % (module, i), xmx="3g", **kw)
        except Exception as e:  # noqa
            errs.append(e)
    ths = [threading.Thread(target=one, args=(i,)) for i in range(procs)]
    for t in ths:
        t.start()
    for t in ths:
        t.join()
    if errs:
        raise errs[0]
    return out


def generate(module, cfg, workers=8, timeout=1800, key=None, **kw):
    """Run TLC as a vector generator: returns (TlcResult, list of distinct printed JSON vectors)."""
    res = tlc_ok(run_tlc(module, cfg, workers=workers, timeout=timeout, **kw), module + "/" + cfg)
    seen = {}
    for v in res.printed():
        k = json.dumps(v, sort_keys=True) if key is None else key(v)
        seen.setdefault(k, v)
    return res, [seen[k] for k in sorted(seen)]


class Report:
    """Collects what one run of a check covered and found."""

    def __init__(self, prop, tier, level):
        self.prop = prop
        self.tier = tier
        self.level = level
        self.t0 = time.time()
        self.evaluations = 0
        self.classes = set()
        self.samples = []
        self.states = 0
        self.transitions = 0
        self.traces = 0
        self.violations = []      # (signature, detail dict)
        self.known_hits = {}
        self.assumptions = []
        self.extra = {}
        self.rule = ""
        self.exhaustive = False
        self.checker_cmds = []
        self.degraded = False
        self.known = [k for k in load_known().get("findings", []) if k.get("property") == prop]

    def add_tlc(self, res):
        self.states += res.distinct
        self.transitions += res.generated
        self.checker_cmds.append(re.sub(r"-metadir \S+", "-metadir work/..", res.cmd))

    def sample(self, x, cap=5):
        if len(self.samples) < cap:
            self.samples.append(x)

    def case(self, cls=None):
        self.evaluations += 1
        if cls is not None:
            self.classes.add(cls if isinstance(cls, (str, int, tuple)) else json.dumps(cls, sort_keys=True))

    def violation(self, signature, detail):
        """signature: short string identifying the failing input/site (matched against known findings)."""
        for k in self.known:
            pat = k.get("match")
            if pat and re.search(pat, signature):
                self.known_hits.setdefault(k.get("id", pat), [k, 0, signature])
                self.known_hits[k.get("id", pat)][1] += 1
                return False
        self.violations.append((signature, detail))
        return True

    def finish(self):
        ensure_dirs()
        for kid, (k, n, sig) in sorted(self.known_hits.items()):
            print("KNOWN-FINDING: property=%s %s (%d cases this run, e.g. %s)" % (
                self.prop, k.get("what", kid), n, sig[:160]))
        replay_path = None
        if self.violations:
            sig, detail = self.violations[0]
            h = hashlib.sha1((self.prop + sig).encode()).hexdigest()[:10]
            replay_path = os.path.join(REPLAYS, "%s-%s.json" % (self.prop, h))
            with open(replay_path, "w") as f:
                json.dump({"property": self.prop, "signature": sig, "detail": detail,
                           "all_signatures": [s for s, _ in self.violations[:2000]],
                           "seed": seed(), "tier": self.tier}, f, indent=1, default=str)
        cov = {
            "evaluations": self.evaluations,
            "distinct_nontrivial": len(self.classes),
            "rule": self.rule,
            "samples": self.samples[:5],
            "states": self.states,
            "transitions": self.transitions,
            "traces_validated_against_impl": self.traces,
            "exhaustive": self.exhaustive,
            "checker_cmd": " ; ".join(self.checker_cmds[:4]),
            "degraded": self.degraded,
            "known_findings_matched": sorted(self.known_hits.keys()),
        }
        cov.update(self.extra)
        ev = {
            "property_id": self.prop,
            "tier": self.tier,
            "seed": seed(),
            "level": self.level,
            "coverage": cov,
            "assumptions": self.assumptions,
            "wall_s": round(time.time() - self.t0, 2),
            "violations": len(self.violations),
        }
        with open(os.path.join(EVID, self.prop + ".json"), "w") as f:
            json.dump(ev, f, indent=1, default=str)
        if self.violations:
            for sig, _ in self.violations[:10]:
                print("  violation: %s" % sig[:300])
            print("VIOLATION property=%s replay=%s" % (self.prop, replay_path))
            return 1
        print("OK property=%s tier=%s evaluations=%d classes=%d states=%d traces=%d wall=%.1fs" % (
            self.prop, self.tier, self.evaluations, len(self.classes), self.states, self.traces,
            time.time() - self.t0))
        return 0
