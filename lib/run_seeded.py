#!/usr/bin/env python3
"""Apply a seeded change to /repo, run the given checks (quick tier) against it, undo the change, record the outcome.

usage: lib/run_seeded.py <seeded id> <Cnn> [<Cnn> ...]
/repo must be clean; the change is never committed there."""
import json
import os
import subprocess
import sys
import time

HERE = os.path.dirname(os.path.dirname(os.path.abspath(__file__)))


def sh(cmd, **kw):
    return subprocess.run(cmd, shell=True, stdout=subprocess.PIPE, stderr=subprocess.STDOUT, text=True, **kw)


def main():
    sid, props = sys.argv[1], sys.argv[2:]
    d = os.path.join(HERE, "seeded", sid)
    patch = os.path.join(d, "patch.diff")
    st = sh("git -C /repo status --porcelain --untracked-files=no").stdout.strip()
    if st:
        print("refusing: /repo has uncommitted changes:\n" + st)
        return 2
    r = sh("git -C /repo apply --whitespace=nowarn %s" % patch)
    if r.returncode != 0:
        print("patch does not apply:\n" + r.stdout)
        return 2
    results = {}
    try:
        for p in props:
            t0 = time.time()
            r = sh("cd %s && ./check %s --tier quick" % (HERE, p), timeout=7200)
            lines = [l for l in r.stdout.splitlines() if l.startswith(("VIOLATION", "OK ", "TOOL-ERROR", "KNOWN-FINDING"))]
            viol = [l for l in r.stdout.splitlines() if l.strip().startswith("violation:")][:3]
            results[p] = {"exit": r.returncode, "wall_s": round(time.time() - t0), "lines": [l[:300] for l in lines], "first_violations": [v[:400] for v in viol]}
            print(p, "exit", r.returncode, "|".join(l[:160] for l in lines if not l.startswith("KNOWN")))
    finally:
        sh("git -C /repo checkout -- .")
    mp = os.path.join(d, "meta.json")
    meta = json.load(open(mp)) if os.path.exists(mp) else {}
    runs = meta.setdefault("check_runs", {})
    runs.update(results)
    caught = sorted(p for p, r in runs.items() if r["exit"] == 1)
    missed = sorted(p for p, r in runs.items() if r["exit"] == 0)
    meta["caught_by"] = ", ".join(caught) if caught else ("missed by " + ", ".join(missed) if missed else "not run")
    json.dump(meta, open(mp, "w"), indent=1)
    return 0


if __name__ == "__main__":
    sys.exit(main())
