#!/usr/bin/env python3
"""Regenerate /verif/MANIFEST.json from the META dict of every props/Cnn.py.
Properties without a check are listed under not_applicable with the reason recorded in lib/not_applicable.json."""
import importlib
import json
import os
import subprocess
import sys

HERE = os.path.dirname(os.path.dirname(os.path.abspath(__file__)))
sys.path.insert(0, HERE)


def main():
    props = [json.loads(l) for l in open(os.path.join(HERE, "properties.jsonl")) if l.strip()]
    na_path = os.path.join(HERE, "lib", "not_applicable.json")
    na_reasons = json.load(open(na_path)) if os.path.exists(na_path) else {}
    checks, na = [], []
    for p in props:
        pid = p["id"]
        path = os.path.join(HERE, "props", pid + ".py")
        meta = None
        if os.path.exists(path) and pid not in na_reasons:
            mod = importlib.import_module("props." + pid)
            meta = getattr(mod, "META", None)
        LEVELS = ("exploration", "fault_enumeration", "model_checking", "proof", "translation_validation", "other")
        if meta is not None and (meta.get("level") not in LEVELS or not os.path.exists(os.path.join(HERE, "evidence", pid + ".json"))):
            sys.stderr.write("skipping %s for now: level=%r evidence present=%s\n" % (
                pid, meta.get("level"), os.path.exists(os.path.join(HERE, "evidence", pid + ".json"))))
            meta = None
        if meta is None:
            na.append({"property_id": pid,
                       "reason": na_reasons.get(pid, "check not built yet in this round (specification module planned in DESIGN.md section 8)")})
            continue
        c = {
            "property_id": pid,
            "quick_cmd": "./check %s --tier quick" % pid,
            "thorough_cmd": "./check %s --tier thorough" % pid,
            "evidence_file": "/verif/evidence/%s.json" % pid,
            "replay_cmd_template": "./check %s --replay {path}" % pid,
            "engine": meta.get("engine", "tlc+sv-harness"),
            "level_claimed": {"category": meta["level"], "text": meta["text"],
                              "design_ref": meta.get("design_ref", "DESIGN.md section 8, " + pid)},
            "level_note": meta["note"],
            "technique": meta.get("technique", "TLA+ specification checked/enumerated by TLC; behaviours replayed against the real crate"),
        }
        checks.append(c)
    try:
        commits = subprocess.run(["git", "-C", "/repo", "log", "--format=%h %s", "fe77dbb..HEAD"],
                                 stdout=subprocess.PIPE, text=True).stdout.splitlines()
    except Exception:
        commits = []
    hook_commits = [c.split()[0] for c in commits if c.split(" ", 1)[1].startswith("verif-hooks")]
    man = {
        "version": 1,
        "setup_cmd": "./setup.sh",
        "hooks": {
            "guard": "cargo feature verif-hooks (declared in /repo/Cargo.toml, off by default)",
            "enable": "the harness crate /verif/harness depends on /repo by path with features=[\"verif-hooks\"] (cargo build --offline in /verif/harness)",
            "baseline_off_cmd": "cd /repo && cargo nextest run --workspace --no-fail-fast --test-threads 8 --offline",
            "source_commits": hook_commits,
            "add_only": True,
        },
        "engines": [
            {"name": "tlc", "path": "/opt/veriftools/tla/tla2tools.jar", "serves_properties": [c["property_id"] for c in checks],
             "kind_free_text": "TLC 1.8.0 model checker evaluating the TLA+ specification in /verif/spec (exhaustive small-scope model checking, vector generation, trace validation)"},
            {"name": "sv-harness", "path": "/verif/harness", "serves_properties": [c["property_id"] for c in checks],
             "kind_free_text": "Rust conformance harness linking the real scryer-prolog crate from /repo's working tree (replay of TLC-generated behaviours, recording of traces, fault/schedule injection through the verif-hooks feature)"},
        ],
        "checks": checks,
        "not_applicable": na,
        "notes": "All checks are driven by ./check <id> --tier quick|thorough; specification in /verif/spec; see DESIGN.md. "
                 "Known findings and repaired defects: /verif/known_findings.json.",
    }
    with open(os.path.join(HERE, "MANIFEST.json"), "w") as f:
        json.dump(man, f, indent=1)
    print("MANIFEST.json: %d checks, %d not_applicable" % (len(checks), len(na)))


if __name__ == "__main__":
    main()
