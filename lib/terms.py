"""Term plumbing between the three representations:

* TLA term   : JSON image of the spec's uniform record  {"t": tag, "n": name, "i": int, "a": [args]}
               tags: "v" variable, "a" atom, "i" small integer (payload i), "big" integer (decimal in n),
                     "c" compound, "s" string (text in n; denotes the list of its characters),
                     "f" float (n = 16 hex digits of the IEEE bits), "r" rational (a = [num, den] as terms)
               n may be a string or an array of code points.
* harness    : JSON written by sv-harness (term_json in harness/src/main.rs)
* canonical  : python tuples ('v',name) ('a',name) ('i',int) ('f',bits:int) ('r',num,den) ('c',name,(args))
               lists are ('c','.',(h,t)) chains ending in ('a','[]'); strings are expanded to such lists.
"""
import struct


def name_of(n):
    if isinstance(n, list):
        return "".join(chr(c) for c in n)
    return n


NIL = ('a', '[]')


def mk_list(items, tail=NIL):
    t = tail
    for x in reversed(items):
        t = ('c', '.', (x, t))
    return t


def from_tla(t):
    tag = t["t"]
    if tag == "v":
        k = t.get("i", 0)
        nm = name_of(t["n"])
        return ('v', nm if not k else "%s_G%d" % (nm if nm.startswith("_") else "_" + nm, k))
    if tag == "a":
        return ('a', name_of(t["n"]))
    if tag == "i":
        return ('i', int(t["i"]))
    if tag == "big":
        return ('i', int(name_of(t["n"])))
    if tag == "c":
        return ('c', name_of(t["n"]), tuple(from_tla(x) for x in t["a"]))
    if tag == "s":
        return mk_list([('a', ch) for ch in name_of(t["n"])])
    if tag == "f":
        return ('f', int(name_of(t["n"]), 16))
    if tag == "r":
        n = from_tla(t["a"][0])
        d = from_tla(t["a"][1])
        return ('r', n[1], d[1])
    raise ValueError("bad TLA term %r" % (t,))


def from_h(t):
    if "i" in t:
        return ('i', int(t["i"]))
    if "r" in t:
        return ('r', int(t["r"][0]), int(t["r"][1]))
    if "f" in t:
        return ('f', int(t["f"], 16))
    if "a" in t:
        return ('a', t["a"])
    if "s" in t:
        return mk_list([('a', ch) for ch in t["s"]])
    if "l" in t:
        return mk_list([from_h(x) for x in t["l"]])
    if "c" in t:
        return ('c', t["c"], tuple(from_h(x) for x in t["args"]))
    if "v" in t:
        return ('v', t["v"])
    raise ValueError("bad harness term %r" % (t,))


def float_bits(x):
    return struct.unpack(">Q", struct.pack(">d", x))[0]


def bits_float(b):
    return struct.unpack(">d", struct.pack(">Q", b))[0]


def variant(a, b, m1=None, m2=None):
    """structural equality up to a bijective renaming of variables"""
    m1 = {} if m1 is None else m1
    m2 = {} if m2 is None else m2
    stack = [(a, b)]
    while stack:
        x, y = stack.pop()
        if x[0] != y[0]:
            return False
        if x[0] == 'v':
            if m1.setdefault(x[1], y[1]) != y[1]:
                return False
            if m2.setdefault(y[1], x[1]) != x[1]:
                return False
        elif x[0] == 'c':
            if x[1] != y[1] or len(x[2]) != len(y[2]):
                return False
            stack.extend(zip(x[2], y[2]))
        else:
            if x != y:
                return False
    return True


def variant_bindings(exp, got):
    """exp, got: dict var -> canonical term; the answer as a whole must be a variant
    (one renaming across all bindings)."""
    if set(exp.keys()) != set(got.keys()):
        return False
    m1, m2 = {}, {}
    for k in exp:
        if not variant(exp[k], got[k], m1, m2):
            return False
    return True


# ------------------------------------------------------------------------------------------
# canonical Prolog text (input sublanguage: functional notation, quoted atoms, decimal numbers)
# ------------------------------------------------------------------------------------------

def quote_atom(s):
    if s == "[]":
        return "[]"
    if s == "{}":
        return "{}"
    out = ["'"]
    for ch in s:
        o = ord(ch)
        if ch == "'":
            out.append("\\'")
        elif ch == "\\":
            out.append("\\\\")
        elif ch == "\n":
            out.append("\\n")
        elif ch == "\t":
            out.append("\\t")
        elif o < 32 or o == 127:
            out.append("\\x%x\\" % o)
        else:
            out.append(ch)
    out.append("'")
    return "".join(out)


def float_text(bits):
    x = bits_float(bits)
    if x != x or x in (float("inf"), float("-inf")):
        raise ValueError("non-finite float")
    r = repr(x)
    if "e" in r or "E" in r:
        m, e = r.lower().split("e")
        if "." not in m:
            m += ".0"
        r = m + "e" + e
    elif "." not in r:
        r += ".0"
    return r


def text(t, neg_paren=True):
    """canonical tuple -> Prolog text"""
    k = t[0]
    if k == 'v':
        return t[1]
    if k == 'a':
        return quote_atom(t[1])
    if k == 'i':
        return str(t[1]) if t[1] >= 0 else ("(%d)" % t[1] if neg_paren else str(t[1]))
    if k == 'f':
        s = float_text(t[1])
        return "(%s)" % s if s.startswith("-") else s
    if k == 'r':
        return "(%d rdiv %d)" % (t[1], t[2])
    if k == 'c':
        if t[1] == '.' and len(t[2]) == 2:
            items = []
            cur = t
            while cur[0] == 'c' and cur[1] == '.' and len(cur[2]) == 2:
                items.append(cur[2][0])
                cur = cur[2][1]
            body = ",".join(text(x) for x in items)
            if cur == NIL:
                return "[" + body + "]"
            return "[" + body + "|" + text(cur) + "]"
        return quote_atom(t[1]) + "(" + ",".join(text(x) for x in t[2]) + ")"
    raise ValueError(t)


def tla_text(t):
    return text(from_tla(t))


def show(t):
    """human-readable rendering for messages"""
    try:
        return text(t)
    except Exception:
        return repr(t)
