"""Replay of behaviours of the abstract machine spec/Prolog.tla against the real system.

A vector (printed by an MC_* model that EXTENDS Prolog) carries: prog (sequence of [h, b]), q, qv, ans (sequence of
sequences of terms, aligned with qv), status ("done" | "exc" | "capped"), ball, and optionally out (log) and dyn.
Predicate names listed in `rename` are made unique per program so that many programs share one Machine."""
from lib import terms


def rename_term(t, mapping):
    k = t[0]
    if k == 'c':
        name = mapping.get((t[1], len(t[2])), t[1])
        return ('c', name, tuple(rename_term(x, mapping) for x in t[2]))
    if k == 'a':
        return ('a', mapping.get((t[1], 0), t[1]))
    return t


def rename_goal(t, mapping):
    """rename predicate symbols in goal positions only (heads, body goals, meta-call arguments)"""
    k = t[0]
    if k == 'c':
        n, args = t[1], t[2]
        ar = len(args)
        if (n, ar) in ((',', 2), (';', 2), ('->', 2)):
            return ('c', n, tuple(rename_goal(x, mapping) for x in args))
        if (n, ar) in (('\\+', 1), ('once', 1), ('ignore', 1)):
            return ('c', n, (rename_goal(args[0], mapping),))
        if n == 'call' and ar >= 1:
            g = args[0]
            extra = ar - 1
            if g[0] == 'c':
                g2 = ('c', mapping.get((g[1], len(g[2]) + extra), g[1]), g[2]) if extra else rename_goal(g, mapping)
            elif g[0] == 'a':
                g2 = ('a', mapping.get((g[1], extra), g[1]))
            else:
                g2 = g
            return ('c', n, (g2,) + tuple(args[1:]))
        if (n, ar) == ('findall', 3):
            return ('c', n, (args[0], rename_goal(args[1], mapping), args[2]))
        if (n, ar) == ('forall', 2):
            return ('c', n, (rename_goal(args[0], mapping), rename_goal(args[1], mapping)))
        if (n, ar) == ('catch', 3):
            return ('c', n, (rename_goal(args[0], mapping), args[1], rename_goal(args[2], mapping)))
        if (n, ar) in (('assertz', 1), ('asserta', 1), ('retract', 1)):
            c = args[0]
            if c[0] == 'c' and c[1] == ':-' and len(c[2]) == 2:
                return ('c', n, (('c', ':-', (rename_goal(c[2][0], mapping), rename_goal(c[2][1], mapping))),))
            return ('c', n, (rename_goal(c, mapping),))
        if (n, ar) == ('clause', 2):
            return ('c', n, (rename_goal(args[0], mapping), args[1]))
        if (n, ar) in mapping:
            return ('c', mapping[(n, ar)], args)
        return t
    if k == 'a':
        if (t[1], 0) in mapping:
            return ('a', mapping[(t[1], 0)])
    return t


def unrename_term(t, inv):
    k = t[0]
    if k == 'c':
        return ('c', inv.get(t[1], t[1]), tuple(unrename_term(x, inv) for x in t[2]))
    if k == 'a':
        return ('a', inv.get(t[1], t[1]))
    return t


def blank_error_terms(t):
    """error(Formal, Context) terms caught into an answer: the context is implementation defined and the Formal of an
    arithmetic error may be any of several (compared exactly only for uncaught balls); keep just the error/2 shell"""
    if t[0] == 'c':
        if t[1] == 'error' and len(t[2]) == 2:
            return ('a', '$error')
        return ('c', t[1], tuple(blank_error_terms(x) for x in t[2]))
    return t


def clause_text(h, b):
    if b == ('a', 'true'):
        return terms.text(h) + "."
    return terms.text(h) + " :- " + terms.text(b) + "."


class Prog:
    """one vector prepared for replay: program text with unique predicate names, query text, expectations"""

    def __init__(self, vec, uniq, rename_keys):
        self.vec = vec
        self.mapping = {(n, ar): "%s_%s" % (n, uniq) for (n, ar) in rename_keys}
        self.inv = {v: k[0] for k, v in self.mapping.items()}
        cls = []
        for c in vec["prog"]:
            h = rename_goal(terms.from_tla(c["h"]), self.mapping)
            b = rename_goal(terms.from_tla(c["b"]), self.mapping)
            cls.append(clause_text(h, b))
        self.dyn = [(self.mapping.get((n, ar), n), ar) for (n, ar) in vec.get("dynkeys", [])]
        self.text = "".join(":- dynamic(%s/%d).\n" % (terms.quote_atom(n), ar) for (n, ar) in self.dyn)
        self.text += "\n".join(cls) + "\n"
        self.q = rename_goal(terms.from_tla(vec["q"]), self.mapping)
        self.qtext = terms.text(self.q) + "."
        self.qv = [terms.from_tla(v)[1] for v in vec["qv"]]

    def expected_answers(self):
        return [('c', 'ans', tuple(terms.from_tla(t) for t in a)) for a in self.vec["ans"]]

    def got_answer(self, a):
        """harness answer -> canonical ('c','ans',...) tuple, or None if not a bindings/true answer"""
        if a == "T":
            b = {}
        elif isinstance(a, dict) and "b" in a:
            b = a["b"]
        else:
            return None
        vals = []
        for name in self.qv:
            if name in b:
                vals.append(unrename_term(terms.from_h(b[name]), self.inv))
            else:
                vals.append(('v', name))
        return ('c', 'ans', tuple(vals))

    def compare(self, res, max_ans):
        """res: harness query result. Returns None if it matches the vector, else a short description."""
        if "panic" in res:
            return "panic: " + res["panic"]
        got = list(res["a"])
        exp = self.expected_answers()
        status = self.vec["status"]
        # split real answers into proper answers and the terminator
        proper = []
        term = None
        for a in got:
            if a == "F":
                term = "F"
                break
            if isinstance(a, dict) and ("e" in a or "x" in a):
                term = a
                break
            proper.append(a)
        if status == "capped":
            proper = proper[:max_ans]
            if len(proper) < len(exp):
                return "expected at least %d answers, got %d" % (len(exp), len(proper))
        elif len(proper) != len(exp):
            return "expected %d answers, got %d (%s)" % (len(exp), len(proper), str(got)[:200])
        for i, (e, a) in enumerate(zip(exp, proper)):
            g = self.got_answer(a)
            if g is not None:
                e, g = blank_error_terms(e), blank_error_terms(g)
            if g is None or not terms.variant(e, g):
                return "answer %d: expected %s got %s" % (i + 1, terms.show(e), terms.show(g) if g else a)
        if status == "done":
            if term not in (None, "F"):
                return "expected normal termination, got %s" % (str(term)[:200])
            if not exp and term != "F":
                return "expected failure, got %s" % (str(got)[:200])
        elif status == "exc":
            ball = terms.from_tla(self.vec["ball"])
            if not isinstance(term, dict):
                return "expected ball %s, got %s" % (terms.show(ball), str(got)[:200])
            gb = unrename_term(terms.from_h(term.get("e") or term.get("x")), self.inv)
            if ball[0] == 'c' and ball[1] == 'error' and len(ball[2]) == 2:
                # several erroneous subterms of one arithmetic expression: any of their errors is admissible
                alts = [ball] + [terms.from_tla(t) for t in self.vec.get("balts", [])]
                if not (gb[0] == 'c' and gb[1] == 'error' and len(gb[2]) == 2 and
                        any(terms.variant(blank_error_terms(a[2][0]), blank_error_terms(gb[2][0])) for a in alts)):
                    # (an error term caught earlier and carried inside the Formal, e.g. as a culprit, keeps only its error/2 shell:
                    # its context is implementation defined)
                    return "expected error %s, got %s" % (" or ".join(terms.show(a[2][0]) for a in alts), terms.show(gb))
            elif not terms.variant(blank_error_terms(ball), blank_error_terms(gb)):
                return "expected ball %s, got %s" % (terms.show(ball), terms.show(gb))
        return None


def features(t, acc=None):
    """coverage class of a program/goal: the set of control constructs and builtins it uses"""
    acc = set() if acc is None else acc
    if t[0] == 'c':
        acc.add("%s/%d" % (t[1], len(t[2])))
        for x in t[2]:
            features(x, acc)
    elif t[0] == 'a' and t[1] in ('!', 'fail', 'true'):
        acc.add(t[1])
    return acc
