"""Shared driver for C30 (allocation failure) and C31 (interrupt): workloads of spec/MC_C31.tla faulted at every point."""
import json
from lib import common, terms
from lib.common import Report, generate, run_jobs

HELPERS = """:- use_module(library(iso_ext)).
:- use_module(library(lists)).
:- use_module(library(freeze)).
:- dynamic(logged/1).
:- dynamic(d/1).
:- dynamic(d0/1).
log(T) :- assertz(logged(T)).
t(1). t(2). t(3).
app([],X,X).
app([H|T],Y,[H|R]) :- app(T,Y,R).
big(1,[0,0,0,0,0,0,0,0]).
rev([],[]).
rev([H|T],R) :- rev(T,RT), app(RT,[H],R).
reset_state :- retractall(logged(_)), retractall(d(_)), retractall(d0(_)), assertz(d0(0)).
"""
# the workloads of MC_C31.tla (same order), rendered once by hand in ordinary syntax; the outcome sets come from the spec
WORK = {
    1: "rev([a,b,c],X), log(X)",
    2: "findall(Y, (t(Y), log(Y)), L), log(L)",
    3: "catch((log(1), throw(a)), a, log(2)), log(3)",
    4: "( t(Y), assertz(d(Y)), log(Y), fail ; true )",
    5: "findall(X-Y, app(X,Y,[a,b]), L), log(L)",
    6: "( \\\\+ t(5) -> log(no) ; log(yes) ), once(t(Y)), log(Y)",
    7: "findall(Y, catch((t(Y), log(Y)), B, true), L), retract(d0(Z)), log(L-Z)",
    8: "freeze(X, log(woke(X))), big(X, L), log(L)",
    9: "( freeze(X, (log(w), t(X))), t(Y), X = Y, log(Y), fail ; true )",
}
BATTERY = [("findall(X, t(X), L).", "L", "[1,2,3]"), ("rev([a,b],R).", "R", "[b,a]"),
           ("catch(throw(b), B, true).", "B", "b"), ("X is 2+3.", "X", "5"),
           ("findall(X-Y, app(X,Y,[c]), L).", "L", "['-'([],[c]),'-'([c],[])]")]


def canon(t, m):
    """rename variables in order of first appearance"""
    if t[0] == 'v':
        return ('v', m.setdefault(t[1], "_V%d" % (len(m) + 1)))
    if t[0] == 'c':
        return ('c', t[1], tuple(canon(x, m) for x in t[2]))
    return t


def showc(t):
    return terms.show(canon(t, {}))


def query(kind, w):
    catcher = "E" if kind == "interrupt" else "error(resource_error(memory),Ctx)"
    return "catch((%s), %s, log(caught)), log(end)." % (WORK[w].replace("\\\\+", "\\+"), catcher)


def outcome_of_vec(v):
    ball = None
    if v["status"] == "exc":
        b = terms.from_tla(v["ball"])
        ball = terms.show(b[2][0]) if b[0] == 'c' and b[1] == 'error' else terms.show(b)
    out = [showc(terms.from_tla(t)) for t in v["out"]]
    dbd = sorted(showc(terms.from_tla(t)) for t in v["db"] if t["n"] == "d")
    dbd0 = sorted(showc(terms.from_tla(t)) for t in v["db"] if t["n"] == "d0")
    return json.dumps([v["nans"] if v["status"] != "exc" else 0, ball, out, dbd, dbd0])


def outcome_of_run(qres, logres, dres, d0res):
    if "panic" in qres:
        return None, "panic " + qres["panic"]
    a = qres["a"]
    nans = 0
    ball = None
    for x in a:
        if isinstance(x, dict) and "b" in x or x == "T":
            nans += 1
        elif isinstance(x, dict) and ("e" in x or "x" in x):
            t = terms.from_h(x.get("e") or x.get("x"))
            ball = terms.show(t[2][0]) if t[0] == 'c' and t[1] == 'error' else terms.show(t)

    def lst(r):
        t = terms.from_h(r["a"][0]["b"]["L"])
        items = []
        while t[0] == 'c' and t[1] == '.':
            items.append(showc(t[2][0]))
            t = t[2][1]
        return items
    try:
        out = lst(logres)
        dbd = sorted(lst(dres))
        dbd0 = sorted(lst(d0res))
    except Exception:
        return None, "state unreadable after the fault: %s" % (str([logres, dres, d0res])[:300])
    return json.dumps([nans if ball is None else 0, ball, out, dbd, dbd0]), None


def run(prop, kind, tier, meta_note):
    rep = Report(prop, tier, "fault_enumeration")
    quick = tier == "quick"
    res, vecs = generate("MC_C31", "MC_C31_%s.cfg" % kind, workers=6 if quick else 12, timeout=3000)
    rep.add_tlc(res)
    allowed = {}
    for v in vecs:
        allowed.setdefault(v["w"], set()).add(outcome_of_vec(v))
    rep.extra["spec_outcomes_per_workload"] = {str(w): len(s) for w, s in allowed.items()}
    # 1. fault-free run of each workload: measure the fault range
    probe = []
    for w in sorted(WORK):
        probe.append({"id": "p%d" % w, "fresh": True, "steps": [
            {"consult": HELPERS}, {"q": "reset_state."}, {"q": "true."},
            {"count_instr": True}, {"footprint": "zz"}, {"q": query(kind, w), "max": 3}, {"count_instr": False}, {"footprint": "zz"},
            {"q": "findall(T, logged(T), L)."}, {"q": "findall(d(X), d(X), L)."}, {"q": "findall(d0(X), d0(X), L)."}]})
    pr = run_jobs(probe, workers=4, job_timeout=120)
    points = {}
    for w in sorted(WORK):
        r = pr["p%d" % w]
        if "crash" in r:
            raise common.ToolError("fault-free probe of workload %d crashed: %s" % (w, r["crash"]))
        rs = r["res"]
        oc, err = outcome_of_run(rs[5], rs[8], rs[9], rs[10])
        rep.case(("fault-free", w))
        if err or oc not in allowed[w]:
            rep.violation("fault-free workload %d: outcome %s is not an outcome of the specification" % (w, err or oc),
                          {"workload": w, "query": query(kind, w), "outcome": oc})
        if kind == "interrupt":
            total = rs[6]["instr_count"]
            dense = 400 if quick else total
            pts = list(range(1, min(total, dense) + 1))
            stride = max(1, (total - dense) // (250 if quick else 1)) if total > dense else 1
            pts += list(range(dense + 1, total + 2, stride))
        else:
            # bytes of heap the workload may allocate: measured growth is a lower bound (backtracking truncates); scan generously
            grown = max(0, rs[7]["footprint"]["heap_cells"] - rs[4]["footprint"]["heap_cells"]) * 8
            top = max(grown * 4, 4096)
            step = 8 if not quick else max(8, (top // 300) // 8 * 8)
            pts = list(range(0, top + 8, step))
        points[w] = pts
    # 2. faulted runs
    jobs = []
    for w in sorted(WORK):
        pts = points[w]
        B = 40
        for bi in range(0, len(pts), B):
            steps = batch_steps(kind, w, pts[bi:bi + B])
            jobs.append({"id": "w%d-%d" % (w, bi), "fresh": True, "steps": steps, "timeout": 300, "_w": w, "_pts": pts[bi:bi + B]})
    per = 7 + len(BATTERY)
    seen_outcomes = {}
    rounds = 0
    while jobs and rounds < 6:
        rounds += 1
        results = run_jobs([{k: v for k, v in j.items() if not k.startswith("_")} for j in jobs], workers=8, job_timeout=300)
        jobs = judge(rep, kind, jobs, results, per, allowed, seen_outcomes, rounds)
    rep.extra["real_outcomes_per_workload"] = {str(w): len(s) for w, s in seen_outcomes.items()}
    rep.extra["fault_points_per_workload"] = {str(w): len(p) for w, p in points.items()}
    for w in sorted(WORK)[:4]:
        rep.sample({"workload": query(kind, w), "fault_points": len(points[w]),
                    "spec_outcomes": [json.loads(x) for x in sorted(allowed[w])][:4]})
    rep.traces = sum(len(p) for p in points.values())
    rep.rule = ("%d workloads x fault points (interrupt: the n-th dispatched instruction, every n for the first 400 then strided; "
                "memory: heap declared full d bytes ahead, d in steps of 8); the observed outcome (answers, ball, log, database) must be "
                "one of the outcomes the specification allows for some fault step, and a follow-up battery must answer as on a fresh machine. "
                "distinct = (workload, phase)")
    rep.assumptions = ["TLC", "spec/Prolog.tla + Faults.tla", meta_note]
    return rep.finish()


def batch_steps(kind, w, pts):
    steps = [{"consult": HELPERS}]
    for n in pts:
        steps.append({"q": "reset_state.", "max": 2})
        steps.append({"instr_at": n} if kind == "interrupt" else {"virt_limit_rel": n})
        steps.append({"q": query(kind, w), "max": 3, "tmo_ms": 10000})
        steps.append({"instr_at": 0} if kind == "interrupt" else {"virt_limit_rel": -1})
        steps.append({"q": "findall(T, logged(T), L).", "max": 2})
        steps.append({"q": "findall(d(X), d(X), L).", "max": 2})
        steps.append({"q": "findall(d0(X), d0(X), L).", "max": 2})
        for (bq, _, _) in BATTERY:
            steps.append({"q": bq, "max": 3})
    return steps


def judge(rep, kind, jobs, results, per, allowed, seen_outcomes, rnd):
    """judge one round; returns the jobs to run again (points that followed a panic/hang in their batch)"""
    again = []
    for j in jobs:
        w = j["_w"]
        r = results.get(j["id"], {"crash": "missing"})
        if "crash" in r:
            kindsig = "process-died" if "died" in r["crash"] else "stalled"
            rep.violation("%s workload=%d points=%d..%d: %s" % (kindsig, w, j["_pts"][0], j["_pts"][-1], r["crash"]),
                          {"workload": w, "points": j["_pts"], "crash": r["crash"]})
            continue
        rs = r["res"][1:]
        poisoned = False
        for k, n in enumerate(j["_pts"]):
            seg = rs[k * per:(k + 1) * per]
            if len(seg) < per:
                break
            if poisoned:
                # the Machine was rebuilt without helpers after a panic: run the rest of this batch again
                rest = j["_pts"][k:]
                again.append({"id": "%s-r%d" % (j["id"], rnd), "fresh": True, "steps": batch_steps(kind, w, rest), "timeout": 300,
                              "_w": w, "_pts": rest})
                break
            rep.case((w, "early" if k < 3 else "mid"))
            rep.evaluations += 0
            oc, err = outcome_of_run(seg[2], seg[4], seg[5], seg[6])
            if err:
                site = err.split("@")[-1].strip() if "@" in err else err[:80]
                rep.violation("panic-site %s | workload=%d fault-point=%d: %s" % (site, w, n, err[:200]),
                              {"workload": w, "point": n, "query": query(kind, w), "error": err})
                poisoned = True
                continue
            if seg[2].get("tmo"):
                rep.violation("hang workload=%d fault-point=%d" % (w, n), {"workload": w, "point": n, "query": query(kind, w)})
                poisoned = True
                continue
            seen_outcomes.setdefault(w, set()).add(oc)
            if oc not in allowed[w]:
                rep.violation("workload=%d fault-point=%d: outcome %s is not an outcome of the specification for any fault point" % (w, n, oc),
                              {"workload": w, "point": n, "query": query(kind, w), "outcome": json.loads(oc),
                               "allowed": [json.loads(x) for x in sorted(allowed[w])][:12]})
            for (bq, var, expect), br in zip(BATTERY, seg[7:]):
                ok = False
                if "a" in br and br["a"] and isinstance(br["a"][0], dict) and "b" in br["a"][0] and var in br["a"][0]["b"]:
                    ok = terms.show(terms.from_h(br["a"][0]["b"][var])).replace("'", "") == expect.replace("'", "")
                if not ok:
                    rep.violation("follow-up after workload=%d fault-point=%d: %s gave %s" % (w, n, bq, str(br)[:200]),
                                  {"workload": w, "point": n, "followup": bq, "got": br})
    return again
