#!/usr/bin/env python3
"""Regenerate section 14 ("As built") of DESIGN.md from known/*.json, known_findings.json, seeded/*/meta.json and the /repo log.
The hand-written part of the section is lib/design14_head.md."""
import glob
import json
import os
import subprocess

HERE = os.path.dirname(os.path.dirname(os.path.abspath(__file__)))
MARK = "\n---------------------------------------------------------------------------------------------------\n\n## 14. As built"


def s(x):
    if isinstance(x, dict):
        return "property=%s %s %s" % (x.get("property", "?"), x.get("commit", ""), x.get("what", x.get("id", "")))
    return str(x).replace("fixed: ", "")


def main():
    kn, fixed = [], list(json.load(open(os.path.join(HERE, "known_findings.json")))["fixed"])
    for p in sorted(glob.glob(os.path.join(HERE, "known", "*.json"))):
        d = json.load(open(p))
        kn += d.get("findings", [])
        fixed += d.get("fixed", [])
    log = subprocess.run(["git", "-C", "/repo", "log", "--format=%h %s", "fe77dbb..HEAD"], stdout=subprocess.PIPE, text=True).stdout.splitlines()
    out = [open(os.path.join(HERE, "lib", "design14_head.md")).read()]
    out.append("### 14.3 Defects of the pinned tree repaired by `fix:` commits in /repo (each found by the check named; none is visible to the stable test suite)\n")
    out += ["* " + s(f) for f in fixed]
    out.append("\n### 14.4 Known findings recorded instead of repaired (`known/Cnn.json`; the check prints KNOWN-FINDING and exits 0)\n")
    out += ["* **%s** (%s): %s" % (f.get("id"), f.get("property"), f.get("what")) for f in kn]
    out.append("\n### 14.5 Seeded changes (`seeded/<id>/`): which checks catch which\n")
    rows = []
    for p in sorted(glob.glob(os.path.join(HERE, "seeded", "*", "meta.json"))):
        m = json.load(open(p))
        rows.append("| %s | %s | %s | %s | %s |" % (os.path.basename(os.path.dirname(p)), m.get("property"), m.get("summary", "").replace("|", "/")[:160],
                                              m.get("needs", "").replace("|", "/")[:120], (m.get("caught_by", "not run yet") + ((" - " + m["history"]) if m.get("history") else "")).replace("|", "/")))
    if rows:
        out.append("| id | property | change | needs | caught by |\n|---|---|---|---|---|")
        out += rows
    else:
        out.append("(none recorded yet)")
    out.append("\n### 14.6 Commits in /repo\n")
    out += ["* `%s`" % h for h in log]
    text = open(os.path.join(HERE, "DESIGN.md")).read()
    if MARK in text:
        text = text[:text.index(MARK)]
    text = text.rstrip("\n") + "\n" + "\n".join(out) + "\n"
    open(os.path.join(HERE, "DESIGN.md"), "w").write(text)
    print("section 14: %d findings, %d fixed, %d commits, %d seeded" % (len(kn), len(fixed), len(log), len(rows)))


if __name__ == "__main__":
    main()
