#!/bin/sh
# Run once in /verif after a fresh restore, offline: build the harness against /repo.
set -e
cd "$(dirname "$0")"
mkdir -p work evidence/replays
export CARGO_NET_OFFLINE=true
[ -f harness/Cargo.lock ] || cp /repo/Cargo.lock harness/Cargo.lock
(cd harness && cargo build --offline 2>&1 | tail -3)
java -version 2>&1 | head -1
echo "setup done"
