#!/bin/sh
# Run once in /verif after a fresh restore, offline: build the harness against /repo.
set -e
cd "$(dirname "$0")"
mkdir -p work evidence/replays
export CARGO_NET_OFFLINE=true
[ -f harness/Cargo.lock ] || cp /repo/Cargo.lock harness/Cargo.lock
(cd harness && cargo build --offline 2>&1 | tail -3)
# the real binary used by the toplevel check (C29); its own target dir so that later runs are incremental
cargo build --offline --manifest-path /repo/Cargo.toml --no-default-features --features repl,hostname,crypto-full \
      --bin scryer-prolog --target-dir work/target-bin 2>&1 | tail -2
java -version 2>&1 | head -1
echo "setup done"
