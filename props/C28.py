"""C28 - Embedded queries return faithful answers across a query history."""
import json
from lib import common, terms
from lib.common import Report, run_jobs, generate
from lib.prolog_replay import Prog

PROP = "C28"
META = {
    "level": "model_checking",
    "text": "QueryIter (spec/MC_C28.tla on top of the abstract machine Prolog.tla): one machine serves a history of queries, each answer "
            "stream consumed up to k answers and then dropped; the i-th stream must be what the abstract machine yields on a machine that "
            "performed exactly the side effects of the consumed parts of earlier queries. TLC enumerates every history of up to 2 (thorough 3) "
            "steps over 14 query kinds (deterministic, nondeterministic, infinite generator, failing, non-error ball, error, exception after "
            "two answers, assert side effects read back later, anonymous/residual variables, improper list) x consumed prefix {0,1,2,5} and a "
            "consult of a text with a syntax error; each history is replayed on a fresh Machine through the public API only.",
    "note": "Trusted: TLC; Prolog.tla; the renderer. Whether a last answer is followed by an explicit `false` (choice point left) is "
            "implementation dependent and accepted either way. Residual goals of attributed variables are outside LeafAnswer and not covered.",
    "technique": "TLA+ state machine over the abstract machine, explored by TLC; histories replayed through the embedding API (spec -> impl)",
}
HELPERS = ":- dynamic(c/1).\nt(1). t(2). t(3).\nnat(0).\nnat(N) :- nat(M), N is M+1.\n"
BAD = "bad( .\nalso_bad :- .\n"


def run(tier):
    rep = Report(PROP, tier, "model_checking")
    rep.rule = ("every history of <= 2 (thorough 3, sampled by TLC bounds) steps over (query kind x answers consumed) plus a failing consult; "
                "distinct = the sequence of (query kind, consumed) pairs up to length 2")
    res, vecs = generate("MC_C28", "MC_C28_%s.cfg" % tier, workers=8 if tier == "quick" else 14, timeout=3000)
    rep.add_tlc(res)
    jobs = []
    for hi, v in enumerate(vecs):
        steps = [{"consult": HELPERS}, {"q": "true.", "max": 2}]
        for st, r in zip(v["hist"], v["res"]):
            if st["q"] == 0:
                steps.append({"consult": BAD})
            else:
                q = terms.text(terms.from_tla(QUERIES[st["q"]])) + "."
                steps.append({"q": q, "max": st["k"], "tmo_ms": 5000})
        jobs.append({"id": hi, "fresh": True, "keep": True, "steps": steps, "timeout": 60})
    results = run_jobs(jobs, workers=8, job_timeout=60)
    for hi, v in enumerate(vecs):
        r = results.get(hi, {"crash": "missing"})
        key = tuple((s["q"], s["k"]) for s in v["hist"])
        rep.case(key[:2])
        hs = " ; ".join("q%d take %d" % (s["q"], s["k"]) for s in v["hist"])
        if "crash" in r:
            rep.violation("history [%s]: %s" % (hs, r["crash"]), {"vector": v, "crash": r["crash"]})
            continue
        outs = r["res"][2:]
        for si, (st, exp, out) in enumerate(zip(v["hist"], v["res"], outs)):
            where = "history [%s] step %d" % (hs, si + 1)
            if st["q"] == 0:
                if "panic" in out:
                    rep.violation("%s: consult of a text with syntax errors panicked: %s" % (where, out["panic"]), {"vector": v, "got": out})
                    break
                continue
            if "panic" in out:
                kind = "improper-list-answer" if st["q"] == 12 and st["k"] > 0 else "panic"
                rep.violation("%s %s: %s" % (kind, where, out["panic"]), {"vector": v, "step": si, "got": out})
                break
            if out.get("tmo"):
                rep.violation("%s: the query did not return within 5 s" % where, {"vector": v, "step": si})
                break
            d = compare(st, exp, out)
            if d:
                rep.violation("%s: %s" % (where, d), {"vector": v, "step": si, "got": out})
                break
    for v in vecs[:: max(1, len(vecs) // 5)]:
        rep.sample({"history": [(terms.text(terms.from_tla(QUERIES[s["q"]])) if s["q"] else "consult(bad text)", s["k"]) for s in v["hist"]],
                    "expected": [{"answers": len(r["ans"]), "status": r["status"]} for r in v["res"]]})
    rep.traces = len(vecs)
    rep.exhaustive = True
    rep.assumptions = ["TLC", "spec/Prolog.tla", "canonical renderer"]
    return rep.finish()


def compare(st, exp, out):
    keep = [j for j, q in enumerate(exp["qv"]) if not terms.from_tla(q)[1].startswith("_")]
    names = [terms.from_tla(exp["qv"][j])[1] for j in keep]
    eans = [('c', 'ans', tuple(terms.from_tla(a[j]) for j in keep)) for a in exp["ans"]]
    got = list(out["a"])
    proper, term = [], None
    for a in got:
        if a == "F":
            term = "F"
            break
        if isinstance(a, dict) and ("e" in a or "x" in a):
            term = a
            break
        proper.append(a)
    if len(proper) != len(eans):
        return "expected %d answers, got %d (%s)" % (len(eans), len(proper), str(got)[:200])
    for i, (e, a) in enumerate(zip(eans, proper)):
        b = {} if a == "T" else a.get("b", {})
        g = ('c', 'ans', tuple(terms.from_h(b[n]) if n in b else ('v', n) for n in names))
        if not terms.variant(e, g):
            return "answer %d: expected %s got %s" % (i + 1, terms.show(e), terms.show(g))
        extra = set(b) - set(names)
        if extra:
            return "answer %d binds unknown variables %s" % (i + 1, sorted(extra))
    status = exp["status"]
    if status == "open":
        if term is not None:
            return "the stream ended (%s) although more answers exist" % (str(term)[:120])
    elif status == "done":
        if term not in (None, "F"):
            return "expected the stream to end normally, got %s" % (str(term)[:160])
        if not eans and st["k"] > 0 and term != "F":
            return "expected failure, got %s" % (str(got)[:160])
    elif status == "exc":
        ball = terms.from_tla(exp["ball"])
        if st["k"] <= len(eans):
            return None   # the consumer stopped before the exception
        if not isinstance(term, dict):
            return "expected ball %s, got %s" % (terms.show(ball), str(got)[:160])
        gb = terms.from_h(term.get("e") or term.get("x"))
        is_err = ball[0] == 'c' and ball[1] == 'error'
        if is_err != ("e" in term):
            return "ball %s reported through the wrong channel (%s)" % (terms.show(ball), "Err" if "e" in term else "Exception")
        if is_err:
            if not (gb[0] == 'c' and gb[1] == 'error' and terms.variant(ball[2][0], gb[2][0])):
                return "expected error %s, got %s" % (terms.show(ball[2][0]), terms.show(gb))
        elif not terms.variant(ball, gb):
            return "expected ball %s, got %s" % (terms.show(ball), terms.show(gb))
    return None


def _queries():
    # the query catalogue of MC_C28.tla as TLA term JSON (kept in sync by the self-check below)
    def V(n): return {"t": "v", "n": n, "i": 0, "a": []}
    def A(n): return {"t": "a", "n": n, "i": 0, "a": []}
    def I(k): return {"t": "i", "n": "", "i": k, "a": []}
    def C(n, *a): return {"t": "c", "n": n, "i": 0, "a": list(a)}
    X, Y = V("X"), V("Y")
    return {1: A("true"), 2: C("=", X, A("a")), 3: C("t", X), 4: C("nat", X), 5: A("fail"), 6: C("throw", A("ball")),
            7: C("is", X, C("+", A("foo"), I(1))),
            8: C(",", C("t", X), C(";", C("->", C("=", X, I(3)), C("throw", C("late", X))), A("true"))),
            9: C(",", C("t", X), C("assertz", C("c", X))), 10: C("findall", Y, C("c", Y), X), 11: C("=", V("_"), A("a")),
            12: C("=", X, C(".", A("a"), A("b"))), 13: C("=", X, C("f", Y, V("_Z"))),
            14: C(",", C("=", X, C("f", Y)), C(";", C("=", Y, I(1)), C("=", Y, I(2))))}


QUERIES = _queries()


def replay(path):
    d = json.load(open(path))
    v = d["detail"]["vector"]
    steps = [{"consult": HELPERS}, {"q": "true."}]
    for st in v["hist"]:
        steps.append({"consult": BAD} if st["q"] == 0 else {"q": terms.text(terms.from_tla(QUERIES[st["q"]])) + ".", "max": st["k"], "tmo_ms": 5000})
    r = run_jobs([{"id": 0, "fresh": True, "keep": True, "steps": steps}], workers=1)
    print(json.dumps(v["hist"]), json.dumps(r[0], indent=1)[:3000])
    return 0
