"""C26 - dif/2, freeze/2 and when/2 are insensitive to posting order."""
import itertools
import json
from lib import common, terms
from lib.common import Report, run_jobs

PROP = "C26"

META = {
    "level": "model_checking",
    "text": "CoRoutines.tla gives the order-independent meaning of a set of posted steps (dif/2, freeze/2, when/2 with "
            "nonvar/ground/','/';' conditions, unifications) over three variables: satisfiability, most general unifier, "
            "pending disequations, which suspended goals have run (exactly once) and the ground solutions over the universe "
            "{a,b,f(a),f(b)}. TLC checks that an incremental constraint store reaches this solved form in every processing "
            "order (confluence) and that the solved form denotes exactly the ground solutions, and prints every multiset of "
            "<= 4 steps with the solved form of each subset. Every distinct posting order of every multiset is replayed as "
            "one query on the real machine: success/failure, bindings (up to renaming), the step at which each suspended goal "
            "ran (markers between steps), and the residue compared semantically by completing the answer with every grounding. "
            "Bounded-exhaustive conformance, not proof.",
    "note": "Trusted: TLC, the term renderer, copy_term/3 (attribute-free snapshot of the bindings), bb_get/bb_b_put (backtrackable "
            "log), findall/3. Finite trees only (scenarios needing the occurs check are not generated). ?=/2 is not a documented "
            "when/2 condition in Scryer and is not part of the alphabet.",
    "technique": "TLA+ solved-form semantics + confluence model checked by TLC; all posting orders replayed into the real attributed-variable machinery",
}

SETUP = """:- use_module(library(dif)).
:- use_module(library(freeze)).
:- use_module(library(when)).
:- use_module(library(lists)).
:- use_module(library(iso_ext)).
log(K) :- bb_get(lg, L), bb_b_put(lg, [K|L]).
lg(L) :- bb_get(lg, L0), reverse(L0, L).
%s
"""

VARS = ["X", "Y", "Z"]
WEIGHT = {"X": 16, "Y": 4, "Z": 1}
IDXVAR = {"X": "I", "Y": "J", "Z": "K"}


def setup_text(useq):
    facts = "\n".join("u(%d,%s)." % (i, terms.tla_text(t)) for i, t in enumerate(useq))
    return SETUP % facts


def orders(q):
    """distinct posting orders of the multiset: identical catalogue steps keep their index order"""
    n = len(q)
    for perm in itertools.permutations(range(1, n + 1)):
        pos = {s: i for i, s in enumerate(perm)}
        if all(pos[i] < pos[j] for i in range(1, n + 1) for j in range(i + 1, n + 1) if q[i - 1] == q[j - 1]):
            yield perm


def query_text(v, perm):
    goals = [terms.tla_text(g) for g in v["goals"]]
    parts = ["bb_put(lg, [])"]
    for i, s in enumerate(perm):
        parts.append(goals[s - 1])
        parts.append("log(m%d)" % (i + 1))
    parts.append("lg(L)")
    parts.append("copy_term([X,Y,Z], S, _)")
    parts.append("bb_b_put(lg, [])")
    vs = [x for x in VARS if x in v["vars"]]
    gen = ["u(%s,%s)" % (IDXVAR[x], x) for x in vs]
    code = "+".join("%s*%d" % (IDXVAR[x], WEIGHT[x]) for x in vs) or "0"
    gen.append("C is %s" % code)
    gen.append("bb_get(lg, L2)")
    parts.append("findall(C-L2, (%s), Gr)" % ", ".join(gen))
    return ", ".join(parts) + "."


def table_of(v):
    return {tuple(sorted(e["d"])): e for e in v["table"]}


def expectation(v, perm):
    """pure lookup in the spec's table: the solved form of every prefix of the posting order"""
    tab = table_of(v)
    n = len(perm)
    full = tab[tuple(sorted(perm))]
    exp = {"sat": full["sat"]}
    if not full["sat"]:
        return exp
    segs = []
    prev = set()
    prev_pend = set()
    prev_cv = [[] for _ in perm]
    aliased = set()
    difgone = set()
    for i in range(1, n + 1):
        e = tab[tuple(sorted(perm[:i]))]
        ran = set(e["ran"])
        segs.append(sorted(ran - prev))
        prev = ran
        # classification only (used in violation signatures, never in expectations):
        # goals suspended on two variables that this step aliased to one unbound variable
        sig = dict(zip(VARS, e["sigma"]))
        for g, cv in enumerate(prev_cv, 1):
            if any(a != b and sig[a] == sig[b] and sig[a]["t"] == "v" for a in cv for b in cv):
                aliased.add(g)
        # goals that stayed suspended across a step that decided (removed) a pending dif/2
        if prev_pend - set(e["pend"]):
            difgone |= set(e["susp"])
        prev_pend = set(e["pend"])
        prev_cv = e["cv"]
    # goals posted on two variables that were already aliased, after some pending dif/2 had been decided
    postalias = set()
    decided = False
    prev_pend = set()
    for i in range(1, n + 1):
        before = tab[tuple(sorted(perm[:i - 1]))]
        g = perm[i - 1]
        if v["kinds"][g - 1] in ("freeze", "when") and decided:
            written = tab[(g,)]["cv"][g - 1]
            sig = dict(zip(VARS, before["sigma"]))
            if any(a != b and sig[a] == sig[b] and sig[a]["t"] == "v" for a in written for b in written):
                postalias.add(g)
        e = tab[tuple(sorted(perm[:i]))]
        if prev_pend - set(e["pend"]):
            decided = True
        prev_pend = set(e["pend"])
    exp["segs"] = segs
    exp["aliased"] = aliased
    exp["difgone"] = difgone
    exp["postalias"] = postalias
    exp["pend"] = sorted(full["pend"])
    exp["sigma"] = [terms.from_tla(t) for t in full["sigma"]]
    exp["susp"] = sorted(full["susp"])
    exp["sols"] = sorted(v["sols"])
    return exp


def gid(c):
    """canonical log entry -> ('g', i) | ('m', i)"""
    if c[0] == 'a' and c[1][:1] in "gm" and c[1][1:].isdigit():
        return (c[1][0], int(c[1][1:]))
    return ('?', terms.show(c))


def observe(out):
    """harness result of one query -> observation dict"""
    if "panic" in out:
        return {"kind": "panic", "what": out["panic"]}
    a = out.get("a", [])
    if a == ["F"]:
        return {"kind": "fail"}
    real = [x for x in a if x != "F"]
    if len(real) != 1 or not isinstance(real[0], dict) or "b" not in real[0]:
        return {"kind": "other", "what": a}
    b = real[0]["b"]
    try:
        log = [gid(t) for t in list_items(terms.from_h(b["L"]))]
        s = terms.from_h(b["S"])
        gr = []
        for it in list_items(terms.from_h(b["Gr"])):
            code, l2 = it[2]
            gr.append((code[1], [gid(t) for t in list_items(l2)]))
        return {"kind": "ok", "log": log, "S": s, "gr": gr}
    except Exception as ex:  # unexpected answer shape
        return {"kind": "other", "what": "%r / %r" % (a, ex)}


def list_items(t):
    items = []
    while t[0] == 'c' and t[1] == '.' and len(t[2]) == 2:
        items.append(t[2][0])
        t = t[2][1]
    return items


def compare(v, perm, exp, obs):
    """yield (kind, goal index or None, message) for every disagreement between spec and observation"""
    if obs["kind"] in ("panic", "other"):
        yield ("abnormal", None, str(obs.get("what")))
        return
    if not exp["sat"]:
        if obs["kind"] != "fail":
            yield ("outcome-should-fail", None, "the steps are unsatisfiable but the query succeeded")
        return
    if obs["kind"] == "fail":
        yield ("outcome-should-succeed", None, "the steps are satisfiable but the query failed")
        return
    # bindings
    got = list_items(obs["S"])
    if len(got) != 3 or not terms.variant(terms.mk_list(exp["sigma"]), terms.mk_list(got)):
        yield ("bindings", None, "expected %s got %s" % ([terms.show(t) for t in exp["sigma"]], [terms.show(t) for t in got]))
    # wake-ups during the posting phase, by segment (entries before marker m_i belong to step i)
    segs = [[] for _ in perm]
    cur = 0
    bad = False
    for kind, i in obs["log"]:
        if kind == 'm':
            if i != cur + 1:
                bad = True
            cur = i
        elif kind == 'g':
            if cur < len(perm):
                segs[cur].append(i)
            else:
                bad = True
        else:
            bad = True
    if bad or cur != len(perm):
        yield ("log-shape", None, "markers out of order in %r" % (obs["log"],))
        return
    goals = [i for i, k in enumerate(v["kinds"], 1) if k in ("freeze", "when")]
    for g in goals:
        expected_step = [j for j, sg in enumerate(exp["segs"]) if g in sg]
        got_steps = [j for j, sg in enumerate(segs) for x in sg if x == g]
        if len(got_steps) > 1:
            yield ("ran-twice", g, "ran %d times (steps %s), expected %s" % (len(got_steps), got_steps, expected_step or "not yet"))
        elif expected_step and not got_steps:
            yield ("not-run", g, "wake condition true after step %d but the goal has not run" % (expected_step[0] + 1))
        elif got_steps and not expected_step:
            yield ("ran-early", g, "ran in step %d although its wake condition is not true" % (got_steps[0] + 1))
        elif got_steps and got_steps != expected_step:
            yield ("ran-at-wrong-step", g, "ran in step %d, wake condition became true in step %d" % (got_steps[0] + 1, expected_step[0] + 1))
    # residue, semantically
    codes = sorted(c for c, _ in obs["gr"])
    if len(set(codes)) != len(codes):
        yield ("residue-duplicate", None, "a grounding succeeded more than once: %s" % codes)
    sc, se = set(codes), set(exp["sols"])
    if sc - se:
        yield ("residue-too-weak", None, "groundings accepted although they violate the constraints: %s" % sorted(sc - se))
    if se - sc:
        yield ("residue-too-strong", None, "solutions rejected by the residual constraints: %s" % sorted(se - sc))
    # suspended goals after complete grounding: each must run exactly once (and no other goal again)
    for code, ids in obs["gr"]:
        if code not in se:
            continue
        ran = sorted(i for k, i in ids if k == 'g')
        if any(k != 'g' for k, _ in ids):
            yield ("log-shape", None, "unexpected log entry after grounding %d: %r" % (code, ids))
            break
        if ran != exp["susp"]:
            for g in goals:
                n = ran.count(g)
                want = 1 if g in exp["susp"] else 0
                if n > want and n > 1:
                    yield ("ran-twice", g, "after grounding %d the suspended goal ran %d times" % (code, n))
                elif n > want:
                    yield ("ran-again", g, "after grounding %d a goal that had already run ran again" % code)
                elif n < want:
                    yield ("not-run", g, "after grounding %d the suspended goal did not run" % code)
            break


def ident_rep(v):
    """identical-goals variant: goal index -> index of the first step of the scenario that is the same catalogue step, for the
    scenarios that post the same freeze/2 step twice (and use no when/2); None if the scenario has no such pair"""
    q, kinds = v["q"], v["kinds"]
    if "when" in kinds:
        return None
    rep = {i: min(j for j in range(1, len(q) + 1) if q[j - 1] == q[i - 1]) for i in range(1, len(q) + 1)}
    if not any(kinds[i - 1] == "freeze" and rep[i] != i for i in rep):
        return None
    return rep


def ident_query(v, perm, rep):
    qt = query_text(v, perm)
    for i in sorted(rep, reverse=True):
        if rep[i] != i and v["kinds"][i - 1] == "freeze":
            if "'log'('g%d')" % i not in qt:
                raise common.ToolError("goal token g%d not found in %s" % (i, qt))
            qt = qt.replace("'log'('g%d')" % i, "'log'('g%d')" % rep[i])
    return qt


def compare_ident(v, perm, exp, obs, rep):
    """the same scenario with IDENTICAL goal terms in the repeated freeze/2 steps: every posted goal still runs exactly once,
    so the number of log entries per step (and after every grounding) is that of the distinguishable version"""
    if obs["kind"] in ("panic", "other"):
        yield ("abnormal", None, str(obs.get("what")))
        return
    if not exp["sat"] or obs["kind"] == "fail":
        if exp["sat"] != (obs["kind"] != "fail"):
            yield ("ident-outcome", None, "satisfiable=%s but the query %s" % (exp["sat"], obs["kind"]))
        return
    segs = [[] for _ in perm]
    cur = 0
    for kind, i in obs["log"]:
        if kind == 'm':
            cur = i
        elif kind == 'g' and cur < len(perm):
            segs[cur].append(i)
    want = [sorted(rep[g] for g in sg) for sg in exp["segs"]]
    got = [sorted(sg) for sg in segs]
    if want != got:
        yield ("ident-wakeups", None, "goals run per step: expected %s got %s" % (want, got))
    se = set(exp["sols"])
    wsusp = sorted(rep[g] for g in exp["susp"])
    for code, ids in obs["gr"]:
        if code in se:
            ran = sorted(i for k, i in ids if k == 'g')
            if ran != wsusp:
                yield ("ident-after-grounding", None, "after grounding %d: expected %s got %s" % (code, wsusp, ran))
                break


def signature(v, perm, exp, kind, g):
    order = ", ".join(terms.tla_text(v["goals"][s - 1]) for s in perm)
    if g is None:
        return "%s order=[%s]" % (kind, order)
    al = 1 if g in exp.get("aliased", ()) else 0
    trig = "dif-decided" if g in exp.get("difgone", ()) else "posted-on-aliased" if g in exp.get("postalias", ()) else "other"
    cvars = len(table_of(v)[(g,)]["cv"][g - 1])      # number of variables in the wake condition as written
    return "%s kind=%s aliased=%d cvars=%d trigger=%s goal=%s order=[%s]" % (
        kind, v["kinds"][g - 1], al, cvars, trig, terms.tla_text(v["goals"][g - 1]), order)


def coverage_class(v, perm, exp):
    kinds = tuple(v["kinds"][s - 1] for s in perm)
    if not exp["sat"]:
        return (kinds, "unsat")
    woke = tuple(len(s) for s in exp["segs"])
    return (kinds, "sat", woke, len(exp["susp"]), len(exp["sols"]) > 0)


def run(tier):
    rep = Report(PROP, tier, META["level"])
    rep.rule = ("TLC enumerates every multiset of <= 4 steps from the catalogue (dif/2 between variables, atoms and compounds; "
                "freeze/2; when/2 with ground, nonvar, ',' and ';' conditions; unifications X=a, X=Y, Y=b, X=f(Y), Y=f(Z), ...) that "
                "does not need the occurs check; every distinct posting order of each multiset is one replayed query. "
                "distinct = (step kinds in posting order, satisfiable?, number of goals woken per step, goals still suspended, "
                "ground solutions exist?)")
    res, vecs = common.generate("MC_C26", "MC_C26_%s.cfg" % tier, workers=8, timeout=3000,
                                key=lambda v: json.dumps(v["q"]))
    rep.add_tlc(res)
    if not vecs:
        raise common.ToolError("no vectors generated")
    useq = vecs[0]["u"]
    setup = setup_text(useq)
    cases = []      # (vector index, perm, query text)
    for vi, v in enumerate(vecs):
        if len(v["table"]) != 2 ** len(v["q"]):
            raise common.ToolError("incomplete subset table in vector %r" % (v["q"],))
        for perm in orders(v["q"]):
            cases.append((vi, perm, query_text(v, perm), None))
        rep_i = ident_rep(v)
        if rep_i:
            for perm in orders(v["q"]):
                cases.append((vi, perm, ident_query(v, perm, rep_i), rep_i))
    B = 400
    jobs = []
    for bi in range(0, len(cases), B):
        steps = [{"consult": setup}] + [{"q": c[2], "max": 3} for c in cases[bi:bi + B]]
        jobs.append({"id": bi, "steps": steps, "timeout": 600, "fresh": True})
    results = run_jobs(jobs, workers=8, job_timeout=600)
    nsat = nunsat = nwake = nresid = 0
    for job in jobs:
        bi = job["id"]
        r = results.get(bi, {"crash": "missing"})
        if "crash" in r:
            # a stalled batch: find the culprit by re-running its queries one per job
            singles = [{"id": k, "steps": [{"consult": setup}, {"q": c[2], "max": 3}], "timeout": 60, "fresh": True}
                       for k, c in enumerate(cases[bi:bi + B])]
            sres = run_jobs(singles, workers=8, job_timeout=60)
            outs = []
            for k in range(len(singles)):
                sr = sres.get(k, {"crash": "missing"})
                outs.append({"panic": "no answer: " + sr["crash"]} if "crash" in sr else sr["res"][1])
        else:
            outs = r["res"][1:]
        for k, c in enumerate(cases[bi:bi + B]):
            vi, perm, qt, rep_i = c
            v = vecs[vi]
            exp = expectation(v, perm)
            obs = observe(outs[k])
            if rep_i:
                rep.case(("identical-goals",) + tuple(v["kinds"][x - 1] for x in perm))
                for kind, g, msg in compare_ident(v, perm, exp, obs, rep_i):
                    rep.violation(signature(v, perm, exp, kind, g),
                                  {"vector": v, "perm": list(perm), "query": qt, "kind": kind, "message": msg, "observed": outs[k]})
                continue
            rep.case(coverage_class(v, perm, exp))
            if exp["sat"]:
                nsat += 1
                nwake += sum(len(s) for s in exp["segs"])
                nresid += 1 if (exp["susp"] or exp["pend"]) else 0
            else:
                nunsat += 1
            for kind, g, msg in compare(v, perm, exp, obs):
                rep.violation(signature(v, perm, exp, kind, g),
                              {"vector": v, "perm": list(perm), "query": qt, "kind": kind, "message": msg,
                               "observed": outs[k]})
    for vi in range(0, len(vecs), max(1, len(vecs) // 5)):
        v = vecs[vi]
        perm = next(orders(v["q"]))
        exp = expectation(v, perm)
        rep.sample({"query": query_text(v, perm), "sat": exp["sat"], "woken_per_step": exp.get("segs"),
                    "suspended": exp.get("susp"), "solutions": len(exp.get("sols", []))})
    rep.traces = len(cases)
    rep.exhaustive = True
    rep.extra = {"scenarios": len(vecs), "orders_replayed": len(cases), "satisfiable_orders": nsat,
                 "unsatisfiable_orders": nunsat, "wake_events_checked": nwake, "orders_with_nontrivial_residue": nresid}
    rep.assumptions = ["TLC; the layer-A theorems SolvedSound and the confluence invariant are checked in the same run",
                       "copy_term/3, findall/3, bb_get/2, bb_b_put/2 and the LeafAnswer projection of the harness",
                       "finite trees (no scenario needs the occurs check); universe {a,b,f(a),f(b)} for the semantic residue comparison"]
    return rep.finish()


def replay(path):
    d = json.load(open(path))
    det = d["detail"]
    v, perm = det["vector"], tuple(det["perm"])
    qt = query_text(v, perm)
    r = run_jobs([{"id": 0, "steps": [{"consult": setup_text(v["u"])}, {"q": qt, "max": 3}], "fresh": True, "timeout": 60}], workers=1)
    out = r[0]["res"][1] if "res" in r[0] else {"panic": r[0].get("crash")}
    exp = expectation(v, perm)
    found = [(k, g, m) for k, g, m in compare(v, perm, exp, observe(out))]
    print(json.dumps({"query": qt, "expected": {k: (sorted(x) if isinstance(x, set) else x) for k, x in exp.items()},
                      "observed": out, "disagreements": found}, indent=1, default=str))
    return 1 if found else 0
