"""C04 - Arithmetic comparison is exact and self-consistent."""
import json
import math
from fractions import Fraction

from lib import common, terms
from lib.common import Report, run_tlc, tlc_ok, run_jobs

PROP = "C04"

META = {
    "level": "model_checking",
    "text": "The ordering of numbers is specified in TLA+ (ArithFloat!NumCmp over BigInt/Float64: exact on integers and "
            "rationals; when one side is a float the other is first rounded to binary64, ties to even). TLC decides on the "
            "specification, for every ordered pair of an alphabet of integers (around 2^53, 2^55, 2^63, 2^64, beyond the double "
            "range), rationals and doubles (zeros, subnormals, 1+-ulp, 2^53 neighbours, max), trichotomy, the mutual consistency "
            "of the six relations and the mirror law, and prints the expected truth value of each relation; every pair is "
            "replayed against the real =:=, =\\=, <, =<, >, >= with operands produced at run time by is/2 in every available "
            "representation (small integer, boxed integer, rational with denominator 1, rational, float), as compiled clause "
            "body goals and with the expressions inline. Bounded-exhaustive conformance over the alphabet, not proof.",
    "note": "Trusted: TLC, BigInt.tla/Float64.tla (sanity theorems model-checked in the same run and cross-checked against Python "
            "fractions/floats), the LeafAnswer projection of the harness. Doubles are built at run time from integers by exact "
            "power-of-two scalings and read back: the operand's bit pattern is verified before the comparison is judged. "
            "An integer or rational beyond the double range is taken to convert to an infinity of its sign for the comparison.",
    "technique": "TLA+ value-level specification (BigInt, Float64) enumerated by TLC; vectors replayed into the real comparison predicates",
}

RELS = ["=:=", "=\\=", "<", "=<", ">", ">="]
FIXNUM_LIMIT = 1 << 55


# ------------------------------------------------------------------------------------------------
# rendering of specification numbers as run-time Prolog expressions (no float literal is ever read)
# ------------------------------------------------------------------------------------------------

def lit(n):
    return str(n) if n >= 0 else "(%d)" % n


def float_expr(s, m, e):
    """(-1)^s * m * 2^e with m < 2^53, built from integers by exact IEEE steps: float/1 of an integer below 2^53
    and multiplications/divisions by powers of two whose results are representable by construction."""
    if m == 0:
        body = "float(0)"
    elif e >= 0:
        body = "float(%d)" % m if e == 0 else "float(%d)*float(2^%d)" % (m, e)
    else:
        k = -e
        if k <= 1000:
            body = "float(%d)/float(2^%d)" % (m, k)
        else:
            body = "float(%d)/float(2^1000)/float(2^%d)" % (m, k - 1000)
    return "-(%s)" % body if s else "(%s)" % body


def forms(num):
    """all run-time representations of a table entry: list of (form name, expression text)"""
    t = num["t"]
    if t == "i":
        v = int(num["n"])
        out = [("lit", lit(v))]
        if abs(v) < FIXNUM_LIMIT:
            out.append(("boxed", "(2^60-2^60+%s)" % lit(v)))      # a small value held in a boxed (arena) integer
        out.append(("rdiv1", "(%s rdiv 1)" % lit(v)))              # the same value held as a rational
        return out
    if t == "r":
        return [("rat", "(%s rdiv %s)" % (lit(int(num["n"])), lit(int(num["d"]))))]
    return [("flt", float_expr(num["s"], int(num["n"]), num["e"]))]


def bits_of(num):
    return int(num["bits"])


def py_bits(s, m, e):
    x = math.ldexp(float(m), e)
    b = terms.float_bits(x)
    return b | (1 << 63) if s else b


def frac(num):
    if num["t"] == "f":
        v = Fraction(int(num["n"])) * (Fraction(2) ** num["e"])
        return -v if num["s"] else v
    return Fraction(int(num["n"]), int(num["d"]))


def to_float(fr):
    try:
        return float(fr)
    except OverflowError:
        return math.inf if fr > 0 else -math.inf


def py_cmp(a, b):
    """independent cross-check of the TLA+ oracle (sanity of the specification; a mismatch is a tool error)"""
    if a["t"] != "f" and b["t"] != "f":
        x, y = frac(a), frac(b)
    else:
        x, y = to_float(frac(a)), to_float(frac(b))
    return (x > y) - (x < y)


def cls(num):
    t = num["t"]
    if t == "i":
        v = abs(int(num["n"]))
        for name, lim in (("0", 1), ("<2^53", 1 << 53), ("<2^55", 1 << 55), ("<2^64", 1 << 64), ("<2^1024", 1 << 1024)):
            if v < lim:
                return "i" + name
        return "i>=2^1024"
    if t == "r":
        v = abs(frac(num))
        if v < Fraction(1, 1 << 1074):
            return "r<minsub"
        if int(num["d"]) == 1 or int(num["n"]) % int(num["d"]) == 0:
            return "r-integral"
        return "r-big" if max(abs(int(num["n"])), int(num["d"])) >= (1 << 53) else "r-small"
    m, e = int(num["n"]), num["e"]
    if m == 0:
        return "f0"
    if m < (1 << 52):
        return "f-subnormal"
    if e + 53 > 1020:
        return "f-huge"
    if e > 0:
        return "f>2^53"
    return "f-normal"


def show(num):
    if num["t"] == "i":
        return num["n"]
    if num["t"] == "r":
        return "%s/%s" % (num["n"], num["d"])
    return "0x%016x" % bits_of(num)


MINSUB = Fraction(1, 1 << 1074)
MAXD = Fraction(((1 << 53) - 1) << 971)


def rne_bits(v, bits):
    """the positive Fraction v rounded to `bits` significant bits, ties to even"""
    n, d = v.numerator, v.denominator
    sh = n.bit_length() - d.bit_length() - bits
    while True:
        q, r = divmod(n << max(0, -sh), d << max(0, sh))
        if q.bit_length() == bits:
            break
        sh += 1 if q.bit_length() > bits else -1
    if 2 * r > (d << max(0, sh)) or (2 * r == (d << max(0, sh)) and q & 1):
        q += 1
    return Fraction(q) * (Fraction(2) ** sh)


def dr_sensitive(fr):
    """input class 'rat-double-rounding': a rational whose quotient num/den has, aligned on the bit lengths of numerator and
    denominator, 54 significant bits and for which rounding to 54 bits first changes the result of rounding to 53 bits"""
    v = abs(fr)
    if v == 0:
        return False
    n, d = v.numerator, v.denominator
    if v < Fraction(2) ** (n.bit_length() - d.bit_length()):
        return False
    return rne_bits(rne_bits(v, 54), 53) != rne_bits(v, 53)


def conv_tag(na, fa, nb, fb):
    """names the class of the failing input when an operand held as a rational lies where no double is near:
    strictly between half the least subnormal and the least subnormal, or strictly between the largest double and
    the overflow threshold (largest double + half an ulp)"""
    tags = []
    for num, form in ((na, fa), (nb, fb)):
        if form in ("rat", "rdiv1"):
            v = abs(frac(num))
            if MINSUB / 2 < v < MINSUB:
                tags.append("rat-below-minsub")
            elif MAXD < v < MAXD + (1 << 970):
                tags.append("rat-above-max")
            elif MINSUB * (1 << 52) <= v <= MAXD and dr_sensitive(v):
                tags.append("rat-double-rounding")
    return "+".join(sorted(set(tags))) or "none"


CLAUSE = ("t(A,B,[R1,R2,R3,R4,R5,R6]) :- (A =:= B -> R1 = 1 ; R1 = 0), (A =\\= B -> R2 = 1 ; R2 = 0), "
          "(A < B -> R3 = 1 ; R3 = 0), (A =< B -> R4 = 1 ; R4 = 0), (A > B -> R5 = 1 ; R5 = 0), (A >= B -> R6 = 1 ; R6 = 0).\n")


def q_clause(ea, eb):
    return "catch((A is %s, B is %s, t(A,B,L)), error(E,_), true)." % (ea, eb)


def q_inline(ea, eb):
    parts = ["(%s %s %s -> R%d = 1 ; R%d = 0)" % (ea, rel, eb, k + 1, k + 1) for k, rel in enumerate(RELS)]
    return "catch((%s, L = [R1,R2,R3,R4,R5,R6]), error(E,_), true)." % ", ".join(parts)


def same_num(got, num):
    """does the harness term denote exactly the table entry (floats by bits, zeros of either sign alike)"""
    if num["t"] in ("i", "r"):        # the representation (integer / rational) is chosen by the form; the value must be exact
        if "i" in got:
            return Fraction(int(got["i"])) == frac(num)
        if "r" in got:
            return Fraction(int(got["r"][0]), int(got["r"][1])) == frac(num)
        return False
    if "f" not in got:
        return False
    g = int(got["f"], 16)
    w = bits_of(num)
    return g == w or ((g << 1) & ((1 << 64) - 1)) == 0 and ((w << 1) & ((1 << 64) - 1)) == 0


def judge(out, exp, na, nb, check_operands):
    """-> (ok, got description)"""
    if "panic" in out:
        return False, "panic: %s" % out["panic"]
    a = out.get("a", [])
    if len(a) != 1 or not isinstance(a[0], dict) or "b" not in a[0]:
        return False, "answers=%s" % json.dumps(a)[:200]
    b = a[0]["b"]
    if "E" in b and "L" not in b:
        return False, "error %s" % terms.show(terms.from_h(b["E"]))
    if "L" not in b or "l" not in b["L"]:
        return False, "bindings=%s" % json.dumps(b)[:200]
    try:
        got = [int(x["i"]) for x in b["L"]["l"]]
    except Exception:
        return False, "bindings=%s" % json.dumps(b)[:200]
    if check_operands:
        if "A" not in b or not same_num(b["A"], na):
            return False, "operand A was not constructed as intended: %s" % json.dumps(b.get("A"))
        if "B" not in b or not same_num(b["B"], nb):
            return False, "operand B was not constructed as intended: %s" % json.dumps(b.get("B"))
    if got != exp:
        return False, "relations=%s" % got
    return True, "relations=%s" % got


def self_consistent(got):
    eq, ne, lt, le, gt, ge = got
    return (lt + eq + gt == 1) and le == (lt | eq) and ge == (gt | eq) and ne == 1 - eq


def run(tier):
    rep = Report(PROP, tier, META["level"])
    rep.rule = ("TLC enumerates every ordered pair of the alphabet (integers around 2^53/2^55/2^63/2^64 and beyond the double "
                "range, rationals, doubles given by sign/mantissa/exponent); for each pair the six relations are replayed for "
                "every combination of run-time representations of the operands (literal, boxed small integer, rational with "
                "denominator 1, rational, float) as compiled clause-body comparisons and, for the literal forms, with the "
                "expressions inline in the comparison. distinct = distinct (class of a, class of b, outcome, forms, context)")
    workers = 8 if tier == "quick" else 12
    san = tlc_ok(run_tlc("MC_Float64", "MC_Float64.cfg", workers=2, timeout=1800), "Float64 sanity")
    rep.add_tlc(san)
    res = tlc_ok(run_tlc("MC_C04", "MC_C04_%s.cfg" % tier, workers=workers, timeout=3600), "C04 generation")
    rep.add_tlc(res)
    table = None
    pairs = {}
    for v in res.printed():
        if "table" in v:
            table = v["table"]
        elif "i" in v:
            pairs[(v["i"], v["j"])] = v
    if not table or not pairs:
        raise common.ToolError("no vectors generated")
    n = len(table)
    if len(pairs) != n * n:
        raise common.ToolError("expected %d pairs, TLC printed %d" % (n * n, len(pairs)))
    # sanity of the specification's values against Python (rendering + oracle cross-check)
    for num in table:
        if num["t"] == "f":
            if py_bits(num["s"], int(num["n"]), num["e"]) != bits_of(num):
                raise common.ToolError("bit pattern self-check failed: %r" % (num,))
            if not int(num["n"]) < (1 << 53):
                raise common.ToolError("mantissa out of range: %r" % (num,))
    for (i, j), v in pairs.items():
        pc = py_cmp(table[i - 1], table[j - 1])
        if pc != v["c"]:
            raise common.ToolError("oracle self-check failed: %s vs %s spec=%s python=%s" % (
                show(table[i - 1]), show(table[j - 1]), v["c"], pc))
        exp = [int(bool(x)) for x in v["r"]]
        if not self_consistent(exp):
            raise common.ToolError("specification relations inconsistent: %r" % (v,))
    # cases
    fm = [forms(num) for num in table]
    cases = []   # (i, j, form a, form b, context, query)
    for (i, j) in sorted(pairs):
        for (fa, ea) in fm[i - 1]:
            for (fb, eb) in fm[j - 1]:
                cases.append((i, j, fa, fb, "clause", q_clause(ea, eb)))
        cases.append((i, j, fm[i - 1][0][0], fm[j - 1][0][0], "inline", q_inline(fm[i - 1][0][1], fm[j - 1][0][1])))
    # A panic of the code under test loses the machine (and the consulted clause): the cases after it are run again.
    outcome = {}
    pending, rnd, size = list(range(len(cases))), 0, 200
    while pending:
        batch = []
        for bi in range(0, len(pending), size):
            chunk = pending[bi:bi + size]
            steps = [{"consult": CLAUSE}, {"q": "X is float(0).", "max": 1}] + [{"q": cases[c][5], "max": 2} for c in chunk]
            batch.append(({"id": "r%d-%d" % (rnd, bi), "steps": steps, "timeout": 300, "fresh": True}, chunk))
        rs = run_jobs([jb for jb, _ in batch], workers=workers, job_timeout=300)
        pending = []
        crashed = False
        for jb, chunk in batch:
            r = rs.get(jb["id"], {"crash": "missing"})
            if "crash" in r:
                if len(chunk) == 1:
                    outcome[chunk[0]] = {"panic": "worker process %s" % r["crash"]}
                else:
                    pending += chunk
                    crashed = True
                continue
            outs = r["res"][2:]
            for pos, c in enumerate(chunk):
                out = outs[pos] if pos < len(outs) else {"panic": "no result"}
                outcome[c] = out
                if "panic" in out:
                    pending += chunk[pos + 1:]
                    break
        rnd += 1
        if crashed:
            size = max(1, size // 8)
        if rnd > 200:
            raise common.ToolError("replay does not converge (more than 200 rounds of panics/crashes)")
    nsamp = 0
    for c, case in enumerate(cases):
        i, j, fa, fb, ctx, q = case
        na, nb = table[i - 1], table[j - 1]
        v = pairs[(i, j)]
        exp = [int(bool(x)) for x in v["r"]]
        out = outcome.get(c, {"panic": "no result"})
        rep.case((cls(na), cls(nb), v["c"], fa, fb, ctx))
        ok, got = judge(out, exp, na, nb, ctx == "clause")
        if not ok:
            kind = "%s-%s" % (na["t"], nb["t"])
            sig = "cmp conv=%s kind=%s a=%s b=%s forms=%s/%s ctx=%s expected=%s got=%s" % (
                conv_tag(na, fa, nb, fb), kind, show(na), show(nb), fa, fb, ctx, exp, got)
            rep.violation(sig, {"a": na, "b": nb, "forms": [fa, fb], "context": ctx, "query": q,
                                "expected": exp, "got": got})
        elif nsamp < 5 and (i * 7 + j * 13) % 1601 == 0:
            nsamp += 1
            rep.sample({"a": show(na), "b": show(nb), "forms": [fa, fb], "context": ctx, "query": q[:300], "relations": exp})
    if not rep.samples:
        c = cases[len(cases) // 2]
        rep.sample({"query": c[5][:300], "expected": pairs[(c[0], c[1])]["r"]})
    rep.exhaustive = True
    rep.traces = len(pairs)
    rep.extra["alphabet"] = {"size": n, "integers": sum(1 for x in table if x["t"] == "i"),
                             "rationals": sum(1 for x in table if x["t"] == "r"),
                             "doubles": sum(1 for x in table if x["t"] == "f")}
    rep.assumptions = [
        "TLC, BigInt.tla and Float64.tla (sanity theorems checked in this run; every expected outcome cross-checked with Python fractions/floats)",
        "the LeafAnswer projection of the harness (integers as decimal strings, floats as bit patterns)",
        "doubles are built at run time as float(M) scaled by float(2^K) (exact IEEE steps); the constructed operand is read back and its bit pattern compared with the specification's before the comparison is judged",
        "an integer/rational beyond the double range converts, for comparison with a float, to the infinity of its sign",
        "-0.0 and 0.0 are one value for the comparison; the machine's float table keeps only one zero",
    ]
    return rep.finish()


def replay(path):
    d = json.load(open(path))
    det = d["detail"]
    jobs = [{"id": 0, "fresh": True, "steps": [{"consult": CLAUSE}, {"q": "X is float(0).", "max": 1}, {"q": det["query"], "max": 2}]}]
    r = run_jobs(jobs, workers=1, job_timeout=120)
    out = r[0]["res"][2] if "res" in r[0] else r[0]
    ok, got = judge(out, det["expected"], det["a"], det["b"], det["context"] == "clause")
    print(json.dumps({"query": det["query"], "expected": det["expected"], "got": got, "holds": ok, "raw": out}, indent=1, default=str))
    return 0 if ok else 1
