"""C07 - Compiled programs compute ISO SLD-resolution answers."""
import json
from lib import common, terms
from lib.common import Report, run_tlc, tlc_ok, run_jobs, generate
from lib.prolog_replay import Prog, features

PROP = "C07"
META = {
    "level": "model_checking",
    "text": "An abstract ISO machine (spec/Prolog.tla: goal stack with cut barriers, choice points as store/continuation "
            "snapshots, catch/throw, findall collectors, logical update view) is model-checked by TLC (machine invariants at "
            "every step) on every program of a small-scope grammar (exhaustive) and on randomly constructed deeper programs "
            "(simulation); each finished behaviour (program, query, answer sequence, ball) is replayed against the real "
            "compiler+WAM through consult + run_query and compared answer by answer up to variable renaming.",
    "note": "Trusted: TLC; the abstract machine as the reading of ISO 7.7/7.8; the canonical renderer (functional notation) "
            "and LeafAnswer projection. Programs that create cyclic terms or exceed the step bound in the spec are not emitted. "
            "Whether a last answer leaves a choice point (trailing 'false') is unspecified and ignored.",
    "technique": "TLA+ abstract machine explored by TLC; behaviours replayed into the real engine (spec -> impl)",
}

HELPERS = """:- use_module(library(iso_ext)).
q(a). q(b).
t(1). t(2). t(3).
r(a,1). r(b,2). r(c,3).
u(X,Y) :- q(X), r(X,Y).
v(_).
w(X,Y) :- t(1), X = a, Y = second.
app([],X,X).
app([H|T],Y,[H|R]) :- app(T,Y,R).
len([],0).
len([H|T],N) :- len(T,M), N is M+1.
"""
RENAME = [("p", 1), ("p2", 2), ("tp", 1)]
MAXANS = 12


def make_jobs(vecs, batch=120):
    jobs, progs = [], {}
    for bi in range(0, len(vecs), batch):
        steps = [{"consult": HELPERS}]
        ids = []
        for j, v in enumerate(vecs[bi:bi + batch]):
            pr = Prog(v, "%d" % j, RENAME)
            progs[(bi, j)] = pr
            steps.append({"consult": pr.text})
            steps.append({"q": pr.qtext, "max": MAXANS + 1})
        jobs.append({"id": bi, "steps": steps, "timeout": 60, "fresh": True})
    return jobs, progs


def run(tier):
    rep = Report(PROP, tier, "model_checking")
    rep.rule = ("exhaustive: every 1- and 2-clause definition of p/1 from the clause grammar of MC_C07 (heads x bodies with "
                "conjunction, disjunction, if-then-else, negation, cut, call/N, findall, catch/throw, type tests, arithmetic, "
                "helper predicates) in both clause orders; simulation: random programs of 1-4+0-3 clauses with bodies of depth <= 3. "
                "distinct = distinct sets of control constructs/builtins used by program+query")
    quick = tier == "quick"
    res, vecs = generate("MC_C07", "MC_C07_exh_%s.cfg" % tier, workers=8 if quick else 14, timeout=3000)
    rep.add_tlc(res)
    sims = common.simulate_parallel("MC_C07", "MC_C07_sim_%s.cfg" % tier, procs=6 if quick else 14,
                                    num=300 if quick else 6000, depth=420, timeout=3000 if quick else 1500)     # thorough: a time box
    seen = set(json.dumps(v, sort_keys=True) for v in vecs)
    for sim in sims:
        tlc_ok(sim, "C07 simulation")
        rep.add_tlc(sim)
        for v in sim.printed():
            k = json.dumps(v, sort_keys=True)
            if k not in seen:
                seen.add(k)
                vecs.append(v)
    if not vecs:
        raise common.ToolError("no vectors")
    jobs, progs = make_jobs(vecs)
    results = run_jobs(jobs, workers=8, job_timeout=60)
    for job in jobs:
        bi = job["id"]
        r = results.get(bi, {"crash": "missing"})
        n = (len(job["steps"]) - 1) // 2
        if "crash" in r:
            # find the culprit by re-running the batch one program at a time
            single = []
            for j in range(n):
                single.append({"id": "%d-%d" % (bi, j), "fresh": True, "timeout": 20,
                               "steps": [job["steps"][0], job["steps"][1 + 2 * j], job["steps"][2 + 2 * j]]})
            rs = run_jobs(single, workers=8, job_timeout=20)
            for j in range(n):
                rr = rs.get("%d-%d" % (bi, j), {"crash": "missing"})
                pr = progs[(bi, j)]
                rep.case(",".join(sorted(features(terms.from_tla({"t": "c", "n": "prog", "i": 0, "a": [c["b"] for c in pr.vec["prog"]]})))))
                if "crash" in rr:
                    rep.violation("crash(%s) program=%s query=%s" % (rr["crash"], pr.text.strip(), pr.qtext),
                                  {"vector": pr.vec, "crash": rr["crash"]})
                else:
                    d = pr.compare(rr["res"][2], MAXANS)
                    if d:
                        rep.violation("program=%s query=%s: %s" % (pr.text.strip().replace("\n", " "), pr.qtext, d),
                                      {"vector": pr.vec, "diff": d})
            continue
        lost_from = None      # after a panic the harness starts a new machine: the helper predicates are gone for the rest of the batch
        for j in range(n):
            pr = progs[(bi, j)]
            out = r["res"][2 + 2 * j]
            if lost_from is not None:
                continue
            if isinstance(out, dict) and "panic" in out:
                lost_from = j + 1
            fs = set()
            for c in pr.vec["prog"]:
                features(terms.from_tla(c["b"]), fs)
                features(terms.from_tla(c["h"]), fs)
            features(terms.from_tla(pr.vec["q"]), fs)
            rep.case(",".join(sorted(fs)) + "|" + pr.vec["status"])
            d = pr.compare(out, MAXANS)
            if d:
                rep.violation("program=%s query=%s: %s" % (pr.text.strip().replace("\n", " "), pr.qtext, d),
                              {"vector": pr.vec, "diff": d, "got": out})
        if lost_from is not None and lost_from < n:
            single = [{"id": "%d-%d" % (bi, j), "fresh": True, "timeout": 20,
                       "steps": [job["steps"][0], job["steps"][1 + 2 * j], job["steps"][2 + 2 * j]]} for j in range(lost_from, n)]
            rs = run_jobs(single, workers=8, job_timeout=20)
            for j in range(lost_from, n):
                rr = rs.get("%d-%d" % (bi, j), {"crash": "missing"})
                pr = progs[(bi, j)]
                rep.case("rerun-after-panic|" + pr.vec["status"])
                if "crash" in rr:
                    rep.violation("crash(%s) program=%s query=%s" % (rr["crash"], pr.text.strip(), pr.qtext),
                                  {"vector": pr.vec, "crash": rr["crash"]})
                else:
                    d = pr.compare(rr["res"][2], MAXANS)
                    if d:
                        rep.violation("program=%s query=%s: %s" % (pr.text.strip().replace("\n", " "), pr.qtext, d),
                                      {"vector": pr.vec, "diff": d})
    step = max(1, len(vecs) // 5)
    for v in vecs[::step]:
        pr = Prog(v, "0", RENAME)
        rep.sample({"program": pr.text, "query": pr.qtext, "expected_answers": [terms.show(a) for a in pr.expected_answers()],
                    "status": v["status"]})
    rep.traces = len(vecs)
    rep.exhaustive = False
    rep.extra["exhaustive_part"] = "all programs of the small-scope grammar (MC_C07 Mode=exh) were enumerated and replayed"
    rep.assumptions = ["TLC", "spec/Prolog.tla as the reading of ISO 7.7/7.8", "canonical renderer and LeafAnswer projection"]
    return rep.finish()


def replay(path):
    d = json.load(open(path))
    v = d["detail"]["vector"]
    pr = Prog(v, "0", RENAME)
    r = run_jobs([{"id": 0, "fresh": True, "steps": [{"consult": HELPERS}, {"consult": pr.text}, {"q": pr.qtext, "max": MAXANS + 1}]}], workers=1)
    print(pr.text, pr.qtext)
    print(json.dumps(r[0], indent=1)[:3000])
    print("diff:", pr.compare(r[0]["res"][2], MAXANS) if "res" in r[0] else r[0])
    return 0
