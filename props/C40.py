"""C40 - Inference-limited execution is deterministic and faithful (trace validation with inferred costs)."""
import json
import os
import re

from lib import common, terms
from lib.common import Report, run_tlc, tlc_ok, run_jobs
from lib.prolog_replay import clause_text, rename_goal, features

PROP = "C40"

META = {
    "level": "model_checking",
    "text": "The observable law of call_with_inference_limit/3 is specified in TLA+ (spec/InferLimit.tla): a goal with solutions "
            "s1..sk has unknown nondecreasing costs c1..ck and a final cost c_end; with limit L the call yields si (R = true, or ! "
            "for a deterministic end) while ci =< L, then R = inference_limit_exceeded exactly once and nothing after it, or the "
            "goal's own failure/exception once c_end =< L; a non-terminating goal is always cut off. TLC (MC_C40) enumerates the "
            "goals (catalogue of recursive templates on bounded inputs, their library twins, one-clause programs of the C07 "
            "grammar), computes each goal's solution sequence with the abstract machine spec/Prolog.tla and model-checks that the "
            "tractable form of the law equals its declarative definition. The driver runs every (goal, limit) twice over a grid "
            "that contains every change point (full grid or bisection) and writes one trace event per goal; TLC (Trace_C40) "
            "infers the costs: an event is rejected iff no cost assignment explains all its runs, i.e. iff the implementation "
            "returned wrong solutions, was non-deterministic or non-monotone in L. Nested calls: the definition of "
            "call_with_inference_limit(G, Li, R1) as a goal is derived by the spec from the outcome of (G, Li) run alone (the inner "
            "call behaves as when run alone), the outer outcome must again be explained by costs, and in (inner, H) every solution "
            "must cost at least what H costs alone (the outer count is not disturbed by the inner one).",
    "note": "Trusted: TLC, spec/Prolog.tla as the source of the solution sequences, the canonical renderer and the LeafAnswer "
            "projection of the harness. The notion of 'inference' is not specified: only the existence of consistent costs is "
            "asserted. Goals of the families built on loop :- loop are taken as non-terminating (the abstract machine reaches its "
            "step bound on them). Bindings of the goal's variables in an inference_limit_exceeded answer are not asserted. Limits "
            "are bounded by 10^6 (TLC integers). Each run demonstrates the binding by corrupting recorded outcomes.",
    "technique": "TLA+ law with unlogged costs; TLC-generated goals with spec-derived solution sequences; trace validation by TLC",
}

PRE = ":- use_module(library(iso_ext)).\n:- use_module(library(lists)).\n:- use_module(library(between)).\n"
EXC = "inference_limit_exceeded"
BIG = 1000000          # "unlimited" for terminating goals (their cost stays far below)
BIG_DIV = 20000        # largest limit used on goals that may not terminate
ROUT, RIN = "Rout", "Rin"
MAXANS = 60
PER_JOB = 400
TMO_MS = 1500          # a limited query normally takes < 5 ms; the limit 20000 on loop/0 a few ms
WORKERS = 6
_T0 = [0.0]


def _tick(what):
    import sys
    import time
    if os.environ.get("C40_DEBUG"):
        now = time.time()
        sys.stderr.write("[C40 %7.1fs] %s\n" % (now - (_T0[0] or now), what))
        if not _T0[0]:
            _T0[0] = now


# ------------------------------------------------------------------------------------------------
# rendering / normalising
# ------------------------------------------------------------------------------------------------

def canon(ts):
    """canonical text of a tuple of terms up to variable renaming (variables numbered by first occurrence)"""
    m = {}

    def ren(t):
        if t[0] == 'v':
            if t[1] not in m:
                m[t[1]] = "_%d" % (len(m) + 1)
            return ('v', m[t[1]])
        if t[0] == 'c':
            return ('c', t[1], tuple(ren(x) for x in t[2]))
        return t
    return terms.text(('c', 'ans', tuple(ren(t) for t in ts)))


def ball_text(t):
    """error(Formal, Context) is compared on Formal only"""
    if t[0] == 'c' and t[1] == 'error' and len(t[2]) == 2:
        return "error:" + canon([t[2][0]])
    return "ball:" + canon([t])


class Goal:
    def __init__(self, gid, kind, fam, n, text, qv, defn, cls, risky):
        self.id, self.kind, self.fam, self.n, self.text, self.qv = gid, kind, fam, n, text, qv
        self.defn, self.cls, self.risky = defn, cls, risky
        self.rin = None
        self.base = None
        self.ilim = 0
        self.hid = ""
        self.shape = ""
        self.ipos = []
        self.runs = []          # [{"lim", "items", "end", "ball"}] in execution order
        self.by_lim = {}        # lim -> first observation (exploration only)
        self.bad = 0            # runs that ended in a timeout or a panic
        self.keep = set()
        self.vec = None
        self.total = None

    def query(self, lim):
        if self.rin is None:
            return "call_with_inference_limit(%s, %d, %s)." % (self.text, lim, ROUT)
        return "call_with_inference_limit(%s, %d, %s)." % (self.text, lim, ROUT)

    def dead(self):
        return self.bad >= BAD_CAP

    def observe(self, lim, res):
        """project one harness result to the run record of InferLimit.tla"""
        items, end, ball = [], "stop", ""
        if res is None or "crash" in res:
            end, ball = "panic", "harness worker died: %s" % (res or {}).get("crash")
        elif "panic" in res:
            end, ball = "panic", str(res["panic"])
        else:
            for a in res.get("a", []):
                if a == "F":
                    break
                if a == "T":
                    items.append({"s": "?", "r1": "-", "r": "?"})
                    continue
                if "e" in a or "x" in a:
                    end = "ball"
                    t = terms.from_h(a["e"] if "e" in a else a["x"])
                    ball = ball_text(t)
                    break
                b = a.get("b", {})

                def rtext(name):
                    if name not in b:
                        return "?"
                    t = terms.from_h(b[name])
                    return t[1] if t[0] == 'a' else "?" + terms.show(t)
                rout = rtext(ROUT)
                rin = rtext(self.rin) if self.rin else "-"
                if rout == EXC:
                    items.append({"s": "", "r1": "-", "r": EXC})
                elif rin == EXC:
                    items.append({"s": "", "r1": EXC, "r": rout})
                else:
                    vals = [terms.from_h(b[v]) if v in b else ('v', v) for v in self.qv]
                    items.append({"s": canon(vals), "r1": rin, "r": rout})
            if res.get("tmo"):
                end = "timeout"
            elif res.get("capped"):
                end = "other"
        run = {"lim": lim, "items": items, "end": end, "ball": ball}
        if end in ("timeout", "panic"):
            self.bad += 1
        self.runs.append(run)
        self.by_lim.setdefault(lim, json.dumps([items, end, ball]))
        return run


# ------------------------------------------------------------------------------------------------
# vectors -> goals
# ------------------------------------------------------------------------------------------------

def build(vecs):
    prog = [v for v in vecs if v["kind"] == "prog"]
    if len(prog) != 1:
        raise common.ToolError("expected one program vector")
    lines = [clause_text(terms.from_tla(c["h"]), terms.from_tla(c["b"])) for c in prog[0]["prog"]]
    goals, templates = [], []
    k = 0
    for v in sorted((v for v in vecs if v["kind"] in ("cat", "lib", "c07")), key=lambda v: json.dumps(v, sort_keys=True)):
        q = terms.from_tla(v["libq"])
        if v["kind"] == "c07":
            k += 1
            mapping = {("p", 1): "p_%d" % k}
            cl = v["clause"][0]
            lines.append(clause_text(rename_goal(terms.from_tla(cl["h"]), mapping), rename_goal(terms.from_tla(cl["b"]), mapping)))
            q = rename_goal(q, mapping)
            gid = "c07/%d" % k
            fs = set()
            features(terms.from_tla(cl["b"]), fs)
            cls = "c07:" + ",".join(sorted(fs))
            label = clause_text(terms.from_tla(cl["h"]), terms.from_tla(cl["b"]))
        else:
            gid = "%s/%s/%d" % (v["kind"], v["fam"], v["n"])
            cls = "%s:%s" % (v["kind"], v["fam"])
            label = None
        qv = [terms.from_tla(x)[1] for x in v["qv"]]
        sols = [{"s": canon([terms.from_tla(t) for t in a]), "r1": "-"} for a in v["ans"]]
        if v["status"] == "done":
            end, ball = "fail", ""
        elif v["status"] == "exc":
            end, ball = "throw", ball_text(terms.from_tla(v["ball"]))
        elif v["status"] == "diverge":
            end, ball = "diverge", ""
        else:
            raise common.ToolError("unexpected status %r" % v["status"])
        g = Goal(gid, "plain", v["fam"], v["n"], terms.text(q), qv, {"sols": sols, "end": end, "ball": ball},
                 cls + "|" + end + "|k=%d" % min(len(sols), 4), end == "diverge")
        g.vec = v
        g.label = label or terms.text(terms.from_tla(v["libq"]))
        g.srckind = v["kind"]
        goals.append(g)
    for v in vecs:
        if v["kind"] == "nest":
            templates.append(v)
    templates.sort(key=lambda v: json.dumps(v, sort_keys=True))
    return PRE + "\n".join(lines) + "\n", goals, templates


# ------------------------------------------------------------------------------------------------
# execution
# ------------------------------------------------------------------------------------------------

BAD_CAP = 3            # after this many timeouts/panics of one goal in one batch its remaining queries are not run


def run_queries(prog, qlist, measure=False):
    """qlist: [(key, query text, lane, risky)].  Returns key -> harness result (with "_infer" when measure) or
    {"skipped": True}.  A query that times out or panics costs the session: the queries after it in the same job are
    re-queued.  Queries of a risky lane (a goal that may hang or panic) run in a job of their own; a lane that produced
    BAD_CAP bad results is not continued."""
    out = {}
    pending = list(qlist)
    bad = {}
    risky = {lane for _, _, lane, r in qlist if r}
    rounds = 0
    while pending:
        rounds += 1
        if rounds > 60:
            raise common.ToolError("C40: harness queries do not settle (%d pending)" % len(pending))
        keep = []
        for q in pending:
            if bad.get(q[2], 0) >= BAD_CAP:
                out[q[0]] = {"skipped": True}
            else:
                keep.append(q)
        lanes = {}
        safe = []
        for q in keep:
            if q[2] in risky:
                lanes.setdefault(q[2], []).append(q)
            else:
                safe.append(q)
        groups = [safe[bi:bi + PER_JOB] for bi in range(0, len(safe), PER_JOB)] + list(lanes.values())
        jobs, chunks = [], {}
        for gi, chunk in enumerate(groups):
            steps = [{"consult": prog}]
            for _, t, _, _ in chunk:
                if measure:
                    steps.append({"infer": True})
                steps.append({"q": t, "max": MAXANS, "tmo_ms": TMO_MS})
                if measure:
                    steps.append({"infer": True})
            jid = "r%d-%d" % (rounds, gi)
            jobs.append({"id": jid, "fresh": True, "steps": steps, "timeout": 300})
            chunks[jid] = chunk
        results = run_jobs(jobs, workers=WORKERS, job_timeout=300)
        nxt = []
        for job in jobs:
            chunk = chunks[job["id"]]
            r = results.get(job["id"], {"crash": "missing"})
            if "crash" in r:
                if len(chunk) == 1:
                    out[chunk[0][0]] = {"crash": r["crash"]}
                    bad[chunk[0][2]] = bad.get(chunk[0][2], 0) + 1
                else:       # find the culprit: every lane of the chunk gets its own job
                    nxt += chunk
                    risky.update(q[2] for q in chunk)
                continue
            res = r["res"]
            if not res or "ok" not in res[0]:
                raise common.ToolError("C40: consulting the program failed: %s" % (str(res[:1])[:300]))
            stride = 3 if measure else 1
            for i, (key, _, lane, _) in enumerate(chunk):
                j = 1 + i * stride + (1 if measure else 0)
                if j >= len(res):
                    nxt += chunk[i:]
                    break
                x = res[j]
                if (measure and not x.get("tmo") and "panic" not in x and "infer" in res[j - 1]
                        and j + 1 < len(res) and "infer" in res[j + 1]):
                    x["_infer"] = res[j + 1]["infer"] - res[j - 1]["infer"]
                out[key] = x
                if x.get("tmo") or "panic" in x:
                    bad[lane] = bad.get(lane, 0) + 1
                    risky.add(lane)
                    nxt += chunk[i + 1:]
                    break
        pending = nxt
    return out


def execute(prog, goals, plan, measure=False):
    """plan: [(goal, lim)] executed in this order; observations are appended to the goals"""
    ql = [((i, g.id, lim), g.query(lim), g.id, g.risky or g.bad > 0) for i, (g, lim) in enumerate(plan)]
    res = run_queries(prog, ql, measure)
    for i, (g, lim) in enumerate(plan):
        r = res.get((i, g.id, lim))
        if r is not None and r.get("skipped"):
            continue
        g.observe(lim, r)
        if measure and r and r.get("_infer", 0) > 0 and lim >= BIG_DIV:
            g.total = r["_infer"]
    _tick("executed %d queries%s" % (len(plan), " (measuring)" if measure else ""))


def explore(prog, goals, full_max):
    """choose and run the limits of every goal: pass 1 covers every change point of the outcome as a function of L"""
    plan = []
    for g in goals:
        big = BIG_DIV if g.risky else BIG
        g.big = big
        plan.append((g, big))
    execute(prog, goals, plan, measure=True)
    plan = []
    for g in goals:
        if g.risky or g.total is None or g.dead():
            grid = list(range(0, 25)) + [40, 100, 1000]
        else:
            lmax = g.total + 3
            if lmax <= full_max:
                grid = list(range(0, lmax + 1))
            else:
                st = max(2, lmax // 24)
                grid = sorted(set(list(range(0, 17)) + list(range(16, lmax, st)) + list(range(lmax - 2, lmax + 1))))
        plan += [(g, lim) for lim in grid if lim not in g.by_lim]
    execute(prog, goals, plan)
    for _ in range(40):
        plan = []
        for g in goals:
            if g.dead():
                continue
            ls = sorted(g.by_lim)
            for l1, l2 in zip(ls, ls[1:]):
                if l2 - l1 > 1 and g.by_lim[l1] != g.by_lim[l2]:
                    plan.append((g, (l1 + l2) // 2))
        if not plan:
            break
        execute(prog, goals, plan)
    else:
        raise common.ToolError("C40: bisection of change points does not settle")


def second_pass(prog, goals):
    plan = []
    for g in reversed(goals):
        lims = sorted(g.by_lim, reverse=True)
        if g.bad:           # repeat the runs that ended normally and one that did not
            isbad = lambda l: '"timeout"' in g.by_lim[l] or '"panic"' in g.by_lim[l]
            lims = [l for l in lims if not isbad(l)] + [l for l in lims if isbad(l)][-1:]
        plan += [(g, lim) for lim in lims]
    execute(prog, goals, plan)


def change_points(g):
    ls = sorted(l for l in g.by_lim if l < g.big)
    return [l2 for l1, l2 in zip(ls, ls[1:]) if g.by_lim[l1] != g.by_lim[l2]]


def inner_limit(g, ipos):
    cps = change_points(g)
    if ipos == "zero":
        return 0
    if ipos == "beyond":
        return (cps[-1] if cps else 0) + 60
    if not cps:
        return None
    if ipos == "first":
        return cps[0]
    if ipos == "mid":
        return cps[len(cps) // 2]
    if ipos == "last":
        return max(0, cps[-1] - 1)
    return None


def make_nested(goals, templates):
    byname = {(g.srckind, g.fam, g.n): g for g in goals if g.srckind in ("cat", "lib")}
    nested, seen = [], {}
    for t in templates:
        base = byname.get(("cat", t["fam"], t["n"]))
        h = byname.get(("cat", t["hfam"], t["hn"]))
        if base is None or h is None:
            raise common.ToolError("nested template refers to a goal that was not generated: %r" % (t,))
        li = inner_limit(base, t["ipos"])
        if li is None:
            continue
        key = (t["shape"], base.id, li)
        if key in seen:
            seen[key].ipos.append(t["ipos"])
            continue
        inner = "call_with_inference_limit(%s, %d, %s)" % (base.text, li, RIN)
        if t["shape"] == "nest":
            text = inner
        elif t["shape"] == "seq":
            text = "(%s, %s)" % (inner, h.text)
        else:
            text = "(%s, 'loop')" % inner
        g = Goal("%s/%s/%d" % (t["shape"], base.id, li), t["shape"], base.fam, base.n, text, base.qv,
                 {"sols": [], "end": "fail", "ball": ""}, "", base.risky or t["shape"] == "loopseq")
        g.rin, g.base, g.ilim, g.shape = RIN, base, li, t["shape"]
        g.hid = h.id if t["shape"] == "seq" else ""
        g.h = h
        g.ipos = [t["ipos"]]
        g.label = text
        g.srckind = "nested"
        seen[key] = g
        nested.append(g)
    return nested


def inner_exceeded(g):
    o = g.base.by_lim.get(g.ilim)
    return bool(o) and EXC in o


# ------------------------------------------------------------------------------------------------
# trace
# ------------------------------------------------------------------------------------------------

def event(g, hgoal):
    runs = sorted(g.runs, key=lambda r: r["lim"])
    return {"ev": "goal", "id": g.id, "kind": g.kind, "def": g.defn, "runs": runs, "m": max(r["lim"] for r in runs),
            "keep": sorted(g.keep), "ish": g is hgoal, "base": g.base.id if g.base else "", "ilim": g.ilim, "hid": g.hid}


def validate(path, what):
    tres = run_tlc("Trace_C40", "Trace_C40.cfg", workers=1, dfs=True, env_extra={"TRACE": path}, timeout=3600)
    if tres.error or tres.violated:
        raise common.ToolError("Trace_C40 failed (%s): %s\n%s" % (what, tres.error or tres.violated, "\n".join(tres.lines[-30:])))
    rej = {}
    for m in re.finditer(r'<<"REJECT", (\d+), "(\w+)">>', tres.out):
        rej[int(m.group(1))] = m.group(2)
    return tres, rej


def signature(g, verdict):
    flag = ""
    if any(r["end"] == "timeout" for r in g.runs):
        flag = " obs=timeout"
    elif any(r["end"] == "panic" for r in g.runs):
        msg = [r["ball"] for r in g.runs if r["end"] == "panic"][0]
        flag = " obs=panic[%s]" % re.sub(r"/\S*/([^/:\s]+):\d+", r"\1", msg)
    if g.kind == "plain":
        return "plain %s goal=%s verdict=%s%s" % (g.id, g.label, verdict, flag)
    return "%s base=%s goal=%s ilim=%d inner=%s verdict=%s%s" % (
        g.kind, g.base.id, g.base.label, g.ilim, "exceeded" if inner_exceeded(g) else "complete", verdict, flag)


def outline(g, cap=14):
    """outcome as a function of L, for messages"""
    out, prev = [], None
    for r in sorted(g.runs, key=lambda r: r["lim"]):
        s = "%s%s" % ("|".join("%s:%s%s" % (i["s"], ("" if i["r1"] == "-" else i["r1"] + ">"), i["r"]) for i in r["items"]),
                      "" if r["end"] == "stop" else " END=" + r["end"] + " " + r["ball"])
        if s != prev:
            out.append("L=%d: %s" % (r["lim"], s.replace(EXC, "EXCEEDED")))
        prev = s
    return out[:cap]


def run(tier):
    rep = Report(PROP, tier, META["level"])
    quick = tier == "quick"
    _tick("start")
    rep.rule = ("goals = catalogue families x sizes (0..4 quick, 0..7 thorough), their library twins, every one-clause program "
                "p(X) :- Body of the C07 body grammar, and nested scenarios (shape nest/seq/loopseq x base goal x position of the "
                "inner limit); per goal every limit 0..total+3 (full grid) or a grid refined by bisection until every change point "
                "is bracketed by adjacent limits, plus 10^6; each (goal, limit) run twice (second pass in reverse order on other "
                "machines). one evaluation = one run validated by Trace_C40; distinct = (kind, family or constructs used, way the "
                "goal ends, number of solutions) resp. (shape, base family, inner limit position, inner exceeded?)")
    law = tlc_ok(run_tlc("MC_C40", "MC_C40_law_%s.cfg" % tier, workers=4 if quick else 8, timeout=3000), "MC_C40 law")
    rep.add_tlc(law)
    _tick("law checked")
    res, vecs = common.generate("MC_C40", "MC_C40_%s.cfg" % tier, workers=6 if quick else 8, timeout=3000)
    rep.add_tlc(res)
    _tick("goals generated")
    prog, goals, templates = build(vecs)
    if not goals or not templates:
        raise common.ToolError("no goals generated")
    full_max = 48 if quick else 160

    explore(prog, goals, full_max)
    nested = make_nested(goals, templates)
    # the outcome of (base, inner limit) alone is what the nested definitions are derived from
    plan = []
    for g in nested:
        g.base.keep.add(g.ilim)
        if g.ilim not in g.base.by_lim:
            plan.append((g.base, g.ilim))
    execute(prog, goals, sorted(set(plan), key=lambda p: (p[0].id, p[1])))
    second_pass(prog, goals)
    explore(prog, nested, full_max)
    second_pass(prog, nested)

    hgoal = nested[0].h if nested else None
    order = ([hgoal] if hgoal else []) + [g for g in goals if g is not hgoal] + nested
    tdir = os.path.join(common.WORK, "c40")
    os.makedirs(tdir, exist_ok=True)
    path = os.path.join(tdir, "trace-%s-%d.ndjson" % (tier, os.getpid()))
    events = [event(g, hgoal) for g in order]
    with open(path, "w") as f:
        for e in events:
            f.write(json.dumps(e) + "\n")
    _tick("trace written")
    tres, rej = validate(path, "trace of %d goals" % len(order))
    rep.add_tlc(tres)
    _tick("trace validated")

    rejected_ids = {order[i - 1].id for i in rej}
    dependent = 0
    for i, g in enumerate(order, 1):
        nruns = len(g.runs)
        cls = g.cls if g.kind == "plain" else "%s:%s|%s|inner=%s" % (
            g.kind, g.fam, "+".join(sorted(g.ipos)), "exceeded" if inner_exceeded(g) else "complete")
        for _ in range(nruns):
            rep.case(cls)
        if i in rej:
            v = rej[i]
            if v == "noref":
                if g.base.id in rejected_ids or (g.hid and g.hid in rejected_ids):
                    dependent += 1
                    continue
                raise common.ToolError("Trace_C40: nested goal %s has no reference run" % g.id)
            rep.violation(signature(g, v), {"goal": g.id, "label": g.label, "query": g.query(0), "verdict": v,
                                            "outcomes": outline(g, 40), "event": events[i - 1],
                                            "program": prog if len(prog) < 20000 else prog[:20000]})
    rep.traces = len(order) - len(rej)
    rep.extra["goals"] = len(goals)
    rep.extra["nested_goals"] = len(nested)
    rep.extra["runs_validated"] = sum(len(g.runs) for g in order)
    rep.extra["nested_not_judged_because_base_rejected"] = dependent

    # --- binding demonstration: corrupted outcomes must be rejected ------------------------------------------
    demo = None
    for i, g in enumerate(order, 1):
        if i not in rej and g.kind == "plain" and len(g.defn["sols"]) >= 2 and len(set(g.by_lim.values())) >= 3:
            demo = events[i - 1]
            break
    if demo is None:
        raise common.ToolError("no goal suitable for the binding demonstration")
    runs = demo["runs"]
    lo = runs[0]
    hi = runs[-1]
    e1 = json.loads(json.dumps(demo))          # outcomes of the smallest and the largest limit swapped: not monotone
    e1["runs"][0].update({k: hi[k] for k in ("items", "end", "ball")})
    e1["runs"][-1].update({k: lo[k] for k in ("items", "end", "ball")})
    e2 = json.loads(json.dumps(demo))          # a solution replaced by another term
    for r in e2["runs"]:
        if r["items"] and r["items"][0]["r"] != EXC:
            r["items"][0]["s"] = "'ans'('$wrong')"
            break
    e3 = json.loads(json.dumps(demo))          # one more run of a limit with another outcome: not deterministic
    extra = json.loads(json.dumps(e3["runs"][len(runs) // 2]))
    other = lo if json.dumps([extra["items"], extra["end"]]) != json.dumps([lo["items"], lo["end"]]) else hi
    extra.update({k: other[k] for k in ("items", "end", "ball")})
    e3["runs"].append(extra)
    dpath = os.path.join(tdir, "trace-%s-%d-corrupt.ndjson" % (tier, os.getpid()))
    with open(dpath, "w") as f:
        for e in (e1, e2, e3, demo):
            f.write(json.dumps(e) + "\n")
    dres, drej = validate(dpath, "corrupted copies")
    rep.add_tlc(dres)
    if not (drej.get(1) in ("nonmonotone", "nondet", "shape") and drej.get(2) == "shape" and drej.get(3) in ("nondet", "nonmonotone")
            and 4 not in drej):
        raise common.ToolError("binding demonstration failed: Trace_C40 reported %r" % (drej,))
    rep.extra["binding_demo"] = ("goal %s: swapped outcomes -> %s, altered solution -> %s, second outcome for one limit -> %s, "
                                 "unmodified -> accepted" % (demo["id"], drej[1], drej[2], drej[3]))
    os.remove(dpath)
    if not rep.violations:
        os.remove(path)

    shown = [g for g in order if g.kind == "plain" and g.srckind == "cat" and g.n == 3][:2] + \
            [g for g in order if g.srckind == "c07"][:1] + [g for g in nested][:2]
    for g in shown:
        rep.sample({"goal": g.label, "kind": g.kind, "definition_end": g.defn["end"] if g.kind == "plain" else "derived",
                    "outcomes": outline(g, 8)})
    rep.exhaustive = False
    rep.assumptions = ["TLC", "spec/Prolog.tla as the source of the solution sequences",
                       "goals built on loop :- loop do not terminate (abstract machine reaches its step bound)",
                       "canonical renderer and LeafAnswer projection of the harness",
                       "library twins: between/3, member/2, append/3, length/2 have the solution sequences of btw/3, mem/2, app/3, len/2",
                       "limits up to 10^6"]
    return rep.finish()


def replay(path):
    d = json.load(open(path))
    det = d["detail"]
    ev = det["event"]
    prog = det["program"]
    q0 = det["query"]
    lims = sorted(set(r["lim"] for r in ev["runs"]))
    ql = [(lim, q0.replace(", 0, %s)." % ROUT, ", %d, %s)." % (lim, ROUT))) for lim in lims]
    res = run_queries(prog, ql)
    print(json.dumps({"signature": d.get("signature"), "goal": det["label"], "verdict": det["verdict"]}, indent=1))
    prev = None
    for lim in lims:
        s = json.dumps(res[lim].get("a") if res.get(lim) else None)[:300] + (" TMO" if res.get(lim, {}).get("tmo") else "")
        if s != prev:
            print("L=%d: %s" % (lim, s))
        prev = s
    return 0
