"""C14 - Sorting builtins and collection libraries match their models."""
import json
import os

from lib import common, terms
from lib.common import Report, run_tlc, tlc_ok, run_jobs

PROP = "C14"

META = {
    "level": "model_checking",
    "text": "sort/2, keysort/2 and the list, ordset, pairs and assoc libraries are specified in TLA+ (spec/Coll.tla: a local "
            "standard order of terms, stable insertion sorts whose characterisation is checked by TLC, sequence/set/map "
            "operators, AVL well-formedness of the documented t(K,V,Balance,L,R) representation). TLC (MC_C14) enumerates every "
            "list up to a length bound over a 7-term mixed alphabet, every pair of ordered sets over a 4-6 element universe, "
            "every (set, element) pair over 7 elements, pair lists with positional values (stability) and every history of "
            "put/del/del_min/del_max/replace updates of library(assoc) up to a length bound from the empty map and from "
            "list_to_assoc-built maps; the specified result of every call is replayed against the real machine, and the "
            "recorded assoc histories (concrete tree and every library observation after every update) are validated by TLC "
            "against the map model (Trace_C14). Bounded-exhaustive conformance, not proof.",
    "note": "Trusted: TLC, the canonical text renderer, the LeafAnswer projection of the harness and the small Prolog prelude that "
            "collects observations (findall/3, if-then-else). Predicates absent from this tree (msort/2, predsort/3, sort/4, last/2, "
            "sumlist/2, max_list/2, subtract/3, exclude/include/partition) are not covered; ordset histories are not explored "
            "separately because the ordset representation is canonical (every step of a history is one of the exhaustively "
            "enumerated (operation, canonical inputs) cases). Solution order of nondeterministic list predicates is not asserted.",
    "technique": "TLA+ value-level specification enumerated by TLC and replayed; TLC trace validation of recorded AVL trees and "
                 "library observations against a finite-map state machine",
}

PRELUDE = """:- use_module(library(lists)).
:- use_module(library(ordsets)).
:- use_module(library(pairs)).
:- use_module(library(assoc)).
c14_cons(X, A, [X|A]).
c14_cons2(X, Y, A, [X-Y|A]).
c14_pair(X, Y, X-Y).
c14_add(X, A0, A) :- A is A0 + X.
c14_wrap(X, w(X)).
c14_key(X, k(X)).
c14_gets([], _, []).
c14_gets([K|Ks], A, [G|Gs]) :- ( get_assoc(K, A, V) -> G = hit(V) ; G = miss ), c14_gets(Ks, A, Gs).
c14_obs(Keys, A, o(A, L, Ks, Vs, Mx, Mn, Gs, Gen, Is, ML, MA)) :-
    assoc_to_list(A, L), assoc_to_keys(A, Ks), assoc_to_values(A, Vs),
    ( max_assoc(A, K1, V1) -> Mx = K1-V1 ; Mx = none ),
    ( min_assoc(A, K2, V2) -> Mn = K2-V2 ; Mn = none ),
    c14_gets(Keys, A, Gs),
    findall(K-V, gen_assoc(K, A, V), Gen),
    ( is_assoc(A) -> Is = true ; Is = false ),
    ( map_assoc(c14_wrap, A, A2) -> assoc_to_list(A2, ML) ; ML = none ),
    ( map_assoc(integer, A) -> MA = true ; MA = false ).
c14_sols(put(K, V), A0, Ss) :- findall(none-A1, put_assoc(K, A0, V, A1), Ss).
c14_sols(del(K, _), A0, Ss) :- findall(V-A1, del_assoc(K, A0, V, A1), Ss).
c14_sols(upd(K, V), A0, Ss) :- findall(Old-A1, get_assoc(K, A0, Old, A1, V), Ss).
c14_sols(delmin(_, _), A0, Ss) :- findall((K-V)-A1, del_min_assoc(A0, K, V, A1), Ss).
c14_sols(delmax(_, _), A0, Ss) :- findall((K-V)-A1, del_max_assoc(A0, K, V, A1), Ss).
c14_step(Act, Keys, A0, ev(N, Out, O)) :-
    c14_sols(Act, A0, Ss), length(Ss, N),
    ( Ss = [Out-A|_] -> true ; Out = none, A = A0 ),
    c14_obs(Keys, A, O).
c14_apply(Act, A0, A) :- c14_sols(Act, A0, Ss), ( Ss = [_-A|_] -> true ; A = A0 ).
c14_run([], Keys, A, ev(1, none, O)) :- c14_obs(Keys, A, O).
c14_run([Act], Keys, A0, E) :- !, c14_step(Act, Keys, A0, E).
c14_run([Act|Acts], Keys, A0, E) :- c14_apply(Act, A0, A), c14_run(Acts, Keys, A, E).
c14_hist(Init, Acts, Keys, E) :- list_to_assoc(Init, A0), c14_run(Acts, Keys, A0, E).
"""

# goal templates: {0}, {1} are the rendered argument terms of the vector, R the result, Q* auxiliary variables
TEMPLATES = {
    "sort": "sort({0}, R)", "list_to_ord_set": "list_to_ord_set({0}, R)", "list_to_set": "list_to_set({0}, R)",
    "is_ordset": "is_ordset({0}), R = true",
    "sort_partial": "sort({0}, R)", "sort_nonlist": "sort({0}, R)", "sort_improper": "sort({0}, R)",
    "keysort_partial": "keysort({0}, R)", "keysort_nonlist": "keysort({0}, R)", "keysort_nonpair": "keysort({0}, R)",
    "keysort_varelem": "keysort({0}, R)", "keysort": "keysort({0}, R)",
    "pairs_keys_values": "pairs_keys_values({0}, Qk, Qv), R = Qk-Qv", "pairs_keys": "pairs_keys({0}, R)",
    "pairs_values": "pairs_values({0}, R)", "pairs_zip": "pairs_keys_values(R, {0}, {1})",
    "group_pairs": "group_pairs_by_key({0}, R)",
    "list_to_assoc_list": "list_to_assoc({0}, Qa), assoc_to_list(Qa, R)",
    "ord_list_to_assoc": "ord_list_to_assoc({0}, Qa), assoc_to_list(Qa, R)",
    "map_list_to_pairs": "map_list_to_pairs(c14_key, {0}, R)",
    "length": "length({0}, R)", "reverse": "reverse({0}, R)",
    "member_all": "findall(Qx, member(Qx, {0}), R)",
    "select_all": "findall(Qx-Qy, select(Qx, {0}, Qy), R)",
    "append_splits": "findall(Qx-Qy, append(Qx, Qy, {0}), R)",
    "nth0_all": "findall(Qi-Qx, nth0(Qi, {0}, Qx), R)", "nth1_all": "findall(Qi-Qx, nth1(Qi, {0}, Qx), R)",
    "nth0_4_all": "findall(r(Qi,Qx,Qy), nth0(Qi, {0}, Qx, Qy), R)",
    "nth1_4_all": "findall(r(Qi,Qx,Qy), nth1(Qi, {0}, Qx, Qy), R)",
    "permutation": "findall(Qy, permutation({0}, Qy), R)",
    "foldl_cons": "foldl(c14_cons, {0}, [], R)", "maplist_wrap": "maplist(c14_wrap, {0}, R)",
    "maplist_atom": "maplist(atom, {0}), R = true",
    "memberchk": "memberchk({0}, {1}), R = true", "select_x": "findall(Qy, select({0}, {1}, Qy), R)",
    "nth0": "nth0({0}, {1}, R)", "nth1": "nth1({0}, {1}, R)",
    "nth0_4": "nth0({0}, {1}, Qx, Qy), R = Qx-Qy", "nth1_4": "nth1({0}, {1}, Qx, Qy), R = Qx-Qy",
    "append3": "append({0}, {1}, R)", "same_length": "same_length({0}, {1}), R = true",
    "foldl5": "foldl(c14_cons2, {0}, {1}, [], R)", "maplist3_pair": "maplist(c14_pair, {0}, {1}, R)",
    "sum_list": "sum_list({0}, R)", "list_max": "list_max({0}, R)", "list_min": "list_min({0}, R)",
    "foldl_add": "foldl(c14_add, {0}, 0, R)",
    "append2": "append({0}, R)", "transpose": "transpose({0}, R)", "length_gen": "length(R, {0})",
    "ord_empty": "ord_empty({0}), R = true",
    "ord_union": "ord_union({0}, {1}, R)", "ord_union4": "ord_union({0}, {1}, Qu, Qn), R = Qu-Qn",
    "ord_subtract": "ord_subtract({0}, {1}, R)", "ord_intersection": "ord_intersection({0}, {1}, R)",
    "ord_intersect3": "ord_intersect({0}, {1}, R)",
    "ord_intersection4": "ord_intersection({0}, {1}, Qi, Qd), R = Qi-Qd",
    "ord_intersect": "ord_intersect({0}, {1}), R = true", "ord_disjoint": "ord_disjoint({0}, {1}), R = true",
    "ord_intersection_nil": "ord_intersection({0}, {1}, []), R = true",
    "ord_symdiff": "ord_symdiff({0}, {1}, R)", "ord_subset": "ord_subset({0}, {1}), R = true",
    "ord_seteq": "ord_seteq({0}, {1}), R = true",
    "ord_memberchk": "ord_memberchk({1}, {0}), R = true", "ord_add_element": "ord_add_element({0}, {1}, R)",
    "ord_del_element": "ord_del_element({0}, {1}, R)", "ord_selectchk": "ord_selectchk({1}, {0}, R)",
    "ord_union2": "ord_union({0}, R)", "ord_intersection2": "ord_intersection({0}, R)",
}
# the same call with the list built at run time from variables bound to the elements (a second evaluation
# context: the reader turns a literal list that starts with one-character atoms into a partial string)
VAR_CTX = {"sort_v": "sort", "keysort_v": "keysort"}

TRUE = ('a', 'true')


def from_packed(p):
    """compact JSON image of a term printed by the spec (Coll!Pk) -> canonical tuple of lib/terms.py"""
    k = p[0]
    if k == 0:
        return ('i', p[1])
    if k == 1:
        return ('a', "".join(map(chr, p[1])))
    if k == 2:
        return ('c', "".join(map(chr, p[1])), tuple(from_packed(x) for x in p[2]))
    if k == 3:
        return ('v', "".join(map(chr, p[1])))
    if k == 4:
        return ('f', int("".join(map(chr, p[1])), 16))
    if k == 5:
        return terms.mk_list([from_packed(x) for x in p[1]])
    if k == 6:
        return terms.mk_list([from_packed(x) for x in p[1]], from_packed(p[2]))
    raise ValueError("bad packed term %r" % (p,))


def list_items(t):
    items = []
    while t[0] == 'c' and t[1] == '.' and len(t[2]) == 2:
        items.append(t[2][0])
        t = t[2][1]
    return items, t


def lit_shape(t):
    """how the reader represents a list literal: 'charprefix+tail' = one-character atoms followed by something else"""
    items, tail = list_items(t)
    n = 0
    while n < len(items) and items[n][0] == 'a' and len(items[n][1]) == 1:
        n += 1
    if n == 0:
        return "plain"
    if n == len(items) and tail == terms.NIL:
        return "chars"
    return "charprefix+tail"


def goal_of(v):
    """-> (goal text, context, shape)"""
    args = [from_packed(a) for a in v["args"]]
    op = v["op"]
    if op in VAR_CTX:
        items, tail = list_items(args[0])
        assert tail == terms.NIL
        names = ["Qe%d" % i for i in range(len(items))]
        pre = "".join("%s = %s, " % (n, terms.text(x)) for n, x in zip(names, items))
        goal = pre + TEMPLATES[VAR_CTX[op]].format("[" + ",".join(names) + "]")
        return goal, "var", "plain"
    goal = TEMPLATES[op].format(*[terms.text(a) for a in args])
    shapes = [lit_shape(a) for a in args]
    shape = "charprefix+tail" if "charprefix+tail" in shapes else ("chars" if "chars" in shapes else "plain")
    return goal, "lit", shape


def query_of(v):
    goal, ctx, shape = goal_of(v)
    return "catch((%s), error(E,_), true)." % goal


def expected_of(v):
    k = v["k"]
    if k == "ok":
        return ("ok", from_packed(v["v"]))
    if k == "true":
        return ("ok", TRUE)
    if k == "fail":
        return ("fail",)
    if k == "err":
        return ("err", from_packed(v["v"]))
    if k == "bag":
        return ("bag", from_packed(v["v"]))
    raise ValueError(k)


def outcome(entry):
    """normalise one query result of the harness"""
    if "panic" in entry:
        return ("panic", entry["panic"])
    a = list(entry.get("a", []))
    while a and a[-1] == "F" and len(a) > 1:
        a.pop()                      # a leftover choice point that then fails is not a second solution
    if entry.get("capped") or len(a) > 1:
        return ("multi", json.dumps(a)[:300])
    if not a or a[0] == "F":
        return ("fail",)
    x = a[0]
    if isinstance(x, dict):
        if "b" in x:
            b = x["b"]
            if "E" in b and "R" not in b:
                return ("err", terms.from_h(b["E"]))
            if "R" in b and "E" not in b:
                return ("ok", terms.from_h(b["R"]))
            return ("other", json.dumps(b)[:300])
        if "x" in x:
            return ("ball", terms.from_h(x["x"]))
        if "e" in x:
            return ("err", terms.from_h(x["e"]))
    return ("other", json.dumps(x)[:300])


def bag_key(t):
    return repr(t)


def agrees(exp, got):
    if exp[0] == "bag":
        if got[0] != "ok":
            return False
        gi, gt = list_items(got[1])
        ei, _ = list_items(exp[1])
        return gt == terms.NIL and sorted(map(bag_key, gi)) == sorted(map(bag_key, ei))
    if exp[0] != got[0]:
        return False
    if exp[0] == "fail":
        return True
    return terms.variant(exp[1], got[1])


def show(o):
    if len(o) == 1:
        return o[0]
    if isinstance(o[1], tuple):
        return "%s:%s" % (o[0], terms.show(o[1]))
    return "%s:%s" % (o[0], o[1])


def signature(v, exp, got):
    goal, ctx, shape = goal_of(v)
    return "%s ctx=%s cls=%s shape=%s goal=%s expected=%s got=%s" % (
        v["op"], ctx, v["cls"], shape, goal, show(exp), show(got))


# --------------------------------------------------------------------------------------------------------
# library(assoc) histories -> harness queries -> ndjson for Trace_C14
# --------------------------------------------------------------------------------------------------------

class TermTable:
    def __init__(self):
        self.ids = {}
        self.rows = []

    def id(self, t):
        k = repr(t)
        if k not in self.ids:
            self.rows.append(to_tla(t))
            self.ids[k] = len(self.rows)
        return self.ids[k]


def to_tla(t):
    k = t[0]
    if k == 'a':
        return {"t": "a", "n": [ord(c) for c in t[1]], "i": 0, "a": []}
    if k == 'i':
        if abs(t[1]) >= 1 << 31:
            raise common.ToolError("integer outside the TLC range in a recorded observation: %r" % (t,))
        return {"t": "i", "n": [], "i": t[1], "a": []}
    if k == 'c':
        return {"t": "c", "n": [ord(c) for c in t[1]], "i": 0, "a": [to_tla(x) for x in t[2]]}
    if k == 'v':
        return {"t": "v", "n": [ord(c) for c in t[1]], "i": 0, "a": []}
    raise common.ToolError("term kind not expected in a recorded assoc observation: %r" % (t,))


BAD = ('a', '$bad')
NONE = ('a', 'none')


def enc_tree(tt, t):
    if t == ('a', 't'):
        return []
    if t[0] == 'c' and t[1] == 't' and len(t[2]) == 5:
        k, v, b, l, r = t[2]
        return [tt.id(k), tt.id(v), tt.id(b), enc_tree(tt, l), enc_tree(tt, r)]
    return [tt.id(t)]


def enc_list(tt, t):
    items, tail = list_items(t)
    if tail != terms.NIL:
        return [tt.id(BAD)]
    return [tt.id(x) for x in items]


def enc_obs(tt, o):
    """o(A, L, Ks, Vs, Mx, Mn, Gs, Gen, Is, ML, MA)"""
    if not (o[0] == 'c' and o[1] == 'o' and len(o[2]) == 11):
        raise common.ToolError("malformed observation term %r" % (o,))
    a, l, ks, vs, mx, mn, gs, gen, isa, ml, ma = o[2]
    return {"tree": enc_tree(tt, a), "list": enc_list(tt, l), "keys": enc_list(tt, ks), "vals": enc_list(tt, vs),
            "max": tt.id(mx), "min": tt.id(mn), "gets": enc_list(tt, gs), "gen": enc_list(tt, gen), "isa": tt.id(isa),
            "mlist": enc_list(tt, ml), "mall": tt.id(ma)}


def hist_parts(v):
    init, _ = list_items(from_packed(v["args"][0]))
    acts, _ = list_items(from_packed(v["args"][1]))
    return init, acts


def hist_query(v, keys):
    init, acts = hist_parts(v)
    return "catch(c14_hist(%s, %s, %s, R), error(E,_), true)." % (
        terms.text(terms.mk_list(init)), terms.text(terms.mk_list(acts)), terms.text(terms.mk_list(keys)))


def hist_text(init, acts):
    return "init=%s acts=%s" % (terms.text(terms.mk_list(init)), terms.text(terms.mk_list(acts)))


def batches(xs, n):
    for i in range(0, len(xs), n):
        yield i, xs[i:i + n]


def run(tier):
    rep = Report(PROP, tier, META["level"])
    rep.rule = ("TLC enumerates (operation, inputs): every list of length <= 4 (thorough 5) over 7 mixed terms for the sorting "
                "predicates, pair lists with positional values for keysort/pairs, lists over 3 terms for the polymorphic list "
                "predicates, all pairs of ordered sets over 4 (thorough 6) elements, all (set, element) over 7 elements, and all "
                "assoc update histories of length <= 4 (thorough 5, plus 40 random walks of length 30 with all one-step "
                "deviations, 6 keys) over 5 keys from the empty map and from list_to_assoc-built maps. distinct = distinct (operation, coverage class: length, number of "
                "distinct elements, sortedness, term kinds, set overlap, element position) and, for assoc, distinct history "
                "prefixes whose recorded tree and observations were validated")
    import gc
    import time
    gc.disable()        # hundreds of thousands of small vectors, no reference cycles: the collector only costs time
    phases = {}
    t0 = time.time()
    res, vecs = common.generate("MC_C14", "MC_C14_%s.cfg" % tier, workers=8, timeout=3000)
    rep.add_tlc(res)
    phases["tlc_generate"] = round(time.time() - t0, 1)
    sims = []
    if tier == "thorough":
        sres, sims = common.generate("MC_C14", "MC_C14_sim.cfg", workers=4, timeout=1800, simulate=40, depth=31,
                                     tag="MC_C14-sim")
        rep.add_tlc(sres)
    cases = [v for v in vecs if v["g"] != "assoc"]
    hists = [v for v in vecs if v["g"] == "assoc"] + [v for v in sims if v["g"] == "assoc"]
    if not cases or not hists:
        raise common.ToolError("MC_C14 generated no vectors")

    # ---------------------------------------------------------------- calls
    jobs = []
    B = 200
    for bi, batch in batches(cases, B):
        steps = [{"consult": PRELUDE}] + [{"q": query_of(v), "max": 3} for v in batch]
        jobs.append({"id": "c%d" % bi, "steps": steps, "timeout": 120, "fresh": True})
    keyset = {}
    for v in hists:
        init, acts = hist_parts(v)
        for t in [p[2][0] for p in init] + [a[2][0] for a in acts]:
            if t != NONE:
                keyset[repr(t)] = t
    keys = [keyset[k] for k in sorted(keyset)]
    HB = 100
    for bi, batch in batches(hists, HB):
        steps = [{"consult": PRELUDE}] + [{"q": hist_query(v, keys), "max": 3} for v in batch]
        jobs.append({"id": "h%d" % bi, "steps": steps, "timeout": 180, "fresh": True})
    t0 = time.time()
    results = run_jobs(jobs, workers=8, job_timeout=180)
    phases["harness"] = round(time.time() - t0, 1)

    covered = set()
    for bi, batch in batches(cases, B):
        r = results.get("c%d" % bi, {"crash": "missing"})
        if "crash" in r:
            rep.violation("batch of calls crashed: %s first=%s" % (r["crash"], query_of(batch[0])),
                          {"kind": "batch", "vectors": batch, "result": r})
            continue
        if "panic" in r["res"][0]:
            raise common.ToolError("prelude failed to load: %r" % (r["res"][0],))
        for v, entry in zip(batch, r["res"][1:]):
            exp = expected_of(v)
            got = outcome(entry)
            rep.case((v["op"], v["cls"]))
            covered.add(v["op"])
            if not agrees(exp, got):
                rep.violation(signature(v, exp, got), {"kind": "call", "vector": v, "query": query_of(v),
                                                       "expected": show(exp), "got": show(got)})
    for v in cases[:: max(1, len(cases) // 3)][:3]:
        rep.sample({"goal": goal_of(v)[0], "expected": show(expected_of(v))})

    # ---------------------------------------------------------------- assoc histories
    tt = TermTable()
    tt.id(NONE)
    tt.id(BAD)
    lines = []
    line_info = {}
    for bi, batch in batches(hists, HB):
        r = results.get("h%d" % bi, {"crash": "missing"})
        if "crash" in r:
            rep.violation("assoc batch crashed: %s first=%s" % (r["crash"], hist_query(batch[0], keys)),
                          {"kind": "batch", "vectors": batch, "result": r})
            continue
        for v, entry in zip(batch, r["res"][1:]):
            init, acts = hist_parts(v)
            got = outcome(entry)
            if got[0] != "ok" or not (got[1][0] == 'c' and got[1][1] == 'ev' and len(got[1][2]) == 3):
                rep.violation("assoc history did not run: %s got=%s" % (hist_text(init, acts), show(got)),
                              {"kind": "hist", "vector": v, "query": hist_query(v, keys), "got": show(got)})
                continue
            n, out, obs = got[1][2]
            enc_acts = [[a[1], tt.id(a[2][0]), tt.id(a[2][1])] for a in acts] or [["init", tt.id(NONE), tt.id(NONE)]]
            line = {"id": len(lines) + 1, "init": [tt.id(x) for x in init], "acts": enc_acts, "n": n[1], "out": tt.id(out)}
            line.update(enc_obs(tt, obs))
            line_info[line["id"]] = v
            lines.append(line)
            # spec -> impl cross-check of the final state printed by MC_C14
            final_list = obs[2][1]
            if not terms.variant(from_packed(v["v"]), final_list):
                rep.violation("assoc final list differs: %s expected=%s got=%s" % (
                    hist_text(init, acts), terms.text(from_packed(v["v"])), terms.show(final_list)),
                    {"kind": "hist", "vector": v, "query": hist_query(v, keys)})
    rep.extra["assoc_histories_validated"] = len(lines)
    if lines:
        wdir = os.path.join(common.WORK, "c14")
        os.makedirs(wdir, exist_ok=True)
        header = json.dumps({"terms": tt.rows, "keys": [tt.id(k) for k in keys]})
        t0 = time.time()
        CH = 30000            # lines per TLC run: bounds the memory of the deserialised trace
        for ci, chunk in batches(lines, CH):
            path = os.path.join(wdir, "assoc-%s-%d-%d.ndjson" % (tier, os.getpid(), ci))
            with open(path, "w") as f:
                f.write(header + "\n")
                for ln in chunk:
                    f.write(json.dumps(ln) + "\n")
            tres = tlc_ok(run_tlc("Trace_C14", "Trace_C14.cfg", workers=8, timeout=3000, env_extra={"TRACE": path},
                                  tag="Trace_C14-%d" % ci), "Trace_C14")
            rep.add_tlc(tres)
            if tres.distinct != 64 + len(chunk):
                raise common.ToolError("Trace_C14 evaluated %d states for %d recorded lines" % (tres.distinct, len(chunk)))
            for b in tres.printed():
                v = line_info[b["id"]]
                init, acts = hist_parts(v)
                why = ",".join(sorted(b["bad"]))
                last = terms.text(acts[-1]) if acts else "list_to_assoc"
                rep.violation("assoc why=%s after=%s %s" % (why, last, hist_text(init, acts)),
                              {"kind": "hist", "vector": v, "why": why, "query": hist_query(v, keys)})
            if not os.environ.get("VERIF_KEEP"):
                try:
                    os.remove(path)
                except OSError:
                    pass
        phases["tlc_trace"] = round(time.time() - t0, 1)
        for ln in lines:
            acts = hist_parts(line_info[ln["id"]])[1]
            rep.case(("assoc", acts[-1][1] if acts else "init", len(ln["list"]), tree_height(ln["tree"])))
        rep.traces = len(lines)
    for v in hists[:: max(1, len(hists) // 2)][:2]:
        init, acts = hist_parts(v)
        rep.sample({"assoc_history": hist_text(init, acts), "final": terms.text(from_packed(v["v"]))})
    rep.extra["predicates_covered"] = sorted(covered) + ["put_assoc/4", "del_assoc/4", "del_min_assoc/4", "del_max_assoc/4",
                                                         "get_assoc/3", "get_assoc/5", "list_to_assoc/2", "assoc_to_list/2",
                                                         "assoc_to_keys/2", "assoc_to_values/2", "max_assoc/3", "min_assoc/3",
                                                         "gen_assoc/3", "is_assoc/1", "map_assoc/2", "map_assoc/3"]
    rep.extra["phase_wall_s"] = phases
    rep.exhaustive = True
    rep.assumptions = ["TLC and spec/Coll.tla (order and sort sanity theorems checked in the same run)",
                       "canonical text renderer, LeafAnswer projection, observation prelude (findall/3, ->)",
                       "solution order of member/select/append/nth/permutation is not asserted (compared as multisets)"]
    return rep.finish()


def tree_height(c):
    return 0 if len(c) != 5 else 1 + max(tree_height(c[3]), tree_height(c[4]))


def replay(path):
    d = json.load(open(path))
    det = d["detail"]
    if det.get("kind") == "batch":
        print(json.dumps(det, indent=1, default=str)[:4000])
        return 0
    q = det["query"]
    r = run_jobs([{"id": 0, "steps": [{"consult": PRELUDE}, {"q": q, "max": 3}], "fresh": True}], workers=1)
    print(json.dumps({"signature": d["signature"], "query": q, "expected": det.get("expected"),
                      "result": r[0]["res"][1] if "res" in r[0] else r[0]}, indent=1, default=str))
    return 0
