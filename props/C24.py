"""C24 - Cyclic terms are processed correctly and always terminate."""
import json

from lib import common
from lib.common import Report, run_jobs, generate

PROP = "C24"
META = {
    "level": "model_checking",
    "text": "spec/TermGraph.tla defines term graphs (a store of N nodes: variable, variable chain, atoms a/b, f/1, g/2, h/3 (as h(X,a,a)), list cell, "
            "partial-string segment, with arbitrary edges, so cycles through structures, lists, strings and chains occur) and the "
            "meaning of ==, compare/3, =, acyclic_term/1, ground/1, term_variables/2 and copy_term/2 on the rational trees they "
            "denote (bisimilarity as greatest fixpoint, union-find unification, first difference in preorder for the standard order, "
            "reachability). TLC enumerates every graph with up to 3 nodes up to isomorphism (thorough: every labelled graph with up "
            "to 3 nodes and a sample of the 4-node graphs), checks operator sanity on each (Bisimilar is an equivalence, acyclic iff "
            "the unfolding is finite, compare gives = iff bisimilar and is antisymmetric, copies are fresh variants, unification "
            "makes both sides bisimilar and keeps equal terms equal) and prints the expected results of the whole battery for every "
            "node and pair of nodes. Each graph is built in the real heap by its equation set (several equation orders) and the "
            "battery is run four times around the operations: results must equal the specification's and must not change.",
    "note": "Trusted: TLC, the renderer of equation sets, the Prolog observation harness (helpers consulted into user; results are "
            "projected to integers/atoms inside the query, cyclic terms never leave the machine). Not asserted because the "
            "infinite-tree reading does not define it: the order of term_variables/2 on cyclic terms (the set is asserted), "
            "compare/3 where no first difference in preorder exists (infinite leftmost descent; only 'not =' is asserted), the relative order of distinct "
            "variables (taken from the run). Bit-level identity of the heap cells is not observed (no hook); 'unchanged' means all "
            "observations are unchanged. Termination: each case has 5 s (normal: milliseconds).",
    "technique": "TLA+ value-level specification on term graphs enumerated by TLC; vectors replayed into the real heap (spec -> impl)",
}

HELPERS = r"""
:- use_module(library(lists)).
:- use_module(library(iso_ext)).
:- dynamic(skip/1).

% c24(+Xs, -R): the battery on the nodes Xs = [X1..XN]. Operations named by skip/1 facts are not executed (result x).
c24(Xs, [O1, O2, Cp, O3, Un, O4]) :-
    obs(fwd, Xs, O1), obs(rev, Xs, O2),
    copies(Xs, Xs, Cp), obs(fwd, Xs, O3),
    unifs(Xs, Xs, Un), obs(rev, Xs, O4).

obs(fwd, Xs, [U, P]) :- unary(Xs, Xs, U), pairs(Xs, P).
obs(rev, Xs, [U, P]) :- pairs(Xs, P), reverse(Xs, Rs), unary(Rs, Xs, U0), reverse(U0, U).

tf(Op, G, R) :- ( skip(Op) -> R = x ; call(G) -> R = 1 ; R = 0 ).

unary([], _, []).
unary([X|T], Xs, [[A, G, Ids]|Us]) :-
    tf(acyclic, acyclic_term(X), A), tf(ground, ground(X), G), tvs(X, Xs, Ids),
    unary(T, Xs, Us).

tvs(X, Xs, Ids) :- ( skip(term_variables) -> Ids = x ; term_variables(X, Vs), ids(Vs, Xs, Ids) ).
ids([], _, []).
ids([V|Vs], Xs, [I|Is]) :- ( var(V) -> idx(Xs, V, 1, I) ; I = -1 ), ids(Vs, Xs, Is).
idx([], _, _, 0).
idx([X|Xs], V, K, I) :- ( X == V -> I = K ; K1 is K + 1, idx(Xs, V, K1, I) ).

pairs([], []).
pairs([X|T], P) :- prs(T, X, P, P1), pairs(T, P1).
prs([], _, P, P).
prs([Y|T], X, [[E, C1, C2]|P0], P) :-
    tf(eq, X == Y, E),
    ( skip(compare) -> C1 = x, C2 = x ; compare(C1, X, Y), compare(C2, Y, X) ),
    prs(T, X, P0, P).

copies([], _, []).
copies([X|T], Xs, [C|Cs]) :- ( skip(copy_term) -> C = x ; copy1(X, Xs, C) ), copies(T, Xs, Cs).
% the probes of the copy use only term_variables/2, =/2 and var/1, besides the operations under test
copy1(X, Xs, [A, G, NV, Fresh, Var]) :-
    copy_term(X, C), tf(acyclic, acyclic_term(C), A), tf(ground, ground(C), G),
    term_variables(C, CVs), length(CVs, NV), ids(CVs, Xs, Ids),
    ( allzero(Ids) -> Fresh = 1 ; Fresh = 0 ), ( variant_u(X, C) -> Var = 1 ; Var = 0 ).
allzero([]).
allzero([0|T]) :- allzero(T).
allvar([]).
allvar([V|Vs]) :- var(V), allvar(Vs).
% X and C are variants: they unify and the unifier only renames variables on both sides
variant_u(X, C) :-
    \+ \+ ( term_variables(X, V1), term_variables(C, V2), length(V1, N), length(V2, N),
            X = C,
            allvar(V1), term_variables(V1, W1), length(W1, N),
            allvar(V2), term_variables(V2, W2), length(W2, N) ).

unifs([], _, []).
unifs([X|T], Xs, U) :- uns(T, X, Xs, U, U1), unifs(T, Xs, U1).
uns([], _, _, U, U).
uns([Y|T], X, Xs, [R|U0], U) :-
    (   skip(unify) -> R = x
    ;   findall([E, A, G], ( X = Y, post(Xs, E, A, G) ), L),
        ( L = [R0] -> R = R0 ; L = [] -> R = 0 ; R = -1 )
    ),
    uns(T, X, Xs, U0, U).
post(Xs, E, A, G) :- eqs(Xs, E), acs(Xs, A), grs(Xs, G).
eqs([], []).
eqs([X|T], E) :- eq1(T, X, E, E1), eqs(T, E1).
eq1([], _, E, E).
eq1([Y|T], X, [B|E0], E) :- tf(eq, X == Y, B), eq1(T, X, E0, E).
acs([], []).
acs([X|T], [A|As]) :- tf(acyclic, acyclic_term(X), A), acs(T, As).
grs([], []).
grs([X|T], [A|As]) :- tf(ground, ground(X), A), grs(T, As).

% single operations on a freshly built graph, used to name an operation that hangs or crashes by itself
c24op(acyclic, I, _, Xs, R) :- nth1(I, Xs, X), tf(acyclic, acyclic_term(X), R).
c24op(ground, I, _, Xs, R) :- nth1(I, Xs, X), tf(ground, ground(X), R).
c24op(term_variables, I, _, Xs, R) :- nth1(I, Xs, X), tvs(X, Xs, R).
c24op(copy_term, I, _, Xs, R) :- nth1(I, Xs, X), copy1(X, Xs, R).
c24op(eq, I, J, Xs, R) :- nth1(I, Xs, X), nth1(J, Xs, Y), tf(eq, X == Y, R).
c24op(compare, I, J, Xs, R) :- nth1(I, Xs, X), nth1(J, Xs, Y), compare(R, X, Y).
c24op(unify, I, J, Xs, R) :- nth1(I, Xs, X), nth1(J, Xs, Y), uns([Y], X, Xs, [R], []).
"""
OPS = ["acyclic", "ground", "term_variables", "eq", "compare", "copy_term", "unify"]


def equations(g, order):
    """the equation set that builds graph g (list of {k,x,y}) in the given order of nodes (1-based)"""
    eqs = []
    for i in order:
        nd = g[i - 1]
        k, x, y = nd["k"], nd["x"], nd["y"]
        if k == "v":
            continue
        if k in ("a", "b"):
            eqs.append("X%d = %s" % (i, k))
        elif k == "r":
            eqs.append("X%d = X%d" % (i, x))
        elif k == "f":
            eqs.append("X%d = f(X%d)" % (i, x))
        elif k == "g":
            eqs.append("X%d = g(X%d,X%d)" % (i, x, y))
        elif k == "l":
            eqs.append("X%d = '.'(X%d,X%d)" % (i, x, y))
        elif k == "h":
            eqs.append("X%d = h(X%d,a,a)" % (i, x))
        elif k == "s":
            eqs.append('partial_string("ab", X%d, X%d)' % (i, x))
        else:
            raise common.ToolError("bad node kind %r" % (nd,))
    return eqs


def xs(n):
    return "[" + ",".join("X%d" % i for i in range(1, n + 1)) + "]"


def query(g, order, skip=None):
    n = len(g)
    goals = equations(g, order) + ["c24(%s, R0)" % xs(n)]
    pre = "retractall(skip(_)), " + ("assertz(skip(%s)), " % skip if skip else "")
    return pre + "findall(R0, (%s), Rs)." % ", ".join(goals)


def pyval(t):
    """harness term -> python (ints, atoms as str, lists)"""
    if "i" in t:
        return int(t["i"])
    if "a" in t:
        return [] if t["a"] == "[]" else t["a"]
    if "l" in t:
        return [pyval(x) for x in t["l"]]
    if "s" in t:
        return list(t["s"])
    raise ValueError("unexpected term %r" % (t,))


def pairs(n):
    return [(i, j) for i in range(1, n + 1) for j in range(i + 1, n + 1)]


def diff_obs(v, vo_entry, got, rnd):
    """compare one observation round [U, P] with the specification; 'x' = operation not executed.
    Returns list of (op, message)."""
    out = []
    n = v["n"]
    pr = pairs(n)
    try:
        gU, gP = got
        assert len(gU) == n and len(gP) == len(pr)
    except Exception:
        return [("battery", "%s: malformed observation %r" % (rnd, got))]
    for i in range(n):
        u = v["un"][i]
        ea, eg, etv, eord = int(u["ac"]), int(u["gr"]), list(u["tv"]), bool(u["ord"])
        ga, gg, gtv = gU[i]
        if ga != ea and ga != "x":
            out.append(("acyclic_term", "%s: acyclic_term(X%d) expected %d got %r" % (rnd, i + 1, ea, ga)))
        if gg != eg and gg != "x":
            out.append(("ground", "%s: ground(X%d) expected %d got %r" % (rnd, i + 1, eg, gg)))
        if gtv != "x":
            ok = (gtv == etv) if eord else (sorted(gtv) == sorted(etv) and len(set(gtv)) == len(gtv))
            if not ok:
                out.append(("term_variables", "%s: term_variables(X%d) expected %s%r got %r" % (
                    rnd, i + 1, "" if eord else "(any order) ", etv, gtv)))
    for k, (i, j) in enumerate(pr):
        ee = int(v["eq"][k])
        ge, g1, g2 = gP[k]
        if ge != ee and ge != "x":
            out.append(("==", "%s: X%d == X%d expected %d got %r" % (rnd, i, j, ee, ge)))
        if vo_entry is not None:
            e1, e2 = vo_entry["c"][k]
            for (a, b, e, g_) in ((i, j, e1, g1), (j, i, e2, g2)):
                good = (g_ in ("<", ">")) if e == "?" else (g_ == e)
                if not good and g_ != "x":
                    out.append(("compare", "%s: compare(O,X%d,X%d) expected %s got %r" % (
                        rnd, a, b, "< or > (no first difference)" if e == "?" else e, g_)))
    return out


def var_order(v, o1):
    """the total order of the variable nodes observed in this run (list of names, increasing), None if the
    observed relation is not a strict total order, 'x' if compare/3 was not executed"""
    names = sorted(set(x for x in v["vn"] if x))
    if len(names) <= 1:
        return names
    P = o1[1]
    pr = pairs(v["n"])
    less = {}
    for a in names:
        for b in names:
            if a < b:
                c = P[pr.index((a, b))][1]
                if c == "x":
                    return "x"
                if c not in ("<", ">"):
                    return None
                less[(a, b)] = (c == "<")
                less[(b, a)] = (c == ">")
    order = sorted(names, key=lambda a: sum(1 for b in names if b != a and less[(b, a)]))
    for x in range(len(order)):
        for y in range(x + 1, len(order)):
            if not less[(order[x], order[y])]:
                return None
    return order


def check_case(v, res):
    """res: python value [O1,O2,Cp,O3,Un,O4]; returns list of (op, message)"""
    out = []
    n = v["n"]
    try:
        O1, O2, Cp, O3, Un, O4 = res
        vo = var_order(v, O1)
    except Exception:
        return [("battery", "malformed result %r" % (res,))]
    if vo is None:
        return [("compare", "the observed order of the variables %r is not a strict total order: %r" % (
            sorted(set(x for x in v["vn"] if x)), O1[1]))]
    if vo == "x":
        ent = None
    else:
        ent = [e for e in v["cmp"] if list(e["vo"]) == list(vo)]
        if len(ent) != 1:
            raise common.ToolError("no compare table for variable order %r in %r" % (vo, v["cmp"]))
        ent = ent[0]
    out += diff_obs(v, ent, O1, "first round")
    for name, O in (("second round (after every inspection ran once)", O2), ("after copy_term", O3),
                    ("after the unifications were undone", O4)):
        if not out:
            out += [(op, "CHANGED " + m) for op, m in diff_obs(v, ent, O, name)]
    for i in range(n):
        e = v["cp"][i]
        exp = [int(e["ac"]), int(e["gr"]), e["nv"], 1, 1]
        got = Cp[i]
        if got != "x" and not (isinstance(got, list) and len(got) == 5 and all(g == x or g == "x" for g, x in zip(got, exp))):
            out.append(("copy_term", "copy_term(X%d,C): expected [acyclic,ground,nvars,fresh,variant]=%r got %r" % (i + 1, exp, got)))
    for k, (i, j) in enumerate(pairs(n)):
        e = v["un2"][k]
        got = Un[k]
        if got == "x":
            continue
        if e["ok"]:
            exp = [[int(b) for b in e["eq"]], [int(b) for b in e["ac"]], [int(b) for b in e["gr"]]]
            good = (isinstance(got, list) and len(got) == 3 and
                    all(isinstance(gl, list) and len(gl) == len(el) and all(g == x or g == "x" for g, x in zip(gl, el))
                        for gl, el in zip(got, exp)))
        else:
            exp = 0
            good = (got == 0)
        if not good:
            out.append(("unify", "X%d = X%d: expected %s got %r" % (
                i, j, ("success, then [== matrix, acyclic, ground]=%r" % (exp,)) if e["ok"] else "failure", got)))
    return out


def graph_text(g, order=None):
    return ", ".join(equations(g, order or range(1, len(g) + 1))) or "true"


def orders_for(v, tier):
    """equation orders in which a graph is built. quick: one of forward/backward, alternating; thorough: the labelled
    graphs with <= 3 nodes are all enumerated, which already gives every order up to the names of the variables
    (forward only); sampled 4-node graphs forward and backward"""
    n = v["n"]
    base = list(range(1, n + 1))
    if n == 1:
        return [base]
    if tier == "quick":
        if any(nd["k"] == "h" for nd in v["g"]):
            return [base, base[::-1]]      # whether an argument cell is entered through the compound or through the variable in it depends on the order
        return [base if v["code"] % 2 == 0 else base[::-1]]
    if n <= 3:
        return [base]
    return [base, base[::-1]]


def execute(cases, skip=None, group=8, workers=8):
    """run the battery of every case (v, order); returns list of harness results (query entry or {'crash':..})"""
    jobs = []
    for bi in range(0, len(cases), group):
        steps = [{"consult": HELPERS}]
        for (v, order) in cases[bi:bi + group]:
            steps.append({"consult": HELPERS})      # a panic or an interrupt rebuilds the Machine: load the helpers again
            steps.append({"q": query(v["g"], order, skip), "max": 2, "tmo_ms": 5000})
        jobs.append({"id": bi, "steps": steps[1:], "timeout": 60 + 8 * group, "fresh": True})
    results = run_jobs(jobs, workers=workers, job_timeout=120)
    out = [None] * len(cases)
    singles = []
    for job in jobs:
        bi = job["id"]
        r = results.get(bi, {"crash": "missing"})
        k = len(cases[bi:bi + group])
        if "crash" in r:
            singles += list(range(bi, bi + k))
        else:
            for j in range(k):
                out[bi + j] = r["res"][2 * j + 1]
    if singles:
        sj = [{"id": ci, "fresh": True, "timeout": 30,
               "steps": [{"consult": HELPERS}, {"q": query(cases[ci][0]["g"], cases[ci][1], skip), "max": 2, "tmo_ms": 5000}]}
              for ci in singles]
        rs = run_jobs(sj, workers=workers, job_timeout=30)
        for ci in singles:
            r = rs.get(ci, {"crash": "missing"})
            out[ci] = r if "crash" in r else r["res"][1]
    return out


def failures(v, r):
    """list of (op, message) for one harness result of the battery query"""
    if "crash" in r:
        return [("battery", "the process running the battery %s (abort, or a loop that the interrupt cannot end)" % r["crash"])]
    if r.get("tmo"):
        return [("battery", "the battery does not terminate (interrupted after 5000 ms; normal time: milliseconds)")]
    if "panic" in r:
        return [("battery", "panic " + " ".join(r["panic"].split()))]
    try:
        val = pyval(r["a"][0]["b"]["Rs"])
        if len(val) != 1:
            raise ValueError("findall returned %d results" % len(val))
    except Exception:
        return [("battery", "unexpected answer %s" % str(r)[:200])]
    return check_case(v, val[0])


def locate(v, order, tmo_ms=5000):
    """run every single operation on a freshly built graph to name an operation that fails by itself"""
    n = v["n"]
    ops = [(o, i, 0) for o in ("acyclic", "ground", "term_variables", "copy_term") for i in range(1, n + 1)]
    ops += [(o, i, j) for o in ("eq", "compare") for i in range(1, n + 1) for j in range(1, n + 1) if i != j]
    ops += [("unify", i, j) for (i, j) in pairs(n)]
    jobs = []
    for k, (o, i, j) in enumerate(ops):
        q = "findall(R0, (%s), Rs)." % ", ".join(equations(v["g"], order) + ["c24op(%s, %d, %d, %s, R0)" % (o, i, j, xs(n))])
        jobs.append({"id": k, "fresh": True, "timeout": 20,
                     "steps": [{"consult": HELPERS}, {"q": q, "max": 2, "tmo_ms": tmo_ms}]})
    rs = run_jobs(jobs, workers=4, job_timeout=20)
    bad = []
    for k, (o, i, j) in enumerate(ops):
        r = rs.get(k, {"crash": "missing"})
        name = "%s(X%d%s)" % (o, i, ",X%d" % j if j else "")
        if "crash" in r:
            bad.append((o, "%s alone does not return (%s)" % (name, r["crash"])))
        else:
            x = r["res"][1]
            if x.get("tmo"):
                bad.append((o, "%s alone does not terminate (interrupted after %d ms)" % (name, tmo_ms)))
            elif "panic" in x:
                bad.append((o, "%s alone panics: %s" % (name, " ".join(x["panic"].split()))))
    return bad


OPNAME = {"acyclic": "acyclic_term", "eq": "=="}


def attribute(cases, failing, fails0):
    """For the failing cases (indices) decide by ablation which operation is responsible: the battery is run again
    without operation K; if then every remaining observation agrees with the specification, K is the operation whose
    execution makes the others (or itself) go wrong. Returns dict index -> (K or None, failures to report)."""
    res = {}
    todo = list(failing)
    for K in OPS:
        if not todo:
            break
        sub = [cases[ci] for ci in todo]
        rs = execute(sub, skip=K)
        rest = []
        for ci, r in zip(todo, rs):
            f = failures(cases[ci][0], r)
            if not f:
                res[ci] = (K, fails0[ci])
            else:
                rest.append(ci)
        todo = rest
    for ci in todo:
        res[ci] = (None, fails0[ci])
    return res


def signatures(v, order, culprit, fl):
    gt = graph_text(v["g"], order)
    has_s = any(nd["k"] == "s" for nd in v["g"])
    out = []
    for op, m in fl[:3]:
        if culprit is not None:
            out.append("after %s%s: %s: %s | %s" % (OPNAME.get(culprit, culprit), " on a graph with a partial string" if has_s else "",
                                                  op, m, gt))
        else:
            out.append("%s: %s | %s" % (op, m, gt))
    return out


def run(tier):
    rep = Report(PROP, tier, META["level"])
    rep.rule = ("quick: every term graph with 1..3 nodes over the node shapes {variable, chain Xi=Xj, a, b, f(Xj), g(Xj,Xk), "
                "'.'(Xj,Xk), \"ab\"||Xj} up to isomorphism (4 791 graphs), equations in forward or backward order; thorough: every "
                "labelled graph with 1..3 nodes (27 297, i.e. every equation order) plus a stride sample of 12 000 of the 4.9 M "
                "4-node graphs in 2 orders; per graph the battery covers every node and every pair of nodes. "
                "distinct = (node kinds multiset, cyclic?, has variables?, operation)")
    res, vecs = generate("MC_C24", "MC_C24_%s.cfg" % tier, workers=8 if tier == "quick" else 12, timeout=7200,
                         key=lambda v: "%d-%09d" % (v["n"], v["code"]), env_extra={"C24_SEED": common.seed()})
    rep.add_tlc(res)
    if not vecs:
        raise common.ToolError("no vectors generated")
    cases = []
    for v in vecs:
        for order in orders_for(v, tier):
            cases.append((v, order))
    results = execute(cases)
    fails0 = {}
    for ci, ((v, order), r) in enumerate(zip(cases, results)):
        kinds = tuple(sorted(nd["k"] for nd in v["g"]))
        cyc = any(not u["ac"] for u in v["un"])
        hasv = any(v["vn"])
        for op in ("acyclic_term", "ground", "term_variables", "==", "compare", "copy_term", "unify"):
            rep.case((kinds, cyc, hasv, op))
        f = failures(v, r)
        if f:
            fails0[ci] = f
    if fails0:
        att = attribute(cases, sorted(fails0), fails0)
        budget = 40          # single-operation localisation of crashes is expensive: first few only
        for ci in sorted(att):
            culprit, fl = att[ci]
            v, order = cases[ci]
            if culprit is None and fl[0][0] == "battery" and budget > 0:
                budget -= 1
                alone = locate(v, order)
                if alone:
                    fl = alone
            det = {"vector": v, "order": order, "query": query(v["g"], order), "culprit": culprit,
                   "failures": [m for _, m in fl[:6]]}
            for sg in signatures(v, order, culprit, fl):
                rep.violation(sg, det)
    step = max(1, len(vecs) // 5)
    for v in vecs[::step]:
        rep.sample({"graph": graph_text(v["g"]), "acyclic": [u["ac"] for u in v["un"]], "eq": v["eq"],
                    "compare": v["cmp"][0]["c"], "unify_ok": [u["ok"] for u in v["un2"]]})
    rep.traces = len(cases)
    rep.exhaustive = (tier == "quick")      # thorough adds a sample of the 4-node graphs
    rep.extra["graphs"] = len(vecs)
    rep.extra["cyclic_graphs"] = sum(1 for v in vecs if any(not u["ac"] for u in v["un"]))
    rep.extra["graphs_with_partial_strings"] = sum(1 for v in vecs if any(nd["k"] == "s" for nd in v["g"]))
    rep.extra["compare_pairs_without_first_difference"] = sum(1 for v in vecs for c in v["cmp"][0]["c"] if c[0] == "?")
    rep.extra["cases_failing"] = len(fails0)
    rep.assumptions = ["TLC", "spec/TermGraph.tla (infinite-tree reading)", "Prolog observation helpers",
                       "equation-set rendering", "watchdog interrupt of the harness (tmo_ms)"]
    return rep.finish()


def replay(path):
    d = json.load(open(path))
    det = d["detail"]
    v, order = det["vector"], det["order"]
    print("graph:", graph_text(v["g"], order))
    print("query:", query(v["g"], order))
    r = execute([(v, order)], workers=1)[0]
    fl = failures(v, r)
    for op, m in fl:
        print("  ", op, m)
    if fl:
        att = attribute([(v, order)], [0], {0: fl})
        print("responsible operation (ablation):", att[0][0])
    if "a" in r:
        print("got:", json.dumps(pyval(r["a"][0]["b"]["Rs"])))
    return 1 if fl else 0
