"""C19 - Stream I/O round-trips and reports positions consistently."""
import hashlib
import json
import os
import shutil

from lib import common, terms
from lib.common import Report, run_tlc, tlc_ok, run_jobs

PROP = "C19"

META = {
    "level": "model_checking",
    "text": "A stream is specified in TLA+ (spec/Stream.tla) as a state machine over (content bytes, type, eof_action, read "
            "position in bytes, end_of_stream not/at/past, lines read, remembered position): get_char/peek_char/get_code/"
            "peek_code/get_byte/peek_byte/get_n_chars/at_end_of_stream/read_term/stream_property position/"
            "set_stream_position on the input side and put_char/put_code/put_byte/nl/write/format followed by close and "
            "re-open on the output side, with the past-end behaviour of every eof_action. TLC explores the complete state "
            "graph of that machine over short payloads (a, e-acute, euro, newline, '.', space, NUL; raw bytes for binary "
            "streams) and decides peek idempotence, agreement of at_end_of_stream/1 with the next read, position = bytes "
            "consumed, line count = newlines consumed, monotonicity and the write/read round trip for the specification; it "
            "then prints every operation sequence within the bounds (plus random walks of 30 operations in the thorough "
            "tier) with the demanded result of every operation and the admissible position/end_of_stream values after "
            "it. The driver replays each sequence on real file streams (open/4 with type, eof_action, reposition, alias) "
            "and compares every result and every stream_property answer. Text vectors whose payload holds a multi-byte character are "
            "replayed a second time with a pad of ASCII text in front that puts that character across a multiple of 8192 bytes "
            "(the pad is consumed first; results as in the vector, positions larger by the pad).",
    "note": "Trusted: TLC, the harness, Python's file I/O as the view of the bytes on disk. Scryer offers no Prolog-level "
            "in-memory streams (only read_term_from_chars/3 and the embedding API's user_input), so the replay is on file "
            "streams only. Where the sources leave freedom (whether the layout character after an end token is consumed; "
            "whether a short get_n_chars/3 makes the stream past) every admissible after-state is accepted and the "
            "behaviour is not followed further if the implementation takes the other branch. Not covered: sockets, "
            "pipes, the terminal, user_input, streams of more than 7 characters, invalid UTF-8 on text streams (C18).",
    "technique": "TLA+ state-machine specification explored by TLC (complete state graph for the invariants, bounded-exhaustive "
                 "operation sequences and random walks as vectors); vectors replayed on real file streams",
}

ALIAS = "s1"
BATCH = 120
PE = ("stream_property(%s, position(position_and_lines_read(P__,L__))), stream_property(%s, end_of_stream(Eos__))"
      % (ALIAS, ALIAS))
LOAD = "use_module(library(charsio)), use_module(library(format)), use_module(library(iso_ext)), use_module(library(lists))."
EOFAS = ["error", "eof_code", "reset"]


def pstr(s):
    return '"' + s.replace("\\", "\\\\").replace('"', '\\"') + '"'


def chars_text(cs):
    return "[" + ",".join(terms.quote_atom(chr(c)) for c in cs) + "]"


def dq(cs):
    """double-quoted Prolog text for a format string"""
    out = []
    for c in cs:
        ch = chr(c)
        if ch == '"':
            out.append('\\"')
        elif ch == "\\":
            out.append("\\\\")
        elif ch == "\n":
            out.append("\\n")
        elif ch == "~":
            out.append("~~")
        elif c < 32:
            out.append("\\x%x\\" % c)
        else:
            out.append(ch)
    return '"' + "".join(out) + '"'


def open_query(path, mode, typ, eofa, repos):
    opts = ["alias(%s)" % ALIAS, "type(%s)" % typ]
    if mode == "read":
        opts.append("eof_action(%s)" % eofa)
        if repos:
            opts.append("reposition(true)")
    return "catch(close(%s), _, true), catch(open(%s, %s, _, [%s]), error(E__,_), true)." % (
        ALIAS, pstr(path), mode, ",".join(opts))


def op_query(st):
    op, k, v = st["op"], st["k"], st["v"]
    S = ALIAS
    if op in ("get_char", "peek_char", "get_code", "peek_code", "get_byte", "peek_byte"):
        return "catch(%s(%s, R__), error(E__,_), true), %s." % (op, S, PE)
    if op == "get_n_chars":
        return "catch(get_n_chars(%s, %d, R__), error(E__,_), true), %s." % (S, k, PE)
    if op == "at_end":
        return "catch((at_end_of_stream(%s) -> R__ = true ; R__ = false), error(E__,_), true), %s." % (S, PE)
    if op == "read_term":
        return "catch(read_term(%s, R__, []), error(E__,_), true), %s." % (S, PE)
    if op == "mark":
        return "stream_property(%s, position(M__)), bb_put(c19_mark, M__), %s." % (S, PE)
    if op == "seek":
        return "bb_get(c19_mark, M__), catch(set_stream_position(%s, M__), error(E__,_), true), %s." % (S, PE)
    # output side
    if op == "put_char":
        g = "put_char(%s, %s)" % (S, terms.quote_atom(chr(v[0])))
    elif op == "put_code":
        g = "put_code(%s, %d)" % (S, v[0])
    elif op == "put_byte":
        g = "put_byte(%s, %d)" % (S, v[0])
    elif op == "nl":
        g = "nl(%s)" % S
    elif op == "write":
        g = "write(%s, %s)" % (S, terms.quote_atom("".join(chr(c) for c in v)))
    elif op == "format_a":
        g = 'format(%s, "~a", [%s])' % (S, terms.quote_atom("".join(chr(c) for c in v)))
    elif op == "format_w":
        g = 'format(%s, "~w", [%s])' % (S, terms.quote_atom("".join(chr(c) for c in v)))
    elif op == "format_s":
        g = 'format(%s, "~s", [%s])' % (S, chars_text(v))
    elif op == "format_lit":
        g = "format(%s, %s, [])" % (S, dq(v))
    else:
        raise common.ToolError("unknown operation %r" % (op,))
    return "catch(%s, error(E__,_), true)." % g


def concrete_eofa(vec, idx):
    return vec["eofa"] if vec["eofa"] != "any" else EOFAS[idx % 3]


def behaviour_steps(vec, idx, wdir):
    """-> (list of harness steps, path of the file, list mapping harness step -> vector step index or tag)"""
    typ, origin = vec["typ"], vec["origin"]
    eofa = concrete_eofa(vec, idx)
    pad = vec.get("pad", 0)
    init = b"x" * pad + bytes(vec["init"])
    if origin == "py":
        path = os.path.join(wdir, "p_%s.dat" % hashlib.sha1(init + typ.encode()).hexdigest()[:16])
        if not os.path.exists(path):
            with open(path, "wb") as f:
                f.write(init)
        steps = [{"q": open_query(path, "read", typ, eofa, vec["repos"]), "max": 2}]
    else:
        path = os.path.join(wdir, "w_%d.dat" % idx)
        if origin == "ap":
            with open(path, "wb") as f:
                f.write(init)
        elif os.path.exists(path):
            os.unlink(path)
        steps = [{"q": open_query(path, "write" if origin == "pl" else "append", typ, eofa, False), "max": 2}]
    tags = ["open"]
    if pad:
        # the padded family: the payload is preceded by pad bytes of ASCII text (no newline), consumed before the first operation
        steps.append({"q": "catch(findall(N0__, (get_n_chars(%s, %d, R0__), length(R0__, N0__)), [N__]), error(E__,_), true), %s." % (ALIAS, pad, PE), "max": 2})
        tags.append("pad")
    for i, st in enumerate(vec["steps"]):
        if st["op"] == "reopen":
            steps.append({"q": "close(%s)." % ALIAS, "max": 2})
            tags.append("close")
            steps.append({"q": open_query(path, "read", typ, eofa, vec["repos"]), "max": 2})
            tags.append(("reopen", i))
        else:
            steps.append({"q": op_query(st), "max": 2})
            tags.append(("op", i))
    steps.append({"q": "catch(close(%s), _, true)." % ALIAS, "max": 2})
    tags.append("end")
    return steps, path, tags


def bindings(out):
    """-> dict var -> canonical term, or ('panic', msg) / ('other', text)"""
    if out is None:
        return ("other", "no result")
    if "panic" in out:
        return ("panic", out["panic"])
    a = out.get("a", [])
    if len(a) >= 1 and a[0] == "T":
        return {}
    if len(a) >= 1 and isinstance(a[0], dict) and "b" in a[0]:
        return {k: terms.from_h(v) for k, v in a[0]["b"].items()}
    return ("other", json.dumps(out, ensure_ascii=False)[:200])


def expected_result(r):
    """canonical description of the demanded result: ('val', term) | ('err', what) | ('ok',)"""
    k, v = r["k"], r["v"]
    if k == "char":
        return ("val", ('a', chr(v[0])))
    if k in ("code", "byte"):
        return ("val", ('i', v[0]))
    if k == "eofa":
        return ("val", ('a', 'end_of_file'))
    if k == "eofc":
        return ("val", ('i', -1))
    if k == "chars":
        return ("val", terms.mk_list([('a', chr(c)) for c in v]))
    if k in ("true", "false"):
        return ("val", ('a', k))
    if k == "term":
        return ("val", ('a', "".join(chr(c) for c in v)))
    if k == "ok":
        return ("ok",)
    if k == "err":
        return ("err", r["e"])
    raise common.ToolError("unknown result kind %r" % (k,))


def got_result(b, direction):
    if "E__" in b:
        e = b["E__"]
        if (e[0] == 'c' and e[1] == 'permission_error' and len(e[2]) == 3 and e[2][0] == ('a', direction)
                and e[2][1][0] == 'a'
                and (e[2][2] == ('a', ALIAS) or (e[2][2][0] == 'c' and e[2][2][1] == '$stream'))):
            return ("err", e[2][1][1])
        return ("err", "other:" + terms.show(e))
    if "R__" in b:
        return ("val", b["R__"])
    return ("ok",)


def brief(x):
    if x[0] == "val":
        t = x[1]
        if t == ('a', 'end_of_file'):
            return "eofa"
        if t == ('i', -1):
            return "eofc"
        return "val:" + terms.show(t)
    if x[0] == "err":
        return "err:" + x[1]
    return x[0]


def check_behaviour(rep, vec, idx, res, tags, stats):
    """compare one replayed behaviour with its vector. Returns False if the session was lost (panic)."""
    typ, origin, fam = vec["typ"], vec["origin"], vec["fam"]
    eofa = concrete_eofa(vec, idx)
    base = {"vector": vec, "index": idx, "eofa": eofa}
    pad = vec.get("pad", 0)
    ident = "typ=%s origin=%s init=%s%s" % (typ, origin, bytes(vec["init"]).hex() or "-", " pad=%d" % pad if pad else "")
    lines_ok = True
    prev = {"pos": 0, "lines": 0, "eos": "at" if not vec["init"] else "not"}
    got_prev_lines = 0
    reading = origin == "py"
    opseq = []
    for out, tag in zip(res, tags):
        b = bindings(out)
        if isinstance(b, tuple):
            if b[0] == "panic":
                rep.violation("panic %s ops=%s %s" % (b[1], ",".join(opseq), ident), dict(base, at=str(tag), got=b[1]))
                return False
            rep.violation("unexpected-answer at=%s ops=%s %s got=%s" % (tag, ",".join(opseq), ident, b[1]),
                          dict(base, at=str(tag), got=b[1]))
            return True
        if tag == "pad":
            ok_pad = "E__" not in b and b.get("N__", (None, None))[1] == pad and b.get("P__", (None, None))[1] == pad
            if not ok_pad:
                rep.violation("pad-read pad=%d %s got=%s" % (pad, ident, str({k: b[k] for k in b if k in ("N__", "P__", "E__", "Eos__")})), dict(base, at="pad"))
                return True
            continue
        if tag in ("open", "close", "end") or tag[0] == "reopen":
            if "E__" in b:
                rep.violation("open-failed at=%s %s got=%s" % (tag, ident, terms.show(b["E__"])), dict(base, at=str(tag)))
                return True
            if tag != "open" and tag != "close" and tag != "end":
                reading = True
                prev = {"pos": 0, "lines": 0, "eos": "at" if not vec["steps"][tag[1]]["r"]["v"] else "not"}
                got_prev_lines = 0
            continue
        st = vec["steps"][tag[1]]
        op = st["op"]
        opseq.append(op if op != "get_n_chars" else "get_n_chars%d" % st["k"])
        exp = expected_result(st["r"])
        got = got_result(b, "input" if reading and op not in ("mark",) else "output")
        rep.case((typ, origin if origin != "py" else "py", op, st["r"]["k"], st["r"]["e"], prev["eos"], eofa if prev["eos"] == "past" else "-"))
        stats["steps"] += 1
        result_ok = (got == exp)
        if not result_ok:
            sig = "result op=%s typ=%s eofa=%s pre=%s exp=%s got=%s" % (op, typ, eofa if prev["eos"] == "past" else "-",
                                                                     prev["eos"], brief(exp), brief(got))
            rep.violation(sig, dict(base, step=tag[1], ops=opseq[:], expected=brief(exp), got=brief(got)))
        if not reading:
            continue
        # observables after the operation
        try:
            gp, gl, ge = b["P__"][1] - pad, b["L__"][1], b["Eos__"][1]
        except Exception:
            rep.violation("no-position op=%s %s" % (op, ident), dict(base, step=tag[1], ops=opseq[:]))
            return True
        alts = st["alts"]
        which = None
        for j, a in enumerate(alts):
            if a["pos"] == gp and a["eos"] == ge:
                which = j
                break
        if which is None:
            if result_ok:
                a = alts[0]
                kind = "pos" if a["pos"] != gp else "eos"
                sig = "%s op=%s typ=%s eofa=%s pre=%s exp=%s/%s got=%s/%s" % (
                    kind, op, typ, eofa if prev["eos"] == "past" else "-", prev["eos"], a["pos"] - prev["pos"], a["eos"],
                    gp - prev["pos"], ge)
                rep.violation(sig, dict(base, step=tag[1], ops=opseq[:], expected=alts, got=[gp, gl, ge]))
            stats["diverged"] += 1
            return True          # the implementation's state is no longer the model's
        a = alts[which]
        if lines_ok and typ == "text" and a["lines"] != gl:
            sig = "lines op=%s exp_delta=%d got_delta=%d" % (op, a["lines"] - prev["lines"], gl - got_prev_lines)
            rep.violation(sig, dict(base, step=tag[1], ops=opseq[:], expected=a, got=[gp, gl, ge]))
            lines_ok = False
        if which != 0:
            stats["freedom"] += 1
            return True          # admissible, but not the branch the model continues with
        prev = a
        got_prev_lines = gl
    return True


def run(tier):
    rep = Report(PROP, tier, META["level"])
    rep.rule = ("TLC enumerates (stream type, origin of the file, payload, eof_action, sequence of operations) within the bounds: "
                "quick = all sequences of 4 (content of <= 1 character) or 3 operations from two text families (5 + 4 "
                "operations) and 4 binary operations over 31 text and 21 binary payloads, plus write-then-read round trips of <= 2 "
                "writes and 2 reads; thorough = the full 7-operation text family with 4 operations on contents of <= 2 characters, "
                "a second family (get_n_chars 1, position mark/seek, wrong-type reads), payloads of 3 characters/bytes and random "
                "walks of 30 operations over all 13 operations. distinct = (type, origin, operation, demanded result "
                "kind, end_of_stream before, eof_action when past)")
    workers = 8
    inv = tlc_ok(run_tlc("MC_C19", "MC_C19_inv_%s.cfg" % tier, workers=workers, timeout=1800), "C19 invariants")
    rep.add_tlc(inv)
    res, vecs = common.generate("MC_C19", "MC_C19_%s.cfg" % tier, workers=workers, timeout=3000)
    rep.add_tlc(res)
    if tier == "thorough":
        for r in common.simulate_parallel("MC_C19", "MC_C19_walk.cfg", procs=4, num=300, depth=40, timeout=1800):
            tlc_ok(r, "C19 walks")
            rep.add_tlc(r)
            seen = set()
            for v in r.printed():
                k = json.dumps(v, sort_keys=True)
                if k not in seen:
                    seen.add(k)
                    vecs.append(v)
    if not vecs:
        raise common.ToolError("no vectors generated")
    vecs += padded(vecs, 300 if tier == "quick" else 3000)
    return replay_vectors(rep, vecs)


REFILL = 8192       # the reader takes its input in blocks of this many bytes (an implementation constant: only used to aim the pads)


def padded(vecs, cap):
    """The padded family: a text file read from the beginning whose payload contains a multi-byte character is also replayed with
    PAD bytes of ASCII text in front of the payload, PAD chosen so that the first multi-byte character lies across a multiple
    of REFILL bytes; the pad is consumed by one get_n_chars/3 before the first operation. Stream.tla reads the content only from
    the current position on and counts positions in bytes, so every demanded result is that of the unpadded vector and every
    position is larger by PAD (not so after a reset to the beginning: eof_action(reset) vectors are left out)."""
    out = []
    for i, v in enumerate(vecs):
        if v["origin"] != "py" or v["typ"] != "text" or concrete_eofa(v, i) == "reset":
            continue
        if any(st["op"] == "reopen" for st in v["steps"]):
            continue
        init = bytes(v["init"])
        off = next((k for k, b in enumerate(init) if b >= 0xC0), None)
        if off is None:
            continue
        n = 2 if init[off] < 0xE0 else 3 if init[off] < 0xF0 else 4
        for back in range(1, n):
            pv = dict(v)
            pv["pad"] = REFILL - off - back
            pv["eofa"] = concrete_eofa(v, i)
            out.append(pv)
    step = max(1, len(out) // cap)
    return out[::step][:cap]


def replay_vectors(rep, vecs, keep=False):
    wdir = os.path.join(common.WORK, "c19-%d" % os.getpid())
    shutil.rmtree(wdir, ignore_errors=True)
    os.makedirs(wdir)
    stats = {"steps": 0, "diverged": 0, "freedom": 0, "behaviours": 0}
    try:
        pending = [(i, False) for i in range(len(vecs))]        # (behaviour index, run it alone)
        rounds = 0
        while pending and rounds < 8:
            rounds += 1
            groups = []
            batch = []
            for idx, solo in pending:
                if solo:
                    groups.append([idx])
                else:
                    batch.append(idx)
                    if len(batch) == BATCH:
                        groups.append(batch)
                        batch = []
            if batch:
                groups.append(batch)
            jobs, plan = [], {}
            for gi, chunk in enumerate(groups):
                steps = [{"q": LOAD, "max": 2}]
                layout = []
                for idx in chunk:
                    st, path, tags = behaviour_steps(vecs[idx], idx, wdir)
                    layout.append((idx, len(steps), len(st), tags, path))
                    steps += st
                jid = "r%d-%d" % (rounds, gi)
                jobs.append({"id": jid, "steps": steps, "timeout": 300 if len(chunk) > 1 else 60, "fresh": True})
                plan[jid] = layout
            results = run_jobs(jobs, workers=8, job_timeout=300)
            nxt = []
            for job in jobs:
                layout = plan[job["id"]]
                r = results.get(job["id"], {"crash": "missing"})
                if "crash" in r:
                    # a hang or an abort of the code under test inside this batch: isolate it by running singly
                    if len(layout) == 1:
                        idx = layout[0][0]
                        rep.violation("crash %s typ=%s init=%s" % (r["crash"], vecs[idx]["typ"], bytes(vecs[idx]["init"]).hex()),
                                      {"vector": vecs[idx], "index": idx, "got": r["crash"]})
                        stats["behaviours"] += 1
                    else:
                        nxt += [(x[0], True) for x in layout]
                    continue
                rr = r["res"]
                lost = False
                for (idx, off, n, tags, path) in layout:
                    if lost:
                        nxt.append((idx, False))      # the machine was rebuilt after a panic: run the rest again
                        continue
                    ok = check_behaviour(rep, vecs[idx], idx, rr[off:off + n], tags, stats)
                    stats["behaviours"] += 1
                    if ok:
                        check_file(rep, vecs[idx], idx, path)
                    else:
                        lost = True
            pending = nxt
        if pending:
            raise common.ToolError("could not replay %d behaviours after %d rounds" % (len(pending), rounds))
    finally:
        if not keep:
            shutil.rmtree(wdir, ignore_errors=True)
    rep.traces = stats["behaviours"]
    rep.extra["operations_compared"] = stats["steps"]
    rep.extra["behaviours_left_at_admissible_alternative"] = stats["freedom"]
    rep.extra["behaviours_stopped_after_divergence"] = stats["diverged"]
    for v in vecs[:: max(1, len(vecs) // 5)]:
        rep.sample({"typ": v["typ"], "origin": v["origin"], "init": v["init"], "eofa": v["eofa"],
                    "ops": [[s["op"], s["r"]["k"], s["r"]["v"], s["alts"][0]["pos"], s["alts"][0]["eos"]] for s in v["steps"]]})
    rep.exhaustive = True
    rep.assumptions = ["TLC and spec/Stream.tla (its invariants are model-checked in the same run)",
                       "the harness's LeafAnswer projection; Python file I/O as the view of the bytes on disk",
                       "alias-based access to the stream across queries (open/4 option alias/1)"]
    return rep.finish()


def check_file(rep, vec, idx, path):
    """write-then-read: the bytes on disk are the content the specification demands at re-opening"""
    for st in vec["steps"]:
        if st["op"] == "reopen":
            want = bytes(st["r"]["v"])
            try:
                with open(path, "rb") as f:
                    have = f.read()
            except OSError as e:
                have = ("missing: %s" % e).encode()
            if have != want:
                wops = [s["op"] for s in vec["steps"] if s["op"] not in ("reopen",)][:3]
                rep.violation("file-content typ=%s origin=%s writes=%s exp=%s got=%s" % (
                    vec["typ"], vec["origin"], ",".join(wops), want.hex(), have.hex()[:60]),
                    {"vector": vec, "index": idx, "expected": want.hex(), "got": have.hex()})
    if vec["origin"] != "py":
        try:
            os.unlink(path)
        except OSError:
            pass


def replay(path):
    d = json.load(open(path))
    det = d["detail"]
    vec = det["vector"]
    idx = det.get("index", 0)
    rep = Report(PROP, "replay", META["level"])
    rep.known = []
    wdir = os.path.join(common.WORK, "c19-replay-%d" % os.getpid())
    os.makedirs(wdir, exist_ok=True)
    try:
        steps, fpath, tags = behaviour_steps(vec, idx, wdir)
        r = run_jobs([{"id": 0, "steps": [{"q": LOAD}] + steps, "fresh": True}], workers=1)[0]
        for q, out, tag in zip(steps, r.get("res", [None])[1:], tags):
            b = bindings(out)
            shown = {k: terms.show(v) for k, v in b.items()} if isinstance(b, dict) else b
            exp = ""
            if isinstance(tag, tuple) and tag[0] == "op":
                st = vec["steps"][tag[1]]
                exp = "   EXPECTED %s after=%s" % (brief(expected_result(st["r"])), json.dumps(st["alts"]))
            print(q["q"], " ==> ", shown, exp)
    finally:
        shutil.rmtree(wdir, ignore_errors=True)
    return 0
