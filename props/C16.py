"""C16 - Numeric literals and number/text conversions are exact."""
import json
import os
import random
import re
import struct
import time

from lib import common, terms
from lib.common import Report, run_tlc, tlc_ok, run_jobs

PROP = "C16"

META = {
    "level": "model_checking",
    "text": "The numeric token of Prolog text (decimal with digit groups, 0b/0o/0x, 0'c with the escape table, fraction, "
            "exponent, end-of-integer look-ahead, negative literals, layout text) is specified in TLA+ (NumLex) with exact "
            "BigInt values; the binary64 of a float literal is the correctly rounded (nearest, ties to even) M*10^E computed "
            "with BigInt arithmetic in the specification (TLC checks it against exactly representable decimals, exact "
            "midpoints and their neighbours). TLC enumerates every spelling up to the length bound over an 18-character "
            "alphabet plus a catalogue of long literals and seeded random spellings; each is replayed through number_codes/2, "
            "number_chars/2 and read_term_from_chars/3. Numbers (boundary integers, doubles by bit pattern) are printed by "
            "number_codes/2 and number_chars/2, re-read by the implementation (must be identical) and the printed texts are "
            "read by the specification (must denote the number). Bounded-exhaustive conformance, not proof.",
    "note": "Trusted: TLC, BigInt.tla, the rendering of code lists and decimal integers in queries, atom_codes/atom_chars/append, "
            "float(Q)*2.0**E to construct a double from its bit pattern (verified against the bits reported by the harness). "
            "atom_number/2 does not exist in this tree and is not exercised; number_codes/2 rejects non-integer rationals with a "
            "type_error so rationals have no text round trip; read_term/2 on a stream is not exercised (read_term_from_chars/3 is).",
    "technique": "TLA+ value-level specification (lexer automaton + correct rounding) enumerated by TLC; vectors replayed into the "
                 "real reader and conversion builtins; printed texts validated against the specification (trace validation)",
}

ALPHABET = [48, 49, 55, 57, 97, 102, 120, 98, 111, 39, 92, 46, 101, 69, 43, 45, 95, 32]
STARTS = [48, 49, 55, 57, 43, 45, 39]
WORKDIR = os.path.join(common.WORK, "c16")


# ------------------------------------------------------------------------------------------------
# inputs chosen by the driver (seeded); their expected values still come from the specification
# ------------------------------------------------------------------------------------------------

def rand_literal(rng, maxlen):
    """a random spelling biased towards well-formed tokens, possibly followed by a stray character"""
    d = lambda n: "".join(rng.choice("0179") for _ in range(n))
    kind = rng.randrange(9)
    if kind == 0:
        body = d(rng.randint(1, 4))
    elif kind == 1:
        body = d(rng.randint(1, 2)) + "_" + rng.choice(["", " "]) + d(rng.randint(1, 2))
    elif kind == 2:
        body = d(rng.randint(1, 2)) + "." + d(rng.randint(1, 3))
    elif kind == 3:
        body = d(1) + "." + d(rng.randint(1, 2)) + rng.choice("eE") + rng.choice(["", "+", "-"]) + d(rng.randint(1, 2))
    elif kind == 4:
        body = "0x" + "".join(rng.choice("0179afbeE") for _ in range(rng.randint(1, 4)))
    elif kind == 5:
        body = rng.choice(["0b", "0o"]) + "".join(rng.choice("017") for _ in range(rng.randint(1, 4)))
    elif kind == 6:
        body = "0'" + rng.choice(["a", "f", "x", "0", "9", " ", ".", "+", "-", "_", "e", "''", "\\\\", "\\'", "\\a", "\\b",
                                   "\\f", "\\1\\", "\\7\\", "\\x1\\", "\\xa\\", "\\17\\", "\\xf\\"])
    elif kind == 7:
        body = d(1) + rng.choice(["e", "E", ".", "_", "'", "\\", "x", "b", "o"]) + "".join(
            chr(rng.choice(ALPHABET)) for _ in range(rng.randint(0, 3)))
    else:
        body = "".join(chr(rng.choice(ALPHABET)) for _ in range(rng.randint(1, maxlen - 1)))
    pre = rng.choice(["", "", "", "-", "- ", "+", " "])
    post = rng.choice(["", "", "", chr(rng.choice(ALPHABET)), chr(rng.choice(ALPHABET)) + chr(rng.choice(ALPHABET))])
    s = (pre + body + post)[:maxlen]
    if not s or ord(s[0]) not in STARTS + [32]:
        s = "1" + s[: maxlen - 1]
    return s


def build_extra(tier, path):
    rng = random.Random(common.seed() * 7919 + (1 if tier == "quick" else 2))
    lines = []
    seen = set()
    if tier == "quick":
        n_lex, lo, hi, n_flt = 2500, 6, 7, 200
    else:
        n_lex, lo, hi, n_flt = 60000, 6, 8, 4000
    tries = 0
    while len(seen) < n_lex and tries < n_lex * 20:
        tries += 1
        if rng.random() < 0.35:
            ln = rng.randint(lo, hi)
            s = chr(rng.choice(STARTS)) + "".join(chr(rng.choice(ALPHABET)) for _ in range(ln - 1))
        else:
            s = rand_literal(rng, hi)
            if len(s) < lo:
                continue
        if s in seen:
            continue
        seen.add(s)
        lines.append({"k": "lex", "s": [ord(c) for c in s]})
    fl = set()
    while len(fl) < n_flt:
        r = rng.random()
        if r < 0.6:
            b = rng.getrandbits(64)
        elif r < 0.8:   # short decimals as the nearest double
            b = terms.float_bits(float("%de%d" % (rng.randint(1, 99999), rng.randint(-30, 30))))
            b |= rng.getrandbits(1) << 63
        else:           # integers and dyadic fractions
            b = terms.float_bits(rng.randint(1, 1 << 53) / float(1 << rng.randint(0, 60)))
        if (b >> 52) & 0x7ff == 0x7ff or b == 1 << 63:
            continue
        fl.add(b)
    for b in sorted(fl):
        lines.append({"k": "flt", "s": [ord(c) for c in str(b)]})
    with open(path, "w") as f:
        for ln in lines:
            f.write(json.dumps(ln) + "\n")
    return len(seen), len(fl)


# ------------------------------------------------------------------------------------------------
# sanity cross-check of the oracle with Python (ToolError on mismatch; Python never decides a verdict)
# ------------------------------------------------------------------------------------------------

def py_value(text):
    """value of a plain spelling by Python's own conversions, or None if this helper does not cover the spelling"""
    m = re.fullmatch(r"(-?)([0-9]+)", text)
    if m:
        return ("int", int(text))
    m = re.fullmatch(r"(-?)0x([0-9a-fA-F]+)", text)
    if m:
        return ("int", int(m.group(1) + m.group(2), 16))
    m = re.fullmatch(r"(-?)0o([0-7]+)", text)
    if m:
        return ("int", int(m.group(1) + m.group(2), 8))
    m = re.fullmatch(r"(-?)0b([01]+)", text)
    if m:
        return ("int", int(m.group(1) + m.group(2), 2))
    m = re.fullmatch(r"(-?)[0-9]+\.[0-9]+([eE][+-]?[0-9]+)?", text)
    if m:
        try:
            x = float(text)      # CPython's conversion is correctly rounded
        except (OverflowError, ValueError):
            return None
        if x in (float("inf"), float("-inf")):
            return ("err", 0)
        if x == 0:
            return ("float", 0)
        return ("float", terms.float_bits(x))
    return None


def selfcheck(vecs):
    n = 0
    for v in vecs:
        if v["kind"] != "lex":
            continue
        text = "".join(chr(c) for c in v["s"])
        pv = py_value(text)
        if pv is None:
            continue
        n += 1
        got = (v["nc"]["k"], int(v["nc"]["v"]))
        if got != pv:
            raise common.ToolError("oracle self-check failed for %r: spec=%s python=%s" % (text, got, pv))
    return n


# ------------------------------------------------------------------------------------------------
# replay
# ------------------------------------------------------------------------------------------------

PRELUDE = [{"q": "use_module(library(charsio))."}, {"q": "use_module(library(lists))."}]
NPRE = len(PRELUDE)


def codes_text(cs):
    return "[" + ",".join(str(c) for c in cs) + "]"


def lex_query(cs):
    return ("Cs = %s, atom_codes(A, Cs), atom_chars(A, Ch), "
            "catch(number_codes(X1, Cs), error(E1, _), true), "
            "catch(number_chars(X2, Ch), error(E2, _), true), "
            "append(Ch, \" .\", Ch2), "
            "catch(read_term_from_chars(Ch2, X3, []), error(E3, _), true)." % codes_text(cs))


def num_of(t):
    """harness term -> ('int', n) | ('float', bits) | None"""
    if t is None:
        return None
    if "i" in t:
        return ("int", int(t["i"]))
    if "f" in t:
        return ("float", int(t["f"], 16))
    return None


def is_syntax_error(t):
    return t is not None and t.get("c") == "syntax_error" and len(t.get("args", [])) == 1


def show_term(t):
    try:
        return terms.show(terms.from_h(t))
    except Exception:
        return json.dumps(t)


def leg_result(b, xv, ev):
    """classify one leg from the bindings: ('int',n) ('float',bits) ('err',0) ('term',text) ('error',text) ('unbound',)"""
    if ev in b and "v" not in b[ev]:
        if is_syntax_error(b[ev]):
            return ("err", 0)
        return ("error", show_term(b[ev]))
    if xv in b and "v" not in b[xv]:
        n = num_of(b[xv])
        if n is not None:
            return n
        return ("term", show_term(b[xv])[:80])
    return ("term", "_")     # an unbound variable (a variable token was read)


def expected_of(r):
    if r["k"] in ("int", "float"):
        return (r["k"], int(r["v"]))
    if r["k"] == "err":
        return ("err", 0)
    return (r["k"],)        # "other" | "any"


def agrees(exp, got):
    if exp[0] == "any":     # the specification makes no statement
        return True
    if exp[0] == "other":   # the reader must not produce a number: a syntax error or a non-numeric term
        return got[0] in ("err", "term")
    return exp == got


def fmt(x):
    if x[0] == "float":
        return "float:%016x" % x[1]
    return ":".join(str(y) for y in x)


def mantissa_digits(text):
    """number of decimal digits before the exponent (a label for violation signatures only)"""
    m = re.search(r"([0-9_ ]+\.[0-9]+)", text)
    return len(re.sub(r"[^0-9]", "", m.group(1)).lstrip("0")) if m else 0


def shape(text):
    return re.sub(r"\d+", "9", text)


def run(tier):
    rep = Report(PROP, tier, META["level"])
    os.makedirs(WORKDIR, exist_ok=True)
    extra_path = os.path.join(WORKDIR, "extra-%s-%d.ndjson" % (tier, os.getpid()))
    n_rand_lex, n_rand_flt = build_extra(tier, extra_path)
    try:
        res, vecs = common.generate("MC_C16", "MC_C16_%s.cfg" % tier, workers=8 if tier == "quick" else 12,
                                    timeout=900 if tier == "quick" else 5400, env_extra={"C16_EXTRA": extra_path})
    finally:
        try:
            os.unlink(extra_path)
        except OSError:
            pass
    rep.add_tlc(res)
    rep.extra["tlc_generate_wall_s"] = round(res.wall, 1)
    lex = {}
    for v in vecs:
        if v["kind"] == "lex":
            lex.setdefault(tuple(v["s"]), v)
    lexv = [lex[k] for k in sorted(lex)]
    ints = sorted({int(v["v"]) for v in vecs if v["kind"] == "int"})
    flts = {}
    for v in vecs:
        if v["kind"] == "flt":
            flts.setdefault(int(v["bits"]), (v["neg"], int(v["q"]), int(v["e"]), v["src"]))
    if not lexv or not ints or not flts:
        raise common.ToolError("no vectors generated")
    n_self = selfcheck(lexv)
    # doubles that the specification computed for float literals also take part in the printing round trip
    rng = random.Random(common.seed() * 104729 + 5)
    litbits = sorted({int(v["nc"]["v"]) for v in lexv if v["nc"]["k"] == "float"})
    cap = 250 if tier == "quick" else 2500
    if len(litbits) > cap:
        litbits = sorted(rng.sample(litbits, cap))
    for b in litbits:
        if b not in flts and b != 0:
            mag = b & ((1 << 63) - 1)
            be, fr = mag >> 52, mag & ((1 << 52) - 1)
            q, e = (fr, -1074) if be == 0 else (fr | (1 << 52), be - 1075)
            flts[b] = (bool(b >> 63), q, e, "literal")

    rep.rule = ("spellings: every string of length <= 4 (quick: plus the length-5 strings whose token covers at least 4 characters; "
                "thorough: every string of length <= 5) over the 18-character alphabet {0 1 7 9 a f x b o ' \\ . e E + - _ space} "
                "starting with a digit, sign or quote, a catalogue of long and special literals, seeded random spellings of length "
                "6-8; each replayed through number_codes/2, number_chars/2 and read_term_from_chars/3 (three legs per spelling). "
                "round trip: boundary integers up to 2^200 and 10^100, doubles by bit pattern (exponent/fraction boundary grid, "
                "nearest doubles of powers of ten, doubles of the float literals, seeded random patterns), two printers each. "
                "distinct = distinct (token form, digit groups, sign, leading layout, what follows the token, expected kind, leg) "
                "resp. (printer, kind, magnitude class, text shape)")

    # ---- spellings ----
    t_phase = time.time()
    B = 150
    CH = 400 * B          # spellings per round of jobs (bounds the memory held for results)
    legs = [("codes", "X1", "E1", "nc"), ("chars", "X2", "E2", "nc"), ("read", "X3", "E3", "rd")]
    for c0 in range(0, len(lexv), CH):
      jobs = []
      for bi in range(c0, min(c0 + CH, len(lexv)), B):
          steps = list(PRELUDE)
          for v in lexv[bi:bi + B]:
              steps.append({"q": lex_query(v["s"]), "max": 2})
          jobs.append({"id": bi, "steps": steps, "timeout": 120})
      results = run_jobs(jobs, workers=8, job_timeout=120)
      for job in jobs:
          bi = job["id"]
          r = results.get(bi, {"crash": "missing"})
          batch = lexv[bi:bi + B]
          if "crash" in r:
              # find the culprit by re-running the batch one query per job
              single = [{"id": j, "steps": PRELUDE + [{"q": lex_query(v["s"]), "max": 2}], "timeout": 30}
                        for j, v in enumerate(batch)]
              rs = run_jobs(single, workers=8, job_timeout=30)
              outs = []
              for j, v in enumerate(batch):
                  x = rs.get(j, {"crash": "missing"})
                  outs.append({"crash": x["crash"]} if "crash" in x else x["res"][NPRE])
          else:
              outs = r["res"][NPRE:]
          for v, out in zip(batch, outs):
              text = "".join(chr(c) for c in v["s"])
              base = (v["form"], v["grp"], v["neg"], v["lead"], v["rest"])
              if "a" not in out or len(out["a"]) != 1 or not isinstance(out["a"][0], dict) or "b" not in out["a"][0]:
                  what = out.get("panic") or out.get("crash") or json.dumps(out.get("a"))[:200]
                  rep.case(base + ("abnormal",))
                  rep.violation("lex abnormal form=%s rest=%s text=%s result=%s" % (v["form"], v["rest"], json.dumps(text), what),
                                {"vector": v, "query": lex_query(v["s"]), "result": out})
                  continue
              b = out["a"][0]["b"]
              for leg, xv, ev, fld in legs:
                  exp = expected_of(v[fld])
                  got = leg_result(b, xv, ev)
                  rep.case(base + (v["rrest"] if leg == "read" else "", exp[0], leg))
                  if not agrees(exp, got):
                      extra = ""
                      if exp[0] == "float" and got[0] == "float" and (exp[1] >> 63) == (got[1] >> 63):
                          extra = " ulps=%d mantissa_digits=%d" % (abs(exp[1] - got[1]), mantissa_digits(text))
                      elif exp[0] == "err" and got[0] == "float":
                          extra = " mantissa_digits=%d" % mantissa_digits(text)
                      rep.violation("lex leg=%s form=%s grp=%d rest=%s eot=%d text=%s expected=%s got=%s%s" % (
                          leg, v["form"] if leg != "read" else v["rform"], int(v["grp"]),
                          v["rest"] if leg != "read" else v["rrest"], int(v["eot"]), json.dumps(text), fmt(exp), fmt(got), extra),
                          {"vector": v, "leg": leg, "expected": exp, "got": got, "query": lex_query(v["s"])})
    for v in lexv[:: max(1, len(lexv) // 3)][:3]:
        rep.sample({"text": "".join(chr(c) for c in v["s"]), "number_codes": v["nc"], "read": v["rd"]})

    rep.extra["replay_spellings_wall_s"] = round(time.time() - t_phase, 1)
    t_phase = time.time()

    # ---- printing round trip ----
    nums = [("int", n, None) for n in ints]
    for bits in sorted(flts):
        neg, q, e, src = flts[bits]
        nums.append(("float", bits, (neg, q, e, src)))

    def rt_query(kind, val, dec):
        if kind == "int":
            mk = "N = %s" % (str(val) if val >= 0 else "(%d)" % val)
        else:
            neg, q, e, _ = dec
            mk = "N is %sfloat(%d) * 2.0 ** (%d)" % ("-" if neg else "", q, e)
        return (mk + ", number_codes(N, Cs), number_chars(N, Ch), "
                "catch(number_codes(M1, Cs), error(E1, _), true), catch(number_chars(M2, Ch), error(E2, _), true), "
                "( M1 == N -> R1 = same ; R1 = different ), ( M2 == N -> R2 = same ; R2 = different ).")

    jobs = []
    for bi in range(0, len(nums), B):
        steps = list(PRELUDE)
        for kind, val, dec in nums[bi:bi + B]:
            steps.append({"q": rt_query(kind, val, dec), "max": 2})
        jobs.append({"id": bi, "steps": steps, "timeout": 120})
    results = run_jobs(jobs, workers=8, job_timeout=120)
    trace = []     # lines for the specification: text printed for a number
    trace_info = {}
    unbuilt = []

    def magclass(kind, val):
        if kind == "int":
            a = abs(val)
            for bnd in (1, 31, 53, 56, 62, 63, 64, 70, 128):
                if a < (1 << bnd):
                    return (val < 0, bnd)
            return (val < 0, 999)
        be = (val >> 52) & 0x7ff
        return (bool(val >> 63), "sub" if be == 0 else be // 64)

    for job in jobs:
        bi = job["id"]
        r = results.get(bi, {"crash": "missing"})
        batch = nums[bi:bi + B]
        if "crash" in r:
            rep.violation("roundtrip batch crashed: %s" % r["crash"], {"job": job, "result": r})
            continue
        for (kind, val, dec), out in zip(batch, r["res"][NPRE:]):
            q = rt_query(kind, val, dec)
            name = ("%d" % val) if kind == "int" else ("%016x" % val)
            if "a" not in out or len(out["a"]) != 1 or not isinstance(out["a"][0], dict) or "b" not in out["a"][0]:
                what = out.get("panic") or json.dumps(out.get("a"))[:200]
                rep.case((kind, "abnormal"))
                rep.violation("roundtrip abnormal %s %s result=%s" % (kind, name, what), {"query": q, "result": out})
                continue
            b = out["a"][0]["b"]
            n = num_of(b.get("N"))
            if n != (kind, val):
                unbuilt.append((kind, name, n))
                continue
            texts = {}
            if "l" in b.get("Cs", {}) and all("i" in c for c in b["Cs"]["l"]):
                texts["number_codes"] = [int(c["i"]) for c in b["Cs"]["l"]]
            if "s" in b.get("Ch", {}):
                texts["number_chars"] = [ord(c) for c in b["Ch"]["s"]]
            for printer, mv, ev, rv in (("number_codes", "M1", "E1", "R1"), ("number_chars", "M2", "E2", "R2")):
                if printer not in texts:
                    rep.case((printer, kind, "notext"))
                    rep.violation("roundtrip %s %s %s produced no text: %s" % (printer, kind, name, json.dumps(b)[:200]),
                                  {"query": q, "result": out})
                    continue
                text = "".join(chr(c) for c in texts[printer])
                rep.case((printer, kind, magclass(kind, val), shape(text)))
                got = leg_result(b, mv, ev)
                same = b.get(rv, {}).get("a")
                if got != (kind, val) or same != "same":
                    rep.violation("roundtrip %s %s %s text=%s shape=%s reread=%s ==:%s" % (
                        printer, kind, name, json.dumps(text), shape(text), fmt(got), same),
                        {"query": q, "number": [kind, name], "text": text, "reread": got, "result": out})
                key = (tuple(texts[printer]), kind, val)
                if key not in trace_info:
                    mag = abs(val) if kind == "int" else val
                    trace_info[key] = (len(trace), printer, kind, name, text)
                    trace.append({"i": len(trace), "s": texts[printer], "k": kind,
                                  "neg": (kind == "int" and val < 0), "v": [ord(c) for c in str(mag)]})
    if unbuilt:
        raise common.ToolError("could not construct %d round-trip numbers (arithmetic outside this property), e.g. %r"
                               % (len(unbuilt), unbuilt[:3]))

    rep.extra["replay_roundtrip_wall_s"] = round(time.time() - t_phase, 1)

    # ---- the printed texts, read by the specification ----
    if trace:
        tpath = os.path.join(WORKDIR, "trace-%s-%d.ndjson" % (tier, os.getpid()))
        with open(tpath, "w") as f:
            for ln in trace:
                f.write(json.dumps(ln) + "\n")
        try:
            tres = tlc_ok(run_tlc("Trace_C16", "Trace_C16.cfg", workers=8 if tier == "quick" else 12,
                                  timeout=900 if tier == "quick" else 5400, env_extra={"TRACE": tpath}), "Trace_C16")
        finally:
            try:
                os.unlink(tpath)
            except OSError:
                pass
        rep.add_tlc(tres)
        rep.extra["tlc_trace_wall_s"] = round(tres.wall, 1)
        verdicts = {v["i"]: v for v in tres.printed() if isinstance(v, dict) and "ok" in v}
        if len(verdicts) != len(trace):
            raise common.ToolError("Trace_C16 returned %d verdicts for %d texts" % (len(verdicts), len(trace)))
        for key, (i, printer, kind, name, text) in trace_info.items():
            vd = verdicts[i]
            rep.case(("spec-reads", printer, kind, shape(text)))
            if not vd["ok"]:
                rep.violation("printed %s %s %s text=%s shape=%s denotes=%s:%s" % (
                    printer, kind, name, json.dumps(text), shape(text), vd["k"], vd["v"]),
                    {"number": [kind, name], "printer": printer, "text": text, "spec_reads": vd})
    rep.traces = len(lexv) + len(trace)
    rep.exhaustive = True
    rep.extra["spellings"] = len(lexv)
    rep.extra["spellings_random"] = n_rand_lex
    rep.extra["roundtrip_integers"] = len(ints)
    rep.extra["roundtrip_doubles"] = len(flts)
    rep.extra["printed_texts_validated_by_spec"] = len(trace)
    rep.extra["oracle_selfcheck_cases"] = n_self
    rep.assumptions = [
        "TLC, BigInt.tla and NumLex.tla (sanity invariants checked in this run; %d plain spellings cross-checked with Python int()/float())" % n_self,
        "exhaustive refers to the enumerated spellings of the stated alphabet and length; random spellings and doubles are samples "
        "(every finite double is sampled, not enumerated)",
        "atom_number/2 is not defined in this tree (existence_error) and is not exercised",
        "number_codes/2 and number_chars/2 raise type_error(number, R) for a non-integer rational R: rationals have no text round trip to exercise",
        "Scryer floats have a single zero: -0.0 is read and computed as 0.0, so it is not a member of the round-trip set",
        "read_term/2 on a stream is not exercised; read_term_from_chars/3 is",
        "doubles are constructed as float(Q)*2.0**E and verified against the bit pattern reported by the harness",
    ]
    return rep.finish()


def replay(path):
    d = json.load(open(path))
    det = d["detail"]
    q = det.get("query")
    if not q:
        print(json.dumps(det, indent=1, default=str))
        return 0
    r = run_jobs([{"id": 0, "steps": PRELUDE + [{"q": q, "max": 2}], "timeout": 60}], workers=1)
    print(json.dumps({"signature": d["signature"], "query": q, "expected": det.get("expected"),
                      "result": r[0].get("res", [r[0]])[-1]}, indent=1, default=str))
    return 0
