"""C09 - Dynamic predicates follow the logical update view."""
import json
from lib import common, terms
from lib.common import Report, run_jobs, generate
from lib.prolog_replay import Prog, unrename_term

PROP = "C09"
META = {
    "level": "model_checking",
    "text": "Layer A (spec/Prolog.tla) defines the logical update view: a call, retract/1 and clause/2 iterate over a snapshot of "
            "the clause list taken when they start. TLC enumerates every script of up to 3 (thorough 4) goals over a 14-goal "
            "alphabet (iteration with bound/unbound first argument, assertz/asserta, retract by pattern and by value, clause/2, "
            "findall, negation, asserting rules and variables) ending in fail, from several initial databases, checks machine "
            "invariants at each step and prints the expected log and final database; each script is replayed on a fresh dynamic "
            "predicate of the real system and log, outcome and final clause list are compared.",
    "note": "Trusted: TLC; spec/Prolog.tla; the renderer; log/1 realised as assertz(logged(T)). A script that loops in the real system "
            "(wrong update view) is reported as a violation after a 20 s timeout (normal time: milliseconds). The implementation-level "
            "mechanism (birth/death stamps and the saved clock cell) is exercised but not traced in this round.",
    "technique": "TLA+ abstract machine explored by TLC; behaviours replayed into the real dynamic database (spec -> impl)",
}
HELPERS = ":- dynamic(logged/1).\nlog(T) :- assertz(logged(T)).\n"
RENAME = [("p", 1), ("m", 2)]


def run(tier):
    rep = Report(PROP, tier, "model_checking")
    rep.rule = ("all scripts of length <= 3 (thorough 4) over the 14-goal alphabet of MC_C09 x initial databases; "
                "distinct = the multiset of goal kinds in the script x initial size")
    res, vecs = generate("MC_C09", "MC_C09_%s.cfg" % tier, workers=8 if tier == "quick" else 14, timeout=3000)
    rep.add_tlc(res)
    # the spec leaves open whether a re-entered retract/1 reports snapshot clauses erased meanwhile: two variants per script
    alt = {}
    prim = []
    for v in vecs:
        k = (tuple(v["sc"]), len(v["prog"]))
        if k in alt:
            if json.dumps(v["out"], sort_keys=True) != json.dumps(alt[k]["out"], sort_keys=True) or \
               json.dumps(v["db"], sort_keys=True) != json.dumps(alt[k]["db"], sort_keys=True):
                alt[k]["_alt"] = v
        else:
            alt[k] = v
            prim.append(v)
    vecs = prim
    jobs, progs = [], {}
    B = 100
    for bi in range(0, len(vecs), B):
        steps = [{"consult": HELPERS}]
        for j, v in enumerate(vecs[bi:bi + B]):
            pr = Prog(v, "%d" % j, RENAME)
            progs[(bi, j)] = pr
            pn = pr.mapping[("p", 1)]
            mn = pr.mapping[("m", 2)]
            steps.append({"consult": pr.text})
            steps.append({"q": "retractall(logged(_)).", "max": 2})
            steps.append({"q": pr.qtext, "max": 3, "tmo_ms": 3000})
            steps.append({"q": "findall(T, logged(T), L).", "max": 2})
            if v["sc"] and v["sc"][0] > 100:
                steps.append({"q": "findall((H:-B), (H = %s(_,_), clause(H,B)), L)." % terms.quote_atom(mn), "max": 2})
            else:
                steps.append({"q": "findall((H:-B), (H = %s(_), clause(H,B)), L)." % terms.quote_atom(pn), "max": 2})
        jobs.append({"id": bi, "steps": steps, "timeout": 120, "fresh": True})
    results = run_jobs(jobs, workers=8, job_timeout=120)

    UPDATES = {4, 5, 6, 7, 8, 12, 14}

    def check(pr, rs):
        d = check1(pr, pr.vec, rs)
        if d and "_alt" in pr.vec:
            d2 = check1(pr, pr.vec["_alt"], rs)
            if d2 is None:
                return None
        sc = set(pr.vec["sc"])
        if d and 9 in sc and (sc & UPDATES) and "panic" not in d:  # includes timeouts: a live view may enumerate its own additions
            # the property lets an ongoing clause/2 enumeration see the database as modified: only crashes are judged
            return None
        return d

    def check1(pr, vec, rs):
        qres, logres, dbres = rs[2], rs[3], rs[4]
        if qres.get("tmo"):
            return "timeout (the script did not terminate within 3 s; normal time is milliseconds)"
        d = pr.compare(qres, 5)
        if d:
            return "outcome: " + d
        for name, r, exp in (("log", logres, vec["out"]), ("final database", dbres, vec["db"])):
            if "panic" in r:
                return name + " panic " + r["panic"]
            try:
                got = unrename_term(terms.from_h(r["a"][0]["b"]["L"]), pr.inv)
            except Exception:
                return "%s unreadable: %s" % (name, str(r)[:200])
            e = terms.mk_list([terms.from_tla(t) for t in exp])
            # log entries and clauses are independent copies: compare element by element up to renaming
            gl, cur = [], got
            while cur[0] == 'c' and cur[1] == '.' and len(cur[2]) == 2:
                gl.append(cur[2][0])
                cur = cur[2][1]
            el = [terms.from_tla(t) for t in exp]
            if cur != terms.NIL or len(gl) != len(el) or not all(terms.variant(a, b) for a, b in zip(el, gl)):
                return "%s: expected %s got %s" % (name, terms.show(e), terms.show(got))
        return None

    def sig(pr, d):
        sc = pr.vec["sc"]
        kind = "script"
        bad = ("panic" in d or "crash" in d or "died" in d or "timeout" in d)
        if 9 in sc and (set(sc) & {4, 5, 6, 7, 8, 12, 14}):
            if "timeout" in d and "panic" not in d:
                kind = "clause-enumeration-live-view-timeout"
            elif bad:
                kind = "clause-enumeration-with-retract"
        elif 14 in sc and (set(sc) & {6, 7, 8}) and "compile.rs" in d and "panic" in d:
            kind = "retract-with-variable-clause-present"
        elif sc and sc[0] > 100 and 101 in sc and 106 in sc[sc.index(101):] and "timeout" in d:
            kind = "open-indexed-call-then-asserta-loops"
        elif sc and sc[0] > 100 and 107 in sc and (set(sc[:sc.index(107)]) & {101, 102, 103}) and "panic" not in d:
            kind = "open-call-then-assertz-of-variable-clause-m2"
        elif 5 in sc and 14 in sc and sc.index(5) < sc.index(14) and ("log:" in d or "outcome:" in d) and "panic" not in d and "timeout" not in d:
            kind = "asserta-then-assertz-of-variable-clause"
        elif 2 in sc and 6 in sc and "timeout" in d:
            kind = "open-call+retract-enumeration+call"
        return "%s=%s init=%d: %s" % (kind, sc, len(pr.vec["prog"]), d)

    for job in jobs:
        bi = job["id"]
        r = results.get(bi, {"crash": "missing"})
        n = (len(job["steps"]) - 1) // 5
        if "crash" in r:
            single = [{"id": "%d-%d" % (bi, j), "fresh": True, "timeout": 20,
                       "steps": [job["steps"][0]] + job["steps"][1 + 5 * j: 6 + 5 * j]} for j in range(n)]
            rs = run_jobs(single, workers=8, job_timeout=20)
            for j in range(n):
                pr = progs[(bi, j)]
                rr = rs.get("%d-%d" % (bi, j), {"crash": "missing"})
                rep.case((tuple(sorted(pr.vec["sc"])), len(pr.vec["prog"])))
                if "crash" in rr:
                    sg = sig(pr, rr["crash"] + " (non-termination or crash)")
                    if not sg.startswith("clause-enumeration-live-view-timeout"):
                        rep.violation(sg, {"vector": pr.vec, "crash": rr["crash"]})
                else:
                    d = check(pr, rr["res"][1:])
                    if d:
                        rep.violation(sig(pr, d), {"vector": pr.vec, "diff": d})
            continue
        rerun = []
        poisoned = False
        for j in range(n):
            pr = progs[(bi, j)]
            rs = r["res"][1 + 5 * j: 6 + 5 * j]
            if poisoned:
                rerun.append(j)      # the Machine was rebuilt after a panic: helpers are gone, run again alone
                continue
            rep.case((tuple(sorted(pr.vec["sc"])), len(pr.vec["prog"])))
            d = check(pr, rs)
            if d:
                rep.violation(sig(pr, d), {"vector": pr.vec, "diff": d, "query": pr.qtext})
            if any(("panic" in x or x.get("tmo")) for x in rs):
                poisoned = True
        if rerun:
            single = [{"id": "%d-%d" % (bi, j), "fresh": True, "timeout": 20,
                       "steps": [job["steps"][0]] + job["steps"][1 + 5 * j: 6 + 5 * j]} for j in rerun]
            rs2 = run_jobs(single, workers=8, job_timeout=20)
            for j in rerun:
                pr = progs[(bi, j)]
                rr = rs2.get("%d-%d" % (bi, j), {"crash": "missing"})
                rep.case((tuple(sorted(pr.vec["sc"])), len(pr.vec["prog"])))
                if "crash" in rr:
                    sg = sig(pr, rr["crash"] + " (non-termination or crash)")
                    if not sg.startswith("clause-enumeration-live-view-timeout"):
                        rep.violation(sg, {"vector": pr.vec, "crash": rr["crash"]})
                else:
                    d = check(pr, rr["res"][1:])
                    if d:
                        rep.violation(sig(pr, d), {"vector": pr.vec, "diff": d, "query": pr.qtext})
    for v in vecs[:: max(1, len(vecs) // 5)]:
        pr = Prog(v, "0", RENAME)
        rep.sample({"initial": pr.text, "script": pr.qtext, "expected_log": [terms.show(terms.from_tla(t)) for t in v["out"]],
                    "expected_db": [terms.show(terms.from_tla(t)) for t in v["db"]]})
    rep.traces = len(vecs)
    rep.exhaustive = True
    rep.assumptions = ["TLC", "spec/Prolog.tla (logical update view as call-time snapshot)", "canonical renderer"]
    return rep.finish()


def replay(path):
    d = json.load(open(path))
    pr = Prog(d["detail"]["vector"], "0", RENAME)
    pn = pr.mapping[("p", 1)]
    r = run_jobs([{"id": 0, "fresh": True, "timeout": 30, "steps": [
        {"consult": HELPERS}, {"consult": pr.text}, {"q": pr.qtext, "max": 3}, {"q": "findall(T, logged(T), L)."},
        {"q": "findall((H:-B), (H = %s(_), clause(H,B)), L)." % terms.quote_atom(pn)}]}], workers=1, job_timeout=30)
    print(pr.text, pr.qtext)
    print("expected log", [terms.show(terms.from_tla(t)) for t in pr.vec["out"]])
    print(json.dumps(r[0], indent=1)[:3000])
    return 0
