"""C52 - Random number predicates are in range and reproducible (trace validation against spec/Random.tla)."""
import json
import os
import re

from lib import common, terms
from lib.common import Report, run_tlc, run_jobs

PROP = "C52"

META = {
    "level": "model_checking",
    "text": "library(random) is specified in TLA+ (spec/Random.tla): the documented outcome class of every call of random/1, "
            "random_integer/3, maybe/0 and set_random/1 (value, failure on empty ranges, instantiation/type errors), the range "
            "laws 0.0 =< X < 1.0 (on the IEEE sign/exponent fields) and L =< X < H (BigInt comparison), and reproducibility: the "
            "generator is an unlogged function gen(seed, calls since seeding) inferred by TLC from the first observation, which "
            "must explain every later observation. TLC (MC_C52) generates the scenarios (seed, call sequence of length =< 6 over "
            "ranges incl. width 1, negative, across 2^55, wider than 2^64; empty ranges; ill-typed and unbound bounds; re-seeding); "
            "each is executed twice after re-seeding (and a third time on a fresh machine for a subset), every observation is "
            "recorded and the whole trace is validated by TLC (Trace_C52, POSTCONDITION on the diameter).",
    "note": "Trusted: TLC, BigInt.tla, the decoding of the float bit pattern into sign/exponent fields, the LeafAnswer projection "
            "of the harness. Nothing is asserted about the distribution of the values or about unseeded streams (only classes "
            "and ranges). A panic of the code under test is reported by the driver and its scenario is left out of the trace. "
            "Each run demonstrates the binding by corrupting one recorded value and checking that the trace is rejected.",
    "technique": "TLA+ state-machine specification with an inferred (unlogged) generator function; TLC-generated scenarios; "
                 "trace validation by TLC",
}

LOAD = ":- use_module(library(random)).\n"
ERRVAR = "E__"
PER_JOB = 60


# ------------------------------------------------------------------------------------------------
# rendering
# ------------------------------------------------------------------------------------------------

def call_text(c):
    args = [terms.tla_text(a) for a in c["args"]]
    if c["op"] == "random":
        return "random(X)"
    if c["op"] == "maybe":
        return "maybe"
    if c["op"] == "random_integer":
        return "random_integer(%s,%s,X)" % (args[0], args[1])
    if c["op"] == "set_random":
        return "set_random(%s)" % args[0]
    raise common.ToolError("unknown call %r" % (c,))


def query_text(c):
    if c["op"] == "random":
        return "random(X)."
    return "catch(%s, error(%s,_), true)." % (call_text(c), ERRVAR)


def seed_call(seed):
    return {"op": "set_random", "cls": "ok",
            "args": [{"t": "c", "n": "seed", "i": 0, "a": [{"t": "big", "n": seed, "i": 0, "a": []}]}]}


def limbs(n):
    m = []
    n = abs(n)
    while n:
        m.append(n % 10000)
        n //= 10000
    return m


BZ = {"neg": False, "m": []}
NOTERM = {"t": "a", "b": BZ, "n": "$none", "a": []}


def trace_term(t):
    k = t[0]
    if k == 'i':
        return {"t": "i", "b": {"neg": t[1] < 0, "m": limbs(t[1])}, "n": "", "a": []}
    if k == 'a':
        return {"t": "a", "b": BZ, "n": t[1], "a": []}
    if k == 'v':
        return {"t": "v", "b": BZ, "n": t[1], "a": []}
    if k == 'f':
        return {"t": "f", "b": BZ, "n": "%016x" % t[1], "a": []}
    if k == 'c':
        return {"t": "c", "b": BZ, "n": t[1], "a": [trace_term(x) for x in t[2]]}
    raise ValueError(t)


def res_record(out):
    """project one query result to the observation record of Random.tla; ('panic', msg) for a panic"""
    if "panic" in out:
        return ("panic", out["panic"])
    a = out.get("a", [])
    if len(a) > 1 and a[-1] == "F":
        a = a[:-1]
    if len(a) != 1:
        return {"k": "other", "v": NOTERM, "sign": 0, "exp": 0, "raw": json.dumps(out)[:200]}
    a = a[0]
    if a == "T":
        return {"k": "true", "v": NOTERM, "sign": 0, "exp": 0}
    if a == "F":
        return {"k": "fail", "v": NOTERM, "sign": 0, "exp": 0}
    if isinstance(a, dict) and "b" in a:
        b = a["b"]
        if ERRVAR in b and "X" not in b:
            return {"k": "err", "v": trace_term(terms.from_h(b[ERRVAR])), "sign": 0, "exp": 0}
        if "X" in b and ERRVAR not in b:
            t = terms.from_h(b["X"])
            sign = exp = 0
            if t[0] == 'f':
                # decode the IEEE-754 fields from the bit pattern (no float comparison in the driver)
                sign = t[1] >> 63
                exp = (t[1] >> 52) & 0x7ff
            return {"k": "ans", "v": trace_term(t), "sign": sign, "exp": exp}
        if "X" not in b and ERRVAR not in b:
            return {"k": "true", "v": NOTERM, "sign": 0, "exp": 0}     # success that binds neither X nor the error variable
    return {"k": "other", "v": NOTERM, "sign": 0, "exp": 0, "raw": json.dumps(out)[:200]}


def show_term(v):
    if v["t"] == "i":
        n = sum(d * 10000 ** i for i, d in enumerate(v["b"]["m"]))
        return str(-n if v["b"]["neg"] else n)
    if v["t"] == "f":
        return "float bits %s" % v["n"]
    if v["t"] == "c":
        return "%s(%s)" % (v["n"], ",".join(show_term(x) for x in v["a"]))
    return v["n"]


def show_res(r):
    if isinstance(r, tuple):
        return "panic(%s)" % r[1]
    if r["k"] in ("ans", "err"):
        return "%s(%s)" % (r["k"], show_term(r["v"]))
    return r["k"] + (" " + r.get("raw", "") if r["k"] == "other" else "")


def arg_class(a):
    t = terms.from_tla(a)
    if t[0] == 'i':
        n = abs(t[1])
        s = "-" if t[1] < 0 else "+"
        return s + ("small" if n < (1 << 31) else "55" if n < (1 << 62) else "64" if n < (1 << 65) else "big")
    return {"v": "var", "a": "atom", "f": "float", "c": "compound"}.get(t[0], t[0])


# ------------------------------------------------------------------------------------------------

def scenario_steps(sc):
    """harness steps of a scenario and, aligned with the query steps, the trace events"""
    steps = [{"consult": LOAD}]
    plan = []          # (kind, payload): ("ev", event) or ("call", call, run label) aligned with queries
    plan.append(("ev", {"ev": "reset"}, None))
    calls = sc["calls"]
    sd = seed_call(sc["seed"])
    if sc["pre"]:
        plan.append(("call", calls[0], "unseeded"))
    for run in ("run1", "run2"):
        plan.append(("call", sd, run))
        for c in calls:
            plan.append(("call", c, run))
    if sc["third"]:
        plan.append(("new", None, None))
        plan.append(("ev", {"ev": "newmachine"}, None))
        plan.append(("call", sd, "fresh"))
        for c in calls:
            plan.append(("call", c, "fresh"))
    for kind, c, _ in plan:
        if kind == "call":
            steps.append({"q": query_text(c), "max": 2})
        elif kind == "new":
            steps.append({"new": True})
            steps.append({"consult": LOAD})
    return steps, plan


def scenario_text(sc):
    return "seed=%s [%s]" % (sc["seed"], "; ".join(call_text(c) for c in sc["calls"]))


def validate(path, what):
    tres = run_tlc("Trace_C52", "Trace_C52.cfg", workers=1, dfs=True, env_extra={"TRACE": path}, timeout=3600)
    if tres.error and not tres.violated:
        raise common.ToolError("Trace_C52 failed (%s): %s\n%s" % (what, tres.error, "\n".join(tres.lines[-30:])))
    rejected = None
    if tres.violated:
        m = re.search(r'<<"REJECT", (\d+)>>', tres.out)
        if not m:
            raise common.ToolError("Trace_C52 rejected the trace without naming the line (%s)\n%s" % (
                what, "\n".join(tres.lines[-30:])))
        rejected = int(m.group(1))
    return tres, rejected


def run(tier):
    rep = Report(PROP, tier, META["level"])
    rep.rule = ("TLC (MC_C52) enumerates scenarios (seed, call sequence): all single calls and all pairs of the call alphabet "
                "(extended to length 5/6 by a fixed function of the pair) for the main seeds, single-call scenarios for the "
                "boundary seeds (2^63, 2^64-1, 2^64, 2^64+1, -1, -2^63); every scenario runs twice after re-seeding (a subset a "
                "third time on a fresh machine); one evaluation = one observed call validated by Trace_C52; distinct = distinct "
                "(operation, outcome class, argument classes, run)")
    res, vecs = common.generate("MC_C52", "MC_C52_%s.cfg" % tier, workers=8, timeout=1800)
    rep.add_tlc(res)
    if not vecs:
        raise common.ToolError("no scenarios generated")

    # --- execute -----------------------------------------------------------------------------------------
    prepared = [scenario_steps(sc) for sc in vecs]
    jobs = []
    for ji in range(0, len(vecs), PER_JOB):
        steps = []
        for st, _ in prepared[ji:ji + PER_JOB]:
            steps += st
        jobs.append({"id": ji, "fresh": True, "steps": steps, "timeout": 300})
    results = run_jobs(jobs, workers=8, job_timeout=300)

    scen_events = []     # per scenario: list of events, or None when the scenario is left out (panic)
    for job in jobs:
        r = results.get(job["id"], {"crash": "missing"})
        if "crash" in r:
            raise common.ToolError("harness job %s crashed: %s" % (job["id"], r["crash"]))
        pos = 0
        for k in range(job["id"], min(job["id"] + PER_JOB, len(vecs))):
            sc = vecs[k]
            st, plan = prepared[k]
            outs = r["res"][pos:pos + len(st)]
            pos += len(st)
            qi = 1          # outs[0] is the consult step
            events = []
            dead = False
            for kind, c, runlabel in plan:
                if kind == "ev":
                    events.append(c)
                    continue
                if kind == "new":
                    qi += 2
                    continue
                out = outs[qi]
                qi += 1
                if dead:
                    continue
                rr = res_record(out)
                rep.case((c["op"], c["cls"], tuple(arg_class(a) for a in c["args"]), runlabel))
                if isinstance(rr, tuple):
                    site = rr[1].split(" @ ")[-1]
                    tag = ""
                    if c["op"] == "set_random":
                        t = terms.from_tla(c["args"][0])
                        if t[0] == 'c' and t[1] == "seed" and t[2][0][0] == 'i':
                            tag = " [seed<0]" if t[2][0][1] < 0 else " [seed>=2^64]" if t[2][0][1] >= (1 << 64) else ""
                    rep.violation("panic %s%s @ %s" % (call_text(c), tag, site),
                                  {"scenario": sc, "call": c, "panic": rr[1], "query": query_text(c)})
                    dead = True      # the machine is gone; the rest of the scenario is not an observation
                    continue
                events.append({"ev": "call", "op": c["op"],
                               "args": [trace_term(terms.from_tla(a)) for a in c["args"]],
                               "res": {k: rr[k] for k in ("k", "v", "sign", "exp")},
                               "_show": "%s -> %s" % (call_text(c), show_res(rr)), "_run": runlabel})
            scen_events.append(None if dead else events)

    # --- validate: impl -> spec ----------------------------------------------------------------------------
    tdir = os.path.join(common.WORK, "c52")
    os.makedirs(tdir, exist_ok=True)
    path = os.path.join(tdir, "trace-%s-%d.ndjson" % (tier, os.getpid()))
    live = [k for k in range(len(vecs)) if scen_events[k] is not None]
    validated_events = 0
    rounds = 0
    while live:
        index = []      # trace line -> (scenario, event)
        with open(path, "w") as f:
            for k in live:
                for e in scen_events[k]:
                    f.write(json.dumps({x: y for x, y in e.items() if not x.startswith("_")}) + "\n")
                    index.append((k, e))
        tres, rejected = validate(path, "trace of %d scenarios" % len(live))
        rep.add_tlc(tres)
        if rejected is None:
            validated_events = len(index)
            break
        k, e = index[rejected - 1]
        rep.violation("rejected %s at %s (%s)" % (scenario_text(vecs[k]), e.get("_show", e["ev"]), e.get("_run", "")),
                      {"scenario": vecs[k], "event": {x: y for x, y in e.items() if not x.startswith("_")},
                       "show": e.get("_show"), "trace_line": rejected,
                       "events": [x.get("_show", x["ev"]) for x in scen_events[k]]})
        live.remove(k)
        rounds += 1
        if rounds >= 8:
            rep.extra["validation_incomplete"] = "stopped after 8 rejected scenarios"
            break
    rep.traces = len(live)
    rep.extra["events_validated"] = validated_events
    rep.extra["scenarios"] = len(vecs)

    # --- binding demonstration: a corrupted value must be rejected ------------------------------------------
    demo = None
    for k in live:
        evs = scen_events[k]
        # a scenario whose second run repeats a value-producing call
        idx = [i for i, e in enumerate(evs) if e.get("ev") == "call" and e.get("_run") == "run2"
               and e["res"]["k"] == "ans" and e["res"]["v"]["t"] == "i" and e["op"] == "random_integer"
               and e["args"][0]["t"] == "i" and e["args"][1]["t"] == "i"]
        for i in idx:
            lo = evs[i]["args"][0]["b"]
            hi = evs[i]["args"][1]["b"]
            v = evs[i]["res"]["v"]["b"]
            # pick another value inside the range: lo if the value is not lo, else lo + 1 (needs width >= 2)
            def val(b):
                n = sum(d * 10000 ** j for j, d in enumerate(b["m"]))
                return -n if b["neg"] else n
            if val(hi) - val(lo) >= 2:
                other = val(lo) if val(v) != val(lo) else val(lo) + 1
                demo = (k, i, other)
                break
        if demo:
            break
    if demo is None:
        raise common.ToolError("no scenario suitable for the binding demonstration")
    k, i, other = demo
    dpath = os.path.join(tdir, "trace-%s-%d-corrupt.ndjson" % (tier, os.getpid()))
    with open(dpath, "w") as f:
        for j, e in enumerate(scen_events[k]):
            e2 = {x: y for x, y in e.items() if not x.startswith("_")}
            if j == i:
                e2 = json.loads(json.dumps(e2))
                e2["res"]["v"] = trace_term(('i', other))     # still inside the range: only reproducibility can refuse it
            f.write(json.dumps(e2) + "\n")
    dres, drej = validate(dpath, "corrupted copy")
    rep.add_tlc(dres)
    if drej != i + 1:
        raise common.ToolError("binding demonstration failed: corrupted line %d, Trace_C52 reported %r" % (i + 1, drej))
    rep.extra["binding_demo"] = "value of trace line %d replaced by another in-range value: rejected at that line" % (i + 1)
    os.remove(dpath)
    if not rep.violations:
        os.remove(path)

    for k in live[:: max(1, len(live) // 5)]:
        rep.sample({"scenario": scenario_text(vecs[k]), "observed": [e.get("_show", e["ev"]) for e in scen_events[k]][:16]})
    rep.exhaustive = False
    rep.assumptions = ["TLC and the BigInt module", "decoding of the IEEE-754 bit pattern into sign and exponent fields",
                       "LeafAnswer projection of the harness",
                       "no claim about the distribution of the values or about unseeded streams",
                       "a panic is reported by the driver; its scenario is not part of the validated trace"]
    return rep.finish()


def replay(path):
    d = json.load(open(path))
    det = d["detail"]
    sc = det["scenario"]
    steps, plan = scenario_steps(sc)
    r = run_jobs([{"id": 0, "fresh": True, "steps": steps, "timeout": 60}], workers=1, job_timeout=60)
    outs = r.get(0, {}).get("res", [])
    qi = 1
    shown = []
    for kind, c, runlabel in plan:
        if kind == "ev":
            shown.append(c["ev"])
        elif kind == "new":
            qi += 2
        else:
            out = outs[qi] if qi < len(outs) else {"panic": "missing"}
            qi += 1
            shown.append("%s %s -> %s" % (runlabel, call_text(c), show_res(res_record(out))))
    print(json.dumps({"scenario": scenario_text(sc), "signature": d.get("signature"), "observed": shown}, indent=1))
    return 0
