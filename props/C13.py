"""C13 - compare/3 implements the standard order of terms."""
import json
import os

from lib import common, terms
from lib.common import Report, run_tlc, tlc_ok, run_jobs, generate

PROP = "C13"
META = {
    "level": "model_checking",
    "text": "The standard order of terms is specified in TLA+ (spec/StdOrder.tla: Var < Float < Integer/Rational < Atom < "
            "Compound; numbers by exact value over BigInt, atoms by code points, compounds by arity, name, arguments). TLC "
            "checks that it is a total order whose equality is term identity on the whole universe (under every ranking of "
            "the variables) and prints the expected result of every pair of a universe that contains every kind of term in "
            "every heap representation (strings, partial strings, '.'/2 built by =.., bignum results, n rdiv 1). Every pair is "
            "replayed through compare/3 (both modes), ==, \\==, @<, @=<, @>, @>= compiled inline and through call/N; the "
            "implementation's variable order is inferred per query by trace validation (spec/Trace_C13.tla).",
    "note": "Trusted: TLC; StdOrder.tla as the reading of the property; the renderer of build trees and the findall/3 "
            "read-back. -0.0 is not in the universe (its order relative to 0.0 is not determined by the property). "
            "Bounded-exhaustive conformance over the universe, not a proof.",
    "technique": "TLA+ specification of the order, TLC-checked order theorems and TLC-enumerated pairs replayed into the "
                 "real machine; trace validation for the unlogged variable ranking",
}

WORK = os.path.join(common.WORK, "c13")

HELPER = r"""
c13m(X, [X|_]).
c13m(X, [_|T]) :- c13m(X, T).
c13(S, T, res(I, C)) :- c13i(S, T, I), c13c(S, T, C).
c13i(S, T, r(O,A,B,C,D,E,F,G,H,I)) :-
    compare(O, S, T),
    ( S == T -> A = 1 ; A = 0 ), ( S \== T -> B = 1 ; B = 0 ),
    ( S @< T -> C = 1 ; C = 0 ), ( S @=< T -> D = 1 ; D = 0 ),
    ( S @> T -> E = 1 ; E = 0 ), ( S @>= T -> F = 1 ; F = 0 ),
    ( compare(<, S, T) -> G = 1 ; G = 0 ), ( compare(=, S, T) -> H = 1 ; H = 0 ),
    ( compare(>, S, T) -> I = 1 ; I = 0 ).
c13c(S, T, r(O,A,B,C,D,E,F,G,H,I)) :-
    call(compare, O, S, T),
    c13t(==, S, T, A), c13t(\==, S, T, B), c13t(@<, S, T, C), c13t(@=<, S, T, D),
    c13t(@>, S, T, E), c13t(@>=, S, T, F),
    c13t(compare(<), S, T, G), c13t(compare(=), S, T, H), c13t(compare(>), S, T, I).
c13t(P, S, T, B) :- ( call(P, S, T) -> B = 1 ; B = 0 ).
"""
PRED_ORDER = ["==", "\\==", "@<", "@=<", "@>", "@>=", "cmp<", "cmp=", "cmp>"]
CTXS = ["inline", "call"]


# ---------------------------------------------------------------------------------------------
# rendering of build trees (spec/TermsExt.tla) into goals that construct the term
# ---------------------------------------------------------------------------------------------
class Names:
    def __init__(self, table):
        self.tab = {k: "".join(chr(c) for c in v) for k, v in table.items()}

    def __call__(self, alias):
        if alias not in self.tab:
            raise common.ToolError("name %r is not in the specification's name table" % alias)
        return self.tab[alias]


def dq(s):
    out = []
    for ch in s:
        if ch in '"\\':
            out.append("\\" + ch)
        else:
            out.append(ch)
    return '"' + "".join(out) + '"'


def int_text(t):
    v = int(t["i"]) if t["t"] == "i" else int(t["n"])
    return str(v) if v >= 0 else "(%d)" % v


class Builder:
    """renders build trees; special nodes become goals binding fresh variables"""

    def __init__(self, names, tag):
        self.names = names
        self.tag = tag
        self.goals = []
        self.k = 0

    def fresh(self):
        self.k += 1
        return "%s%d" % (self.tag, self.k)

    def atom(self, alias):
        return terms.quote_atom(self.names(alias))

    def chars(self, cs):
        return "".join(self.names(c["n"]) for c in cs)

    def render(self, b):
        t = b["t"]
        if t == "v":
            return b["n"] if not b.get("i") else "%s_G%d" % (b["n"], b["i"])
        if t == "a":
            txt = self.names(b["n"])
            q = terms.quote_atom(txt)
            # an atom that may be an operator has to be bracketed when it stands as an operand (ISO 6.3.1.3)
            plain = txt in ("[]", "{}") or (txt[:1].isalpha() and txt[:1].islower() and txt.replace("_", "a").isalnum())
            return q if plain else "(%s)" % q
        if t in ("i", "big"):
            return int_text(b)
        if t == "f":
            s = terms.float_text(int(b["n"], 16))
            return "(%s)" % s if s.startswith("-") else s
        if t == "r":
            v = self.fresh()
            self.goals.append("%s is %s rdiv %s" % (v, int_text(b["a"][0]), int_text(b["a"][1])))
            return v
        if t == "c":
            args = [self.render(x) for x in b["a"]]
            if b["n"] == "." and len(args) == 2:
                return "[%s|%s]" % (args[0], args[1])
            return "%s(%s)" % (self.atom(b["n"]), ",".join(args))
        if t == "s":
            return dq(self.chars(b["a"]))
        if t == "ps":
            tl = self.render(b["a"][0])
            v = self.fresh()
            self.goals.append("partial_string(%s,%s,%s)" % (dq(self.chars(b["a"][1:])), v, tl))
            return v
        if t == "calc":
            v = self.fresh()
            self.goals.append("%s is (%s + 2^80) - 2^80" % (v, int_text(b["a"][0])))
            return v
        if t == "rd":
            v = self.fresh()
            self.goals.append("%s is %s rdiv %s" % (v, int_text(b["a"][0]), int_text(b["a"][1])))
            return v
        if t == "univ":
            h = self.render(b["a"][0])
            tl = self.render(b["a"][1])
            v = self.fresh()
            self.goals.append("%s =.. ['.',%s,%s]" % (v, h, tl))
            return v
        raise common.ToolError("unknown build tag %r" % t)

    def bind(self, var, b):
        e = self.render(b)
        self.goals.append("%s = %s" % (var, e))


def kind_of(b):
    """coverage class of a universe element: (class of the denotation, how it is built)"""
    t = b["t"]
    if t in ("calc", "rd", "s", "ps", "univ"):
        inner = ""
        if t in ("calc",):
            inner = b["a"][0]["t"]
        return t + inner
    if t == "c":
        sub = sorted(set(kind_of(x) for x in b["a"]))
        return ("list" if b["n"] == "." and len(b["a"]) == 2 else "cmp%d" % len(b["a"])) + "(" + ",".join(sub)[:40] + ")"
    return t


# ---------------------------------------------------------------------------------------------
# python cross-check of the specification's order (sanity of layer A; mismatch = tool error)
# ---------------------------------------------------------------------------------------------
def py_cmp(s, t, rank, names):
    from fractions import Fraction

    def cls(x):
        return {'v': 0, 'f': 1, 'i': 2, 'r': 2, 'a': 3, 'c': 4}[x[0]]

    def sg(x):
        return (x > 0) - (x < 0)

    def nm(x):
        return [ord(ch) for ch in names(x)]
    if cls(s) != cls(t):
        return sg(cls(s) - cls(t))
    k = s[0]
    if k == 'v':
        return sg(rank[s[1]] - rank[t[1]])
    if k == 'f':
        a, b = terms.bits_float(s[1]), terms.bits_float(t[1])
        return sg((a > b) - (a < b))
    if k in ('i', 'r'):
        def val(x):
            return Fraction(x[1]) if x[0] == 'i' else Fraction(x[1], x[2])
        a, b = val(s), val(t)
        return (a > b) - (a < b)
    if k == 'a':
        a, b = nm(s[1]), nm(t[1])
        return (a > b) - (a < b)
    if len(s[2]) != len(t[2]):
        return sg(len(s[2]) - len(t[2]))
    a, b = nm(s[1]), nm(t[1])
    if a != b:
        return (a > b) - (a < b)
    for x, y in zip(s[2], t[2]):
        c = py_cmp(x, y, rank, names)
        if c:
            return c
    return 0


PERMS = [(1, 2, 3), (1, 3, 2), (2, 1, 3), (2, 3, 1), (3, 1, 2), (3, 2, 1)]
SYM = {-1: "<", 0: "=", 1: ">"}


def load_vectors(tier):
    res, vecs = generate("MC_C13", "MC_C13_%s.cfg" % tier, workers=8, timeout=3000)
    tab = [v for v in vecs if v.get("k") == "tab"]
    rows = sorted([v for v in vecs if v.get("k") == "row"], key=lambda r: r["i"])
    if len(tab) != 1 or not rows or len(rows) != tab[0]["n"] or [r["i"] for r in rows] != list(range(1, len(rows) + 1)):
        raise common.ToolError("MC_C13 printed an incomplete universe (%d rows)" % len(rows))
    return res, tab[0], rows


def self_check(tab, rows, names):
    den = [terms.from_tla(r["tm"]) for r in rows]
    for pi, pm in enumerate(PERMS):
        rank = {"X": pm[0], "Y": pm[1], "Z": pm[2]}
        for i, r in enumerate(rows):
            for j in range(len(rows)):
                if SYM[py_cmp(den[i], den[j], rank, names)] != r["os"][j][pi]:
                    raise common.ToolError("oracle self-check failed: pair (%d,%d) perm %d: spec %s" % (
                        i + 1, j + 1, pi + 1, r["os"][j][pi]))
    for k, v in names.tab.items():
        if all(ord(ch) < 128 for ch in k) and not k.startswith("u_") and k != v:
            raise common.ToolError("name table: %r -> %r" % (k, v))


def make_jobs(rows, names, chunk):
    """one query per chunk of rows: the prefix builds the left copies of the chunk's rows and the right copies of
    all elements; the pairs are enumerated by backtracking over ONE list so that every comparison of the query
    sees the same variable instances."""
    n = len(rows)
    jobs, meta = [], {}
    rb = Builder(names, "RB")
    for j, r in enumerate(rows):
        rb.bind("R%d" % (j + 1), r["b"])
    for c0 in range(0, n, chunk):
        idx = list(range(c0, min(n, c0 + chunk)))
        lb = Builder(names, "LB")
        for i in idx:
            lb.bind("L%d" % (i + 1), rows[i]["b"])
        pairs, keys = [], []
        for i in idx:
            for j in range(n):
                keys.append((i + 1, j + 1, "copy"))
                pairs.append("L%d-R%d" % (i + 1, j + 1))
            keys.append((i + 1, i + 1, "same"))
            pairs.append("L%d-L%d" % (i + 1, i + 1))
        # the reader rejects very long list literals: at most 300 items per list, lists joined by ;/2
        its = ["%d-(%s)" % (k, p) for k, p in enumerate(pairs)]
        alts = ["c13m(K-(S-T), [%s])" % ",".join(its[o:o + 300]) for o in range(0, len(its), 300)]
        q = "findall(K-A, (%s, %s, (%s), c13(S,T,A)), Out)." % (
            ", ".join(lb.goals), ", ".join(rb.goals), " ; ".join(alts))
        jid = "q%d" % c0
        jobs.append({"id": jid, "fresh": True, "timeout": 120,
                     "steps": [{"consult": ":- use_module(library(iso_ext)).\n" + HELPER}, {"q": q, "max": 2}]})
        meta[jid] = keys
    return jobs, meta


def parse_r(t):
    """canonical r(O,A..I) -> (sym, [flags]) or None"""
    if t[0] != 'c' or t[1] != 'r' or len(t[2]) != 10:
        return None
    o = t[2][0]
    if o[0] != 'a' or o[1] not in "<=>":
        return None
    fl = []
    for x in t[2][1:]:
        if x[0] != 'i' or x[1] not in (0, 1):
            return None
        fl.append(x[1])
    return o[1], fl


def run(tier):
    rep = Report(PROP, tier, "model_checking")
    quick = tier == "quick"
    rep.rule = ("universe U of build trees (variables X,Y,Z; floats; integers as literals, as results of bignum arithmetic "
                "and as n rdiv 1; rationals; atoms incl. '', [], non-ASCII up to 4 UTF-8 bytes; compounds; lists, strings, "
                "partial strings with variable and string tails, '.'/2 built by =..; thorough adds f(e), [h|t], g(e1,e2) over "
                "these); ALL |U|^2 ordered pairs (separately built copies) plus (e,e) on one object; each pair through "
                "compare/3 in 4 modes and the 6 comparison predicates, inline and via call/N. distinct = (kind of left, kind "
                "of right, expected order symbols, context)")
    os.makedirs(WORK, exist_ok=True)
    res, tab, rows = load_vectors(tier)
    rep.add_tlc(res)
    names = Names(tab["names"])
    preds = {p["p"]: {"<": p["lt"], "=": p["eq"], ">": p["gt"]} for p in tab["preds"]}
    if sorted(preds) != sorted(PRED_ORDER):
        raise common.ToolError("predicate table mismatch")
    self_check(tab, rows, names)
    n = len(rows)
    jobs, meta = make_jobs(rows, names, 4 if quick else 2)
    results = run_jobs(jobs, workers=8, job_timeout=120)
    kinds = [kind_of(r["b"]) for r in rows]
    trace_path = os.path.join(WORK, "trace-%s-%d.ndjson" % (tier, os.getpid()))
    nev = 0
    consistent_queries = 0
    with open(trace_path, "w") as tf:
        for job in jobs:
            jid = job["id"]
            keys = meta[jid]
            r = results.get(jid, {"crash": "missing"})
            detail = {"query": job["steps"][1]["q"], "rows": sorted(set(k[0] for k in keys))}
            if "crash" in r:
                rep.violation("query %s crashed: %s" % (jid, r["crash"]), dict(detail, result=r))
                continue
            out = r["res"][1]
            if "panic" in out or not out.get("a") or not isinstance(out["a"][0], dict) or "b" not in out["a"][0]:
                rep.violation("query %s (rows %s): no answer: %s" % (jid, detail["rows"], json.dumps(out)[:300]),
                              dict(detail, result=out))
                continue
            lst = terms.from_h(out["a"][0]["b"]["Out"])
            got = {}
            cur = lst
            while cur[0] == 'c' and cur[1] == '.':
                it = cur[2][0]
                cur = cur[2][1]
                if it[0] == 'c' and it[1] == '-' and it[2][0][0] == 'i':
                    got[it[2][0][1]] = it[2][1]
            if len(got) != len(keys):
                rep.violation("query %s (rows %s): %d of %d pairs answered" % (jid, detail["rows"], len(got), len(keys)),
                              dict(detail, result=str(lst)[:2000]))
                continue
            cands = set(range(len(PERMS)))
            tf.write(json.dumps({"ev": "reset", "q": jid}) + "\n")
            nev += 1
            parsed = {}
            for k, (i, j, how) in enumerate(keys):
                a = got[k]
                pr = None
                if a[0] == 'c' and a[1] == 'res' and len(a[2]) == 2:
                    pr = [parse_r(a[2][0]), parse_r(a[2][1])]
                if not pr or None in pr:
                    rep.violation("pair (%s, %s) %s: malformed result %s" % (kinds[i - 1], kinds[j - 1], how, terms.show(a)),
                                  dict(detail, i=i, j=j, got=terms.show(a)))
                    continue
                parsed[k] = pr
                exp = rows[i - 1]["os"][j - 1]
                for ci in (0, 1):
                    cands &= set(p for p in range(len(PERMS)) if exp[p] == pr[ci][0])
                if len(set(exp)) > 1:
                    tf.write(json.dumps({"ev": "cmp", "s": rows[i - 1]["tm"], "t": rows[j - 1]["tm"], "o": pr[0][0]}) + "\n")
                    nev += 1
            if cands:
                consistent_queries += 1
            p_star = min(cands) if cands else None
            for k, (i, j, how) in enumerate(keys):
                if k not in parsed:
                    continue
                exp = rows[i - 1]["os"][j - 1]
                lt = text_of(rows[i - 1], names)
                rt = text_of(rows[j - 1], names)
                for ci, ctx in enumerate(CTXS):
                    o, fl = parsed[k][ci]
                    rep.case((kinds[i - 1], kinds[j - 1], "".join(sorted(set(exp))), ctx, how))
                    if p_star is None:
                        if o not in exp:
                            rep.violation("compare(%s, %s) ctx=%s %s: got %s expected %s" % (lt, rt, ctx, how, o, "|".join(sorted(set(exp)))),
                                          dict(detail, i=i, j=j, ctx=ctx, got=o, expected=exp))
                            continue
                        e_o = o      # judged below against its own answer; the inconsistency is reported per query
                    else:
                        e_o = exp[p_star]
                        if o != e_o:
                            rep.violation("compare(%s, %s) ctx=%s %s: got %s expected %s" % (lt, rt, ctx, how, o, e_o),
                                          dict(detail, i=i, j=j, ctx=ctx, got=o, expected=exp))
                            continue
                    for pi, pn in enumerate(PRED_ORDER):
                        want = 1 if preds[pn][e_o] else 0
                        if fl[pi] != want:
                            rep.violation("%s on (%s, %s) ctx=%s %s: got %s but order is %s" % (pn, lt, rt, ctx, how, bool(fl[pi]), e_o),
                                          dict(detail, i=i, j=j, ctx=ctx, pred=pn, got=fl[pi], order=e_o))
            if not cands:
                # every single answer may be explainable by SOME ranking while no ranking explains all of them
                okk = [k for k in parsed
                       if all(parsed[k][ci][0] in rows[keys[k][0] - 1]["os"][keys[k][1] - 1] for ci in (0, 1))]
                if len(okk) == len(parsed):
                    rep.violation("query %s (rows %s): no single ranking of X,Y,Z explains all answers" % (jid, detail["rows"]),
                                  dict(detail))
    # trace validation of the variable ranking (TLC infers it per query)
    tres = run_tlc("Trace_C13", "Trace_C13.cfg", workers=1, dfs=True, timeout=3000, env_extra={"TRACE": trace_path})
    rejected = bool(tres.violated == "postcondition" or (tres.error and "ostcondition" in (tres.out or "")))
    if not rejected:
        tlc_ok(tres, "Trace_C13")
    rep.add_tlc(tres)
    py_rejected = consistent_queries != sum(1 for ln in open(trace_path) if '"reset"' in ln)
    if rejected != py_rejected and not rep.violations:
        # (with violations already recorded the candidate set of the driver is empty for reasons the trace, which only
        # carries the ranking-dependent pairs, cannot see: the violations decide)
        raise common.ToolError("Trace_C13 (%s) and the driver (%s) disagree on the acceptance of %s" % (
            "rejected" if rejected else "accepted", "rejected" if py_rejected else "accepted", trace_path))
    if rejected and not rep.violations and not rep.known_hits:
        rep.violation("trace rejected: no consistent variable ranking", {"trace": trace_path})
    if not quick and not rejected:
        # binding demonstration: one corrupted answer must make Trace_C13 reject the trace
        lines = open(trace_path).read().splitlines()
        idx = [k for k, ln in enumerate(lines) if '"cmp"' in ln]
        if idx:
            k = idx[(common.seed() * 7919) % len(idx)]
            ev = json.loads(lines[k])
            ev["o"] = {"<": ">", ">": "<", "=": "<"}[ev["o"]]
            lines[k] = json.dumps(ev)
            bad_path = trace_path + ".corrupt"
            with open(bad_path, "w") as f:
                f.write("\n".join(lines) + "\n")
            cres = run_tlc("Trace_C13", "Trace_C13.cfg", workers=1, dfs=True, timeout=3000, env_extra={"TRACE": bad_path},
                           tag="Trace_C13-corrupt")
            crej = bool(cres.violated == "postcondition" or (cres.error and "ostcondition" in (cres.out or "")))
            if not crej:
                raise common.ToolError("Trace_C13 accepted a corrupted trace (event %d of %s)" % (k + 1, bad_path))
            rep.extra["trace_binding_demo"] = "corrupted event %d rejected" % (k + 1)
            os.remove(bad_path)
    rep.traces = consistent_queries
    rep.extra["trace_events"] = nev
    rep.extra["universe"] = n
    rep.extra["pairs"] = n * n + n
    step = max(1, n // 5)
    for r in rows[::step]:
        rep.sample({"element": text_of(r, names), "kind": kind_of(r["b"])})
    rep.exhaustive = True
    rep.assumptions = ["TLC; StdOrder.tla (total-order theorems checked in this run, results cross-checked by an independent "
                       "Python comparison)", "renderer of build trees, findall/3 read-back and LeafAnswer projection of the harness",
                       "-0.0 excluded (order relative to 0.0 not determined by the property)"]
    if not rep.violations:
        try:
            os.remove(trace_path)
        except OSError:
            pass
    return rep.finish()


def text_of(row, names):
    b = Builder(names, "B")
    e = b.render(row["b"])
    return (", ".join(b.goals) + ", " + e) if b.goals else e


def replay(path):
    d = json.load(open(path))
    det = d["detail"]
    q = det.get("query")
    if not q:
        print(json.dumps(det)[:2000])
        return 0
    r = run_jobs([{"id": 0, "fresh": True, "steps": [{"consult": ":- use_module(library(iso_ext)).\n" + HELPER}, {"q": q, "max": 2}]}], workers=1)
    print(d["signature"])
    print(json.dumps(r[0])[:3000])
    return 0
