"""C55 - writeq and print quote and space exactly as ISO requires."""
import json
import os
import random
import re

from lib import common, terms
from lib.common import Report, run_jobs

PROP = "C55"

META = {
    "level": "model_checking",
    "text": "The quoting decision of writeq/1 (letter-digit token starting with a small letter, graphic token that is neither "
            "the end token nor a comment opening, the solo atoms [] {} ! ;, everything else quoted) and the escape sequences "
            "of the quoted form are specified in TLA+ (Quote); TLC checks that every quoted form decodes to the atom under "
            "the quoted-token rules of the lexer specification. TLC enumerates every atom up to length 3 over a "
            "class-representative alphabet (letters, digit, underscore, graphic, solo, quote, layout, control, non-ASCII); "
            "the exact text of writeq/1, write/1 and write_canonical/1 is compared stand-alone and in argument position "
            "(f(A), [A]), and the writeq text must read back as the same atom. write_canonical/1 is compared exactly (up to "
            "variable names) over a term space with operators, lists, curly terms, '$VAR' and variables, and both the canonical "
            "and the writeq text of every term must read back as a variant of the term. Bounded-exhaustive conformance, not proof.",
    "note": "Trusted: TLC, the canonical input renderer of lib/terms.py for the term space, atom_codes/2 to build atoms from code "
            "points, the capture of user_output by the harness, read_term_from_chars/3 for the read-back. There is no print/1 in "
            "this tree (existence_error; no library defines it), so it is not exercised. The spacing and bracketing of operator "
            "terms under writeq/1 is not compared as exact text (the property statement lists no such case); it is covered by the "
            "read-back check only.",
    "technique": "TLA+ value-level specification (token classes, escapes, canonical form) enumerated by TLC; vectors replayed into "
                 "the real writer, exact text compared; written text read back by the real reader",
}

WORKDIR = os.path.join(common.WORK, "c55")
ALPHA_FULL = [97, 98, 65, 49, 95, 43, 45, 42, 47, 46, 92, 58, 33, 59, 44, 124, 91, 93, 123, 125, 40, 39, 34, 32, 10, 233, 201, 1,
              41, 37, 96, 9, 127, 160, 48, 122, 61, 60, 35, 36, 38, 63, 64, 94, 126, 62]
SEP = "\x1e"
PRELUDE = [{"q": "use_module(library(charsio))."}, {"q": "use_module(library(lists))."}]
NPRE = len(PRELUDE)


def build_extra(tier, path):
    rng = random.Random(common.seed() * 6151 + (1 if tier == "quick" else 2))
    n = 1500 if tier == "quick" else 40000
    seen = set()
    while len(seen) < n:
        ln = rng.randint(4, 6)
        if rng.random() < 0.5:     # mostly one class with one foreign character
            base = rng.choice([[97, 98, 49, 95, 65, 122], [43, 45, 42, 47, 46, 92, 58, 61, 60], ALPHA_FULL])
            s = [rng.choice(base) for _ in range(ln)]
            if rng.random() < 0.6:
                s[rng.randrange(ln)] = rng.choice(ALPHA_FULL)
        else:
            s = [rng.choice(ALPHA_FULL) for _ in range(ln)]
        seen.add(tuple(s))
    with open(path, "w") as f:
        for s in sorted(seen):
            f.write(json.dumps({"s": list(s)}) + "\n")
    return len(seen)


def txt(codes):
    return "".join(chr(c) for c in codes)


def codes_text(cs):
    return "[" + ",".join(str(c) for c in cs) + "]"


def atom_query(cs):
    return ("Cs = %s, atom_codes(A, Cs), char_code(S, 30), "
            "writeq(A), put_char(S), writeq(f(A)), put_char(S), writeq([A]), put_char(S), "
            "write(A), put_char(S), write(f(A)), put_char(S), "
            "write_canonical(A), put_char(S), write_canonical(f(A)), flush_output, "
            "write_term_to_chars(A, [quoted(true)], Q), append(Q, \" .\", Q2), "
            "catch(read_term_from_chars(Q2, B, []), error(E, _), true), "
            "( B == A -> R = same ; R = different )." % codes_text(cs))


ATOM_LEGS = [("writeq", "wq"), ("writeq_arg", "wqarg"), ("writeq_list", "wqlist"), ("write", "w"), ("write_arg", "warg"),
             ("write_canonical", "wq"), ("write_canonical_arg", "wqarg")]


def to_canon(t):
    """term record of Quote.tla -> canonical tuple of lib/terms.py"""
    k = t["t"]
    if k == "a":
        return ('a', txt(t["n"]))
    if k == "i":
        return ('i', int(t["i"]))
    if k == "v":
        return ('v', "V%d" % t["i"])
    if k == "c":
        return ('c', txt(t["n"]), tuple(to_canon(x) for x in t["a"]))
    raise ValueError(t)


# a variable token in canonical text: starts with _ or a capital letter and is not part of an alphanumeric or quoted token
# (write_canonical/1 writes _N, write_term_to_chars/3 names variables A, B, ...; every atom starting like that is quoted)
VAR_RE = re.compile(r"(?<![A-Za-z0-9_'])[A-Z_][A-Za-z0-9_]*")


def norm_vars(text):
    names = {}

    def sub(m):
        return names.setdefault(m.group(0), "_V%d" % len(names))
    return VAR_RE.sub(sub, text)


def term_query(ct):
    # The term and what is read back stay inside findall/3: only texts and verdicts are answer bindings (an improper
    # list as an answer binding panics the embedding API of this tree, lib_machine/mod.rs:402, which is not C55's subject).
    rb = ("catch(read_term_from_chars({c2}, {t}, []), error({e}, _), true), "
          "( nonvar({e}) -> {r} = error({e}) "
          "; subsumes_term(T, {t}), subsumes_term({t}, T) -> {r} = same "
          "; write_term_to_chars({t}, [quoted(true), ignore_ops(true)], {d}), {r} = different({d}) )")
    return ("findall(r(C1, R1, W1, R2), ( T = (%s), char_code(S, 30), "
            "write_canonical(T), put_char(S), writeq(T), put_char(S), write(T), flush_output, "
            "write_term_to_chars(T, [quoted(true), ignore_ops(true)], C1), append(C1, \" .\", C2), %s, "
            "write_term_to_chars(T, [quoted(true)], W1), append(W1, \" .\", W2), %s ), Res)." % (
                terms.text(ct), rb.format(c2="C2", t="T1", e="E1", r="R1", d="D1"),
                rb.format(c2="W2", t="T2", e="E2", r="R2", d="D2")))


def shape_of(ct):
    if ct[0] != 'c':
        return ct[0]
    return "%s/%d(%s)" % (ct[1], len(ct[2]), ",".join(
        (a[0] if a[0] != 'c' else "%s/%d" % (a[1], len(a[2]))) + ("-" if a[0] == 'i' and a[1] < 0 else "") for a in ct[2]))


def chars_of(t):
    """harness term for a list of characters -> python string (or None)"""
    if t is None:
        return None
    if "s" in t:
        return t["s"]
    if "l" in t and all("a" in x for x in t["l"]):
        return "".join(x["a"] for x in t["l"])
    if t.get("a") == "[]":
        return ""
    return None


def run(tier):
    rep = Report(PROP, tier, META["level"])
    os.makedirs(WORKDIR, exist_ok=True)
    extra_path = os.path.join(WORKDIR, "extra-%s-%d.ndjson" % (tier, os.getpid()))
    n_rand = build_extra(tier, extra_path)
    try:
        res, vecs = common.generate("MC_C55", "MC_C55_%s.cfg" % tier, workers=8 if tier == "quick" else 12,
                                    timeout=900 if tier == "quick" else 3600, env_extra={"C55_EXTRA": extra_path})
    finally:
        try:
            os.unlink(extra_path)
        except OSError:
            pass
    rep.add_tlc(res)
    rep.extra["tlc_generate_wall_s"] = round(res.wall, 1)
    atoms = {}
    for v in vecs:
        if v["kind"] == "atom":
            atoms.setdefault(tuple(v["s"]), v)
    atomv = [atoms[k] for k in sorted(atoms)]
    termd = {}
    for v in vecs:
        if v["kind"] == "term":
            termd.setdefault(txt(v["canon"]), v)
    termv = [termd[k] for k in sorted(termd)]
    if not atomv or not termv:
        raise common.ToolError("no vectors generated")
    rep.rule = ("atoms: every atom of length <= 3 over the class-representative alphabet (quick 28 characters: a b A 1 _ + - * / . \\ : "
                "! ; , | [ ] { } ( ' \" space LF e-acute E-acute SOH; thorough 46: also ) % ` TAB DEL NBSP 0 z = < # $ & ? @ ^ ~ >) plus "
                "seeded random atoms of length 4-6; seven exact-text observations per atom (writeq, write, write_canonical; "
                "stand-alone, f(A), [A]), the write_term_to_chars text and the read-back of the writeq text. terms: leaves "
                "{a,'B',-,[],',',1,-1,_} under unary {f,-,\\+,{},'$VAR'} and binary {f,-,',','.',:-,*,=,^} functors to depth 2 plus a "
                "catalogue; exact canonical text and read-back of canonical and writeq text. distinct = distinct (token class, "
                "length, quoted, escape kinds, observation) resp. (root functor/arity with argument kinds, observation)")
    B = 150

    def run_batches(items, mkq):
        jobs = []
        for bi in range(0, len(items), B):
            steps = list(PRELUDE)
            for it in items[bi:bi + B]:
                steps.append({"q": mkq(it), "max": 2})
            jobs.append({"id": bi, "steps": steps, "timeout": 120})
        results = run_jobs(jobs, workers=8, job_timeout=120)
        outs = []
        for job in jobs:
            bi = job["id"]
            batch = items[bi:bi + B]
            r = results.get(bi, {"crash": "missing"})
            if "crash" in r:
                single = [{"id": j, "steps": PRELUDE + [{"q": mkq(it), "max": 2}], "timeout": 30} for j, it in enumerate(batch)]
                rs = run_jobs(single, workers=8, job_timeout=30)
                for j in range(len(batch)):
                    x = rs.get(j, {"crash": "missing"})
                    outs.append({"crash": x["crash"]} if "crash" in x else x["res"][NPRE])
            else:
                rs = r["res"][NPRE:]
                bad = [j for j, x in enumerate(rs) if "panic" in x]
                if bad:
                    # a panic replaces the machine (the libraries loaded by the prelude are gone): redo what followed it
                    j0 = bad[0] + 1
                    single = [{"id": j, "steps": PRELUDE + [{"q": mkq(batch[j]), "max": 2}], "timeout": 30}
                              for j in range(j0, len(batch))]
                    r2 = run_jobs(single, workers=8, job_timeout=30)
                    for j in range(j0, len(batch)):
                        x = r2.get(j, {"crash": "missing"})
                        rs[j] = {"crash": x["crash"]} if "crash" in x else x["res"][NPRE]
                outs.extend(rs)
        return outs

    # ---- atoms ----
    outs = run_batches(atomv, lambda v: atom_query(v["s"]))
    for v, out in zip(atomv, outs):
        name = txt(v["s"])
        base = (v["cls"], min(len(v["s"]), 4), v["quoted"], tuple(sorted(v["esc"])))
        tag = "cls=%s quoted=%d esc=%s atom=%s" % (v["cls"], int(v["quoted"]), "+".join(sorted(v["esc"])) or "-", json.dumps(name))
        if "a" not in out or len(out["a"]) != 1 or not isinstance(out["a"][0], dict) or "b" not in out["a"][0]:
            what = out.get("panic") or out.get("crash") or json.dumps(out.get("a"))[:200]
            rep.case(base + ("abnormal",))
            rep.violation("atom abnormal %s result=%s" % (tag, what), {"vector": v, "query": atom_query(v["s"]), "result": out})
            continue
        b = out["a"][0]["b"]
        fields = out.get("out", "").split(SEP)
        if len(fields) != len(ATOM_LEGS):
            rep.case(base + ("abnormal",))
            rep.violation("atom output-shape %s out=%s" % (tag, json.dumps(out.get("out", ""))[:200]),
                          {"vector": v, "query": atom_query(v["s"]), "result": out})
            continue
        for (leg, fld), got in zip(ATOM_LEGS, fields):
            exp = txt(v[fld])
            rep.case(base + (leg,))
            if got != exp:
                rep.violation("atom leg=%s %s expected=%s got=%s" % (leg, tag, json.dumps(exp), json.dumps(got)),
                              {"vector": v, "leg": leg, "expected": exp, "got": got, "query": atom_query(v["s"])})
        q = chars_of(b.get("Q"))
        rep.case(base + ("write_term_to_chars",))
        if q != txt(v["wq"]):
            rep.violation("atom leg=write_term_to_chars %s expected=%s got=%s" % (tag, json.dumps(txt(v["wq"])), json.dumps(q)),
                          {"vector": v, "leg": "write_term_to_chars", "expected": txt(v["wq"]), "got": q, "query": atom_query(v["s"])})
        rep.case(base + ("readback",))
        same = b.get("R", {}).get("a")
        if same != "same":
            if "E" in b and "v" not in b["E"]:
                rd = "error:" + terms.show(terms.from_h(b["E"]))
            elif "B" in b and "v" not in b["B"]:
                rd = terms.show(terms.from_h(b["B"]))
            else:
                rd = "_"
            rep.violation("atom readback %s text=%s read=%s" % (tag, json.dumps(q), rd[:120]),
                          {"vector": v, "leg": "readback", "text": q, "read": rd, "query": atom_query(v["s"])})
    for v in atomv[:: max(1, len(atomv) // 3)][:3]:
        rep.sample({"atom": txt(v["s"]), "writeq": txt(v["wq"]), "class": v["cls"]})

    # ---- terms ----
    cts = [to_canon(v["t"]) for v in termv]
    outs = run_batches(list(zip(termv, cts)), lambda it: term_query(it[1]))
    for (v, ct), out in zip(zip(termv, cts), outs):
        canon = txt(v["canon"])
        shp = shape_of(ct)
        q = term_query(ct)
        if "a" not in out or len(out["a"]) != 1 or not isinstance(out["a"][0], dict) or "b" not in out["a"][0]:
            what = out.get("panic") or out.get("crash") or json.dumps(out.get("a"))[:200]
            rep.case((shp, "abnormal"))
            rep.violation("term abnormal term=%s result=%s" % (canon, what), {"vector": v, "query": q, "result": out})
            continue
        b = out["a"][0]["b"]
        res = b.get("Res", {}).get("l")
        fields = out.get("out", "").split(SEP)
        if len(fields) != 3 or not res or len(res) != 1 or res[0].get("c") != "r":
            rep.case((shp, "abnormal"))
            rep.violation("term output-shape term=%s out=%s res=%s" % (canon, json.dumps(out.get("out", ""))[:200], json.dumps(res)[:200]),
                          {"vector": v, "query": q, "result": out})
            continue
        c1, r1, w1, r2 = res[0]["args"]
        exp = norm_vars(canon)
        for leg, got in (("write_canonical", fields[0]), ("write_term_to_chars_canonical", chars_of(c1))):
            rep.case((shp, leg))
            if got is None or norm_vars(got) != exp:
                rep.violation("term leg=%s shape=%s term=%s got=%s" % (leg, shp, canon, json.dumps(got)),
                              {"vector": v, "leg": leg, "expected": exp, "got": got, "query": q})
        for leg, r, text in (("readback_canonical", r1, chars_of(c1)), ("readback_writeq", r2, chars_of(w1))):
            rep.case((shp, leg))
            if r.get("a") != "same":
                if r.get("c") == "different":
                    rd = chars_of(r["args"][0])
                else:
                    rd = "error:" + terms.show(terms.from_h(r))
                rep.violation("term %s shape=%s term=%s text=%s read=%s" % (leg, shp, canon, json.dumps(text), (rd or "?")[:160]),
                              {"vector": v, "leg": leg, "text": text, "read": rd, "query": q})
    for v in termv[:: max(1, len(termv) // 2)][:2]:
        rep.sample({"term_canonical": txt(v["canon"])})
    rep.traces = len(atomv) + len(termv)
    rep.exhaustive = True
    rep.extra["atoms"] = len(atomv)
    rep.extra["atoms_random"] = n_rand
    rep.extra["terms"] = len(termv)
    rep.assumptions = [
        "TLC, Quote.tla (its quoted forms are decoded with the quoted-token rules of NumLex.tla in the same run)",
        "exhaustive refers to the enumerated atoms of the stated alphabet and length and the stated term space; longer atoms are a seeded sample",
        "print/1 is not defined in this tree (existence_error; no library exports it) and is not exercised",
        "spacing and bracketing of operator terms under writeq/1 are checked only through read-back (variant of the term), not as exact text",
        "atoms are built with atom_codes/2 from code points; terms of the term space are entered in functional notation with quoted atoms",
        "the escape sequences inside quoted atoms are Scryer's documented choice (DESIGN.md Appendix 2), ISO fixes only that the text reads back",
    ]
    return rep.finish()


def replay(path):
    d = json.load(open(path))
    det = d["detail"]
    q = det.get("query")
    if not q:
        print(json.dumps(det, indent=1, default=str))
        return 0
    r = run_jobs([{"id": 0, "steps": PRELUDE + [{"q": q, "max": 2}], "timeout": 60}], workers=1)
    print(json.dumps({"signature": d["signature"], "query": q, "expected": det.get("expected"),
                      "result": r[0].get("res", [r[0]])[-1]}, indent=1, default=str))
    return 0
