"""C45 - read_term/2 reports variables, names and singletons exactly."""
import json
import os
import re

from lib import common, terms
from lib.common import Report, run_jobs

PROP = "C45"

META = {
    "level": "model_checking",
    "text": "What read_term reports about variables is specified in TLA+ (spec/ReadVars.tla) on the sequence of variable tokens "
            "of a clause: variables/1 = the distinct variables in first-occurrence order (every '_' a variable of its own), "
            "variable_names/1 = Name=Var for the named ones in first-occurrence order ('_' excluded, '_A', '_a', '__' included), "
            "singletons/1 = the named variables occurring exactly once (as a set). TLC enumerates every assignment of names from "
            "{X, Y, _, _A, Xs} (thorough: + _a, __) to the variable positions of clause skeletons (arguments, nested terms, lists "
            "with tails, operator expressions, curly terms, a clause with a body, next to double quoted lists and quoted atoms "
            "that contain variable-like text) and checks the mutual consistency of the three reports. Every case is replayed with "
            "read_term_from_chars/3 and with read_term/3 on a file stream; the reported variables are bound to '$v'(1), '$v'(2), .. "
            "in list order, so that the read term itself shows the numbering, and term, variables, variable_names and singletons "
            "are compared with the specification.",
    "note": "Trusted: TLC, the harness, the canonical text renderer; the term denoted by each skeleton under the standard operator "
            "table is part of the model (a wrong skeleton would show as a mismatch in every case of it). Up to 5 (quick) / 6 "
            "(thorough) variable positions. The order of singletons/1 is not specified and not compared. Other read options "
            "(syntax_errors etc.) are not part of the property.",
    "technique": "TLA+ specification on token sequences enumerated by TLC; every case replayed through two readers of the real machine",
}

B = 150
OPTS_A = "[variables(Vs),variable_names(Ns),singletons(Ss)]"
OPTS_B = "[singletons(Ss),variable_names(Ns),variables(Vs)]"
# The variables reported by variables/1 are bound to '$v'(1), '$v'(2), .. in list order; variables of the term that were
# NOT reported are then marked '$anon' (diagnosis only). The result is copied so that the answer is one self-contained term
# (the answer projection does not follow bindings made to variables that occur as list elements).
HELPERS = r"""
:- use_module(library(charsio)).
:- use_module(library(lists)).
c45_chars(Cs, R) :-
    catch(( read_term_from_chars(Cs, T, %s), c45_done(T, Vs, Ns, Ss, R) ), error(E, _), R = err(E)).
c45_stream(R) :-
    catch(( read_term(c45in, T, %s), c45_done(T, Vs, Ns, Ss, R) ), error(E, _), R = err(E)).
c45_done(T, Vs, Ns, Ss, R) :-
    c45_bind(Vs, 1), term_variables(T, Rest), c45_mark(Rest), copy_term(r(T, Vs, Ns, Ss), R).
c45_bind(Vs, _) :- var(Vs), !.
c45_bind([], _) :- !.
c45_bind([V|Vs], I) :- !, ( var(V) -> V = '$v'(I) ; true ), I1 is I + 1, c45_bind(Vs, I1).
c45_bind(_, _).
c45_mark([]).
c45_mark(['$anon'|Vs]) :- c45_mark(Vs).
""" % (OPTS_A, OPTS_B)


def pstr(s):
    return '"' + s.replace("\\", "\\\\").replace('"', '\\"') + '"'


def list_items(t):
    out = []
    while t[0] == 'c' and t[1] == '.' and len(t[2]) == 2:
        out.append(t[2][0])
        t = t[2][1]
    return out, t


def vnum(t):
    if t[0] == 'c' and t[1] == '$v' and len(t[2]) == 1 and t[2][0][0] == 'i':
        return t[2][0][1]
    return None


def pairs(t):
    """list of Name='$v'(k) -> list of (name, k) or a text describing the malformation"""
    items, tail = list_items(t)
    if tail != terms.NIL:
        return "not a list: " + terms.show(t)
    out = []
    for x in items:
        if x[0] == 'c' and x[1] == '=' and len(x[2]) == 2 and x[2][0][0] == 'a' and vnum(x[2][1]) is not None:
            out.append((x[2][0][1], vnum(x[2][1])))
        else:
            return "malformed element: " + terms.show(x)
    return out


def observe(out):
    """-> dict(term, vars, names, singles) or {'error': text}"""
    if "panic" in out:
        return {"error": "panic " + out["panic"]}
    a = out.get("a", [])
    if not a or not isinstance(a[0], dict) or "b" not in a[0] or "R" not in a[0]["b"]:
        return {"error": "no answer: %r" % (a[:1],)}
    r = terms.from_h(a[0]["b"]["R"])
    if r[0] == 'c' and r[1] == 'err':
        return {"error": "error " + terms.show(r[2][0])}
    if not (r[0] == 'c' and r[1] == 'r' and len(r[2]) == 4):
        return {"error": "unexpected " + terms.show(r)}
    t, vs, ns, ss = r[2]
    vitems, vtail = list_items(vs)
    return {"term": terms.show(t),
            "vars": [vnum(x) if vnum(x) is not None else terms.show(x) for x in vitems] if vtail == terms.NIL else "not a list: " + terms.show(vs),
            "names": pairs(ns), "singles": pairs(ss)}


def expected(v):
    return {"term": v["term"], "vars": list(range(1, v["nv"] + 1)),
            "names": [(n, k) for n, k in v["names"]], "singles": sorted((n, k) for n, k in v["singles"])}


def cls(v):
    kinds = tuple("anon" if n == "_" else "under" if n.startswith("_") else "plain" for n in v["occ"])
    first = {}
    pat = []
    for i, n in enumerate(v["occ"]):
        key = (n, i) if n == "_" else n
        first.setdefault(key, len(first) + 1)
        pat.append(first[key])
    return (v["sk"], tuple(pat), kinds)


VREF = re.compile(r"'\$v'\((\d+)\)")


def by_name(text, names):
    """the term text with every numbered variable replaced by its name, unnamed and unreported ones by _"""
    m = {k: n for n, k in names} if isinstance(names, list) else {}
    return VREF.sub(lambda g: m.get(int(g.group(1)), "_"), text).replace("'$anon'", "_")


def only_anonymous_missing(exp, got):
    """diagnosis of a mismatch: everything about the NAMED variables is right (positions in the term, order and names in
    variable_names/1, singletons/1) and variables/1 merely lacks anonymous variables"""
    if not (isinstance(got["vars"], list) and isinstance(got["names"], list) and isinstance(got["singles"], list)):
        return False
    if not all(isinstance(x, int) for x in got["vars"]) or got["vars"] != list(range(1, len(got["vars"]) + 1)):
        return False
    ks = [k for _, k in got["names"]]
    return (len(got["vars"]) < len(exp["vars"])
            and by_name(got["term"], got["names"]) == by_name(exp["term"], exp["names"])
            and [n for n, _ in got["names"]] == [n for n, _ in exp["names"]]
            and ks == sorted(set(ks)) and all(k in got["vars"] for k in ks)
            and sorted(n for n, _ in got["singles"]) == sorted(n for n, _ in exp["singles"])
            and all(p in got["names"] for p in got["singles"]))


def compare(rep, v, how, obs):
    exp = expected(v)
    rep.case(cls(v) + (how,))
    if "error" in obs:
        rep.violation("%s text=<%s> %s" % (how, v["text"], obs["error"]), {"vector": v, "how": how, "got": obs})
        return
    got = dict(obs)
    if isinstance(got["singles"], list) and len(set(got["singles"])) == len(got["singles"]):
        got["singles"] = sorted(got["singles"])
    bad = [f for f in ("term", "vars", "names", "singles") if got[f] != exp[f]]
    if not bad:
        return
    detail = {"vector": v, "how": how, "expected": exp, "got": obs}
    if only_anonymous_missing(exp, got):
        rep.violation("%s anonymous-missing text=<%s> variables/1 reports %d of %d variables; term=%s" % (
            how, v["text"], len(got["vars"]), len(exp["vars"]), got["term"]), detail)
    else:
        f = bad[0]
        rep.violation("%s text=<%s> field=%s expected=%s got=%s" % (how, v["text"], f, exp[f], got[f]), detail)


def run(tier):
    rep = Report(PROP, tier, META["level"])
    rep.rule = ("TLC enumerates (skeleton, assignment of names to its variable positions) completely; each case is read by "
                "read_term_from_chars/3 and by read_term/3 from a file stream with variables/1, variable_names/1, singletons/1; "
                "distinct = (skeleton, repetition pattern, kind of each name (anonymous / _-prefixed / plain), reader)")
    res, vecs = common.generate("MC_C45", "MC_C45_%s.cfg" % tier, workers=8, timeout=3000,
                                key=lambda v: (v["sk"], tuple(v["occ"])))
    rep.add_tlc(res)
    if not vecs:
        raise common.ToolError("no vectors generated")
    d = os.path.join(common.WORK, "c45")
    os.makedirs(d, exist_ok=True)
    jobs = []
    for bi in range(0, len(vecs), B):
        batch = vecs[bi:bi + B]
        path = os.path.join(d, "in-%s-%d.pl" % (tier, bi))
        with open(path, "w") as f:
            for v in batch:
                f.write(v["text"] + "\n")
        steps = [{"consult": HELPERS},
                 {"q": "open(%s, read, _, [alias(c45in)])." % terms.quote_atom(path)}]
        for v in batch:
            steps.append({"q": "c45_chars(%s, R)." % pstr(v["text"]), "max": 1})
            steps.append({"q": "c45_stream(R).", "max": 1})
        steps.append({"q": "c45_stream(R).", "max": 1})      # end of the stream
        jobs.append({"id": bi, "fresh": True, "steps": steps, "timeout": 180})
    results = run_jobs(jobs, workers=8, job_timeout=180)
    for job in jobs:
        bi = job["id"]
        batch = vecs[bi:bi + B]
        r = results.get(bi, {"crash": "missing"})
        if "crash" in r:
            rep.violation("crash in batch %d (first text <%s>): %s" % (bi, batch[0]["text"], r["crash"]), {"vector": batch[0], "result": r})
            continue
        outs = r["res"]
        if outs[1].get("a") not in (["T"], [{"b": {}}]) and not (outs[1].get("a") and isinstance(outs[1]["a"][0], dict)):
            raise common.ToolError("cannot open the case file: %r" % (outs[1],))
        for j, v in enumerate(batch):
            compare(rep, v, "chars", observe(outs[2 + 2 * j]))
            compare(rep, v, "stream", observe(outs[3 + 2 * j]))
        end = observe(outs[2 + 2 * len(batch)])
        rep.case(("eof",))
        if end != {"term": "'end_of_file'", "vars": [], "names": [], "singles": []}:
            rep.violation("stream end of file: expected end_of_file with empty reports, got %s" % (end,), {"vector": batch[-1], "got": end})
    for v in vecs[:: max(1, len(vecs) // 5)]:
        rep.sample({"text": v["text"], "expected": expected(v)})
    rep.traces = len(vecs)
    rep.exhaustive = True
    rep.assumptions = ["TLC and spec/ReadVars.tla (mutual consistency of the three reports checked in the same run)",
                       "the skeleton terms of spec/MC_C45.tla under the standard operator table",
                       "the harness answer projection and the canonical text renderer"]
    return rep.finish()


def replay(path):
    d = json.load(open(path))
    v = d["detail"]["vector"]
    wd = os.path.join(common.WORK, "c45")
    os.makedirs(wd, exist_ok=True)
    p = os.path.join(wd, "replay.pl")
    with open(p, "w") as f:
        f.write(v["text"] + "\n")
    job = {"id": 0, "fresh": True, "steps": [{"consult": HELPERS}, {"q": "open(%s, read, _, [alias(c45in)])." % terms.quote_atom(p)},
                                              {"q": "c45_chars(%s, R)." % pstr(v["text"])}, {"q": "c45_stream(R)."}]}
    r = run_jobs([job], workers=1)[0]
    print("signature:", d["signature"])
    print("expected:", expected(v))
    for o in r.get("res", [])[2:]:
        print("   ->", observe(o))
    return 0
