"""C05 - Equal integers behave identically regardless of how they were produced.

NumRep.tla models an integer as value + representation (inline fixnum / boxed big integer that may be small) and
states that every consumer sees only the value (layer A: Expect(consumer, value)).  MC_C05 (TLC) checks the
representation layer and the refinement of the layer-B consumers, and prints one vector per
(value, production path, consumer) - in the thorough tier also per (value, path, path, pair consumer) - carrying the
goal texts (owned by the spec) and the expected answer.  The driver substitutes the placeholders, runs the goals on the
real machine and compares the answers with the spec's."""
import json
import re

from lib import common, terms
from lib.common import Report, run_tlc, tlc_ok, run_jobs

PROP = "C05"

META = {
    "level": "model_checking",
    "text": "NumRep.tla: an integer is a value plus a representation (56-bit inline fixnum, or boxed big integer which "
            "arithmetic does not renormalise, so small values occur boxed). Layer A defines every consumer (=, ==, compare/3, "
            "sort/keysort/bagof, arithmetic comparison and is/2, arg/functor/length/nth0/nth1/between/numlist/succ, "
            "atom_length/sub_atom/number_codes/number_chars/char_code/atom_codes, format ~d/write, head unification, first-argument "
            "indexing static/dynamic/asserted, assertz+call/retract, findall/copy_term/bb_put copies, op/3 priority, assoc, dif) as "
            "a function of the value alone. TLC checks that every production path yields the intended value in a well-formed "
            "representation, that the layer-B consumers refine layer A (with the pre-86aa075 index model, keyed by raw cell also "
            "for boxed arguments, TLC exhibits the design-level counter-example of defect D3), and enumerates every (value, path, "
            "consumer) in the bounds; every vector is replayed on the real "
            "machine. Bounded-exhaustive conformance on the enumerated values, not proof.",
    "note": "Trusted: TLC, BigInt (validated by MC_BigInt/C01), the placeholder substitution and canonical renderer, the "
            "LeafAnswer projection of the harness. The representation a path produces is not observable through the public API; "
            "it is the layer-B model's prediction (before /repo commit 86aa075 the indexing consumers failed on the paths the model "
            "marks boxed; coverage.index_b_model_vs_implementation compares the model's index prediction with every run).",
    "technique": "TLA+ specification (value/representation refinement checked by TLC) + replay of TLC-enumerated vectors",
}

PLACE = re.compile(r"\$(VP1|VM1|VP2|VM2|DV|ATOMV|LISTV|V|N)\b")


def lit(dec):
    return dec if not dec.startswith("-") else "(%s)" % dec


def subst(text, sub, n, small):
    def rep(m):
        k = m.group(1)
        if k == "DV":
            return sub["V"]
        if k == "N":
            return str(n)
        if k == "ATOMV":
            if not small:
                raise common.ToolError("$ATOMV for a value that is not a small natural number")
            return "'" + "a" * int(sub["V"]) + "'"
        if k == "LISTV":
            if not small:
                raise common.ToolError("$LISTV for a value that is not a small natural number")
            return "[" + ",".join(["a"] * int(sub["V"])) + "]"
        return lit(sub[k])
    return PLACE.sub(rep, text)


def second(path_goal):
    """the second path of a pair binds Y instead of X (and uses its own auxiliary variables / predicate names)"""
    g = re.sub(r"\bX0\b", "Y0", path_goal)
    g = re.sub(r"\bX\b", "Y", g)
    g = re.sub(r"\bCs\b", "Ds", g)
    g = re.sub(r"\bP0\b", "Q0", g)
    return g.replace("pf_$N", "pg_$N")


def query(v, n):
    path = subst(v["path_goal"], v["subst"], n, v["small"])
    if v["path2"]:
        path += ", " + subst(second(v["path2_goal"]), v["subst"], n, v["small"])
    goal = subst(v["goal"], v["subst"], n, v["small"])
    return "%s, catch(findall(R, (%s), Rs), error(E, _), Rs = caught(E))." % (path, goal)


def expected(v):
    e = v["exp"]
    if e["ok"]:
        return terms.mk_list([terms.from_tla(t) for t in e["sols"]])
    return ('c', 'caught', (terms.from_tla(e["err"]),))


def vclass(v):
    n = int(v["subst"]["V"])
    a = abs(n)
    if a < 1000:
        c = "small"
    elif a < (1 << 54):
        c = "medium"
    elif a <= (1 << 55) + 1:
        c = "fixnum-boundary"
    else:
        c = "big"
    return ("-" if n < 0 else "+") + c


def run_cases(cases, hdr, workers=8, per_job=150):
    """returns list of (case, got-canonical-term-or-tuple, out-text, query)"""
    byval = {}
    for i, v in enumerate(cases):
        byval.setdefault(v["subst"]["V"], []).append((i, v))
    jobs, index = [], {}
    for val in sorted(byval, key=int):
        items = byval[val]
        for ci in range(0, len(items), per_job):
            chunk = items[ci:ci + per_job]
            sub = chunk[0][1]["subst"]
            steps = [{"q": hdr["setup"], "max": 1},
                     {"consult": subst(hdr["program"], sub, 0, False)}]
            for i, v in chunk:
                steps.append({"q": query(v, i), "max": 2})
            jid = len(jobs)
            jobs.append({"id": jid, "steps": steps, "timeout": 240, "fresh": True})
            index[jid] = chunk
    results = run_jobs(jobs, workers=workers, job_timeout=240)
    out = []
    for job in jobs:
        r = results.get(job["id"], {"crash": "missing"})
        chunk = index[job["id"]]
        if "crash" in r:
            for k, (i, v) in enumerate(chunk):
                out.append((v, ("crash", str(r["crash"])), "", job["steps"][2 + k]["q"]))
            continue
        res = r["res"]
        setup_ok = res[0].get("a") == ["T"] and "error" not in res[1].get("out", "") and "panic" not in res[1]
        for k, (i, v) in enumerate(chunk):
            o = res[2 + k]
            q = job["steps"][2 + k]["q"]
            if not setup_ok:
                out.append((v, ("setup-failed", json.dumps(res[:2])[:300]), "", q))
            elif "panic" in o:
                out.append((v, ("panic", o["panic"]), o.get("out", ""), q))
            else:
                a = o.get("a", [])
                if len(a) == 1 and isinstance(a[0], dict) and "b" in a[0] and "Rs" in a[0]["b"]:
                    out.append((v, terms.from_h(a[0]["b"]["Rs"]), o.get("out", ""), q))
                else:
                    out.append((v, ("answers", json.dumps(a)[:300]), o.get("out", ""), q))
    return out


def show(t):
    if isinstance(t, tuple) and t and t[0] in ("crash", "panic", "answers", "setup-failed"):
        return "%s:%s" % t
    return terms.show(t)


def judge(rep, hdr, results):
    agree = {"predicted_fail_observed_fail": 0, "predicted_fail_observed_ok": 0, "predicted_ok_observed_fail": 0,
             "disagreements": []}
    for v, got, out, q in results:
        exp = expected(v)
        key = "box" if "box" in (v["rep"], v["rep2"]) else "fix"
        rep.case((v["consumer"], v["path"], v["path2"], key, vclass(v)))
        ok = isinstance(got, tuple) and got[:1] not in (("crash",), ("panic",), ("answers",), ("setup-failed",)) \
            and terms.variant(exp, got)
        if ok and v["consumer"] in hdr["out_consumers"] and out != v["exp"]["out"]:
            ok = False
            got = ("answers", "output %r (expected %r)" % (out, v["exp"]["out"]))
        if v["consumer"] in hdr["index_consumers"]:
            if not v["refines"]:
                agree["predicted_fail_observed_ok" if ok else "predicted_fail_observed_fail"] += 1
            elif not ok:
                agree["predicted_ok_observed_fail"] += 1
            if ok != v["refines"]:
                dis = "%s path=%s%s value=%s" % (v["consumer"], v["path"], ("+" + v["path2"]) if v["path2"] else "",
                                                v["subst"]["V"])
                if len(agree["disagreements"]) < 40:
                    agree["disagreements"].append(dis)
        if not ok:
            paths = v["path"] + (("+" + v["path2"]) if v["path2"] else "")
            sig = "consumer=%s path=%s key=%s value=%s expected=%s got=%s" % (
                v["consumer"], paths, key, v["subst"]["V"], show(exp), show(got))
            rep.violation(sig, {"vector": v, "query": q, "setup": hdr["setup"],
                                "program": subst(hdr["program"], v["subst"], 0, False),
                                "expected": show(exp), "got": show(got), "out": out})
    return agree


def run(tier):
    rep = Report(PROP, tier, META["level"])
    rep.rule = ("TLC (MC_C05) enumerates values {0,1,2,5,255,-1, 2^55-1, 2^55, -2^55, -2^55-1, 2^63, 2^70} (thorough: 15 more) x "
                "production paths {literal, number_codes, V+2^60-2^60, V*2^70//2^70, -(-(..)), length/2, atom_length/2, succ/2 "
                "(fixnum and boxed predecessor), findall copy, copy_term, assertz+fetch, truncate, number_codes round trip} x every "
                "consumer applicable to the value; thorough adds pairs of paths x pair consumers. distinct = distinct (consumer, "
                "path(s), predicted representation, magnitude class of the value)")
    san = tlc_ok(run_tlc("MC_BigInt", "MC_BigInt_quick.cfg", workers=4, timeout=1800), "BigInt sanity")
    rep.add_tlc(san)
    res, vecs = common.generate("MC_C05", "MC_C05_%s.cfg" % tier, workers=8 if tier == "quick" else 12, timeout=3600)
    rep.add_tlc(res)
    hdrs = [v for v in vecs if v.get("kind") == "header"]
    cases = [v for v in vecs if v.get("kind") == "case"]
    if len(hdrs) != 1 or not cases:
        raise common.ToolError("MC_C05 printed no vectors")
    hdr = hdrs[0]
    if not hdr["boxed_small"]:
        raise common.ToolError("vacuous: no production path yields a boxed small integer in the model")
    results = run_cases(cases, hdr, workers=8)
    agree = judge(rep, hdr, results)
    for v, got, out, q in results[:: max(1, len(results) // 5)]:
        rep.sample({"query": q, "expected": show(expected(v)), "got": show(got), "predicted_representation": v["rep"]})
    rep.traces = len(results)
    rep.exhaustive = True
    rep.extra["design_level_counterexamples"] = {
        "what": "(consumer, path) classes whose layer-B model does not refine layer A in the TLC model (none unless "
                "NumRep!BoxedArgTakesVariablePath is FALSE, the code before /repo commit 86aa075)",
        "consumer_path_classes": len(hdr["design_counterexamples"]),
        "consumers": sorted(set(c for c, _ in hdr["design_counterexamples"]))}
    rep.extra["boxed_small_paths"] = sorted(set(p for _, p in hdr["boxed_small"]))
    rep.extra["index_b_model_vs_implementation"] = agree
    rep.assumptions = ["TLC and the BigInt module (sanity theorems checked in this run)",
                       "placeholder substitution, canonical text renderer, LeafAnswer projection of the harness",
                       "the representation produced by a path is the layer-B model's prediction; it is not observable"]
    return rep.finish()


def replay(path):
    d = json.load(open(path))
    det = d["detail"]
    steps = [{"q": det["setup"], "max": 1}, {"consult": det["program"]}, {"q": det["query"], "max": 2}]
    r = run_jobs([{"id": 0, "steps": steps, "timeout": 120, "fresh": True}], workers=1, job_timeout=120)[0]
    print(json.dumps({"query": det["query"], "expected": det["expected"], "result": r.get("res", r)[-1:]}, indent=1,
                     default=str))
    return 0
