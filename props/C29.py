"""C29 - Toplevel answers are faithful and re-executable."""
import fcntl
import json
import os
import pty
import select
import shutil
import signal
import subprocess
import threading
import time

from lib import common, terms
from lib.common import Report, run_jobs, generate
from lib.prolog_replay import Prog, unrename_term, features

PROP = "C29"
META = {
    "level": "model_checking",
    "text": "spec/Toplevel.tla gives the answer protocol of the toplevel over the solutions computed by the abstract machine "
            "spec/Prolog.tla: k answers separated by ';', each a conjunction of equations for the query variables (or true) and "
            "residual goals, ended by '.' or ';  false.', 'false.' alone for no solution, the ball after an uncaught exception; "
            "'; false.' is admissible only if the abstract machine still had an alternative at the last answer (a superset of the "
            "choice points a WAM with indexing keeps). TLC enumerates queries p(X) over consulted one- and two-clause programs "
            "from a grammar with control constructs, pure queries over helper predicates (operators, quoting, lists, sharing), "
            "library calls member/2, append/3, between/3 (modelled by their textbook clauses) and queries with dif/2, runs the "
            "machine and prints solutions, admissible transcripts and, per answer, how often 'Query, Answer' succeeds. The real "
            "scryer-prolog binary is driven through a pseudo-terminal (keys ';' or 'a'); the transcript must be admissible, every "
            "printed answer is read back (read_term) and must be a variant of the solution (bindings and residual goals), and "
            "'Query, Answer' is run in-process and must succeed the specified number of times.",
    "note": "Trusted: TLC, spec/Prolog.tla, the pty driver (waits for the process to block in epoll_wait = key wanted, or in "
            "read(0) = prompt), the transcript parser, sv-harness for reading answers back and re-executing them. Terminal-level "
            "behaviour (line editing, colours) is out of scope (TERM=dumb). Terms stay within the default printing depth. Which "
            "answers of library predicates are deterministic is implementation dependent: both end markers are accepted there.",
    "technique": "TLA+ abstract machine + answer-protocol specification explored by TLC; behaviours replayed into the real "
                 "toplevel under a pty and re-executed in-process (spec -> impl)",
}

RENAME = [("p", 1)]
LIBS = ["lists", "between", "dif"]
HELPER_TEXT = """q(a). q(b).
t(1). t(2). t(3).
r(a,1). r(b,2). r(c,3).
u(X,Y) :- q(X), r(X,Y).
s(f(_)). s(g(X,_)) :- q(X). s([_|_]).
"""
BIN_DIR = os.path.join(common.WORK, "target-bin")
BIN = os.path.join(BIN_DIR, "debug", "scryer-prolog")


def build_binary():
    """the real binary, built once per check run (cargo is incremental); own lock: the target dir is ours"""
    common.ensure_dirs()
    lock = open(os.path.join(common.WORK, ".cargo-bin.lock"), "w")
    fcntl.flock(lock, fcntl.LOCK_EX)
    try:
        env = dict(os.environ)
        env["CARGO_NET_OFFLINE"] = "true"
        cmd = ["cargo", "build", "--offline", "--manifest-path", os.path.join(common.REPO, "Cargo.toml"),
               "--no-default-features", "--features", "repl,hostname,crypto-full", "--bin", "scryer-prolog",
               "--target-dir", BIN_DIR]
        try:
            r = subprocess.run(cmd, env=env, stdout=subprocess.PIPE, stderr=subprocess.STDOUT, text=True, timeout=7200)
        except subprocess.TimeoutExpired:
            raise common.ToolError("cargo build of scryer-prolog timed out")
        if r.returncode != 0 or not os.path.exists(BIN):
            raise common.ToolError("cargo build of the scryer-prolog binary failed:\n" + r.stdout[-3000:])
        return BIN
    finally:
        fcntl.flock(lock, fcntl.LOCK_UN)
        lock.close()


class Toplevel:
    """one scryer-prolog process under a pseudo-terminal"""
    SYS_READ = "0"
    SYS_WAITS = {"232", "281", "441", "7", "271", "23", "270"}     # epoll_wait/pwait/pwait2, poll, ppoll, select, pselect6 (x86-64)

    def __init__(self, binary):
        self.pid, self.fd = pty.fork()
        if self.pid == 0:
            os.environ["TERM"] = "dumb"
            os.environ["NO_COLOR"] = "1"
            try:
                os.execv(binary, [binary, "-f", "--no-add-history"])
            finally:
                os._exit(127)
        self.buf = ""
        out, st = self.wait(60)
        if st != "prompt":
            self.close()
            raise common.ToolError("the toplevel did not show a prompt: %r" % out[-200:])

    def state(self):
        """'key' (blocked waiting for a key), 'prompt' (blocked reading a line), 'busy', 'dead'"""
        try:
            with open("/proc/%d/syscall" % self.pid) as f:
                s = f.read().split()
        except Exception:
            return "dead"
        if not s:
            return "dead"
        if s[0] in self.SYS_WAITS:
            return "key"
        if s[0] == self.SYS_READ and len(s) > 1 and int(s[1], 16) == 0:
            return "prompt"
        return "busy"

    def drain(self):
        got = False
        while True:
            r, _, _ = select.select([self.fd], [], [], 0)
            if not r:
                return got
            try:
                d = os.read(self.fd, 65536)
            except OSError:
                return got
            if not d:
                return got
            self.buf += d.decode("utf-8", "replace")
            got = True

    def wait(self, timeout):
        """wait until the process blocks for input; returns (output so far, state)"""
        end = time.time() + timeout
        stable = 0
        while time.time() < end:
            st = self.state()
            if st == "dead":
                self.drain()
                return self.buf, "dead"
            if st in ("key", "prompt"):
                got = self.drain()
                # blocked and nothing new to read twice in a row: the output is complete
                stable = 0 if got else stable + 1
                if stable >= 2:
                    if st == "prompt" and not self.buf.endswith("?- "):
                        stable = 0        # the prompt text is still on its way
                    else:
                        return self.buf, st
            else:
                stable = 0
            time.sleep(0.003)
        self.drain()
        return self.buf, "timeout"

    def send(self, s):
        os.write(self.fd, s.encode())

    def query(self, text, mode, timeout=20.0, max_keys=40):
        """type a query, ask for all answers; returns (transcript text, status) with status ok|timeout|dead|keys"""
        self.buf = ""
        self.send(text + "\n")
        keys = 0
        all_sent = False
        while True:
            out, st = self.wait(timeout)
            if st == "prompt":
                break
            if st == "key":
                if keys >= max_keys:
                    self.interrupt()
                    return self.buf, "keys"
                if mode == "a" and all_sent:
                    time.sleep(0.01)       # 'a' was pressed: further blocking is transient
                    continue
                self.send("a" if mode == "a" else ";")
                all_sent = True
                keys += 1
                # the key is acknowledged by a line break + ';  '
                t0 = time.time()
                n0 = len(self.buf)
                while time.time() - t0 < timeout:
                    self.drain()
                    if len(self.buf) > n0:
                        break
                    time.sleep(0.002)
                continue
            if st == "timeout":
                self.interrupt()
                return self.buf, "timeout"
            return self.buf, "dead"
        body = self.buf.replace("\r", "")
        if body.endswith("?- "):
            body = body[:-3]
        # the first line is the echo of the typed query
        nl = body.find("\n")
        body = body[nl + 1:] if nl >= 0 else ""
        return body, "ok"

    def interrupt(self):
        try:
            os.kill(self.pid, signal.SIGINT)
        except Exception:
            pass
        self.wait(10)

    def close(self):
        try:
            os.kill(self.pid, signal.SIGKILL)
        except Exception:
            pass
        try:
            os.close(self.fd)
        except Exception:
            pass
        try:
            os.waitpid(self.pid, 0)
        except Exception:
            pass


def parse_transcript(body):
    """-> (tokens, answers): tokens like the spec's [kind...]; answers = texts of the printed answers"""
    txt = body.strip("\n")
    if txt.startswith("   "):
        txt = txt[3:]
    parts = txt.split("\n;  ")
    toks, answers = [], []
    for i, p in enumerate(parts):
        last = (i == len(parts) - 1)
        p = p.strip()
        if i > 0:
            toks.append("sep")
        if last:
            if not p.endswith("."):
                return None, "the transcript does not end with '.': %r" % body[-120:]
            p = p[:-1].rstrip()
            if p == "false":
                toks.append("false")
            elif p.startswith("error(") or p.startswith("throw("):
                toks.append("ball")
                answers.append(p)
            else:
                toks.append("ans")
                toks.append("dot")
                answers.append(p)
        else:
            toks.append("ans")
            answers.append(p)
    return toks, answers


def spec_tokens(tr):
    return [t["k"] for t in tr]


def flatten_conj(t):
    if t[0] == 'c' and t[1] == ',' and len(t[2]) == 2:
        return flatten_conj(t[2][0]) + flatten_conj(t[2][1])
    return [t]


def answer_term(read_res, qv):
    """harness result of read_term_from_chars(Chars, T, [variable_names(Vs)]) -> ('c','ans', values of qv + residual goals)"""
    b = read_res["a"][0]["b"]
    t = terms.from_h(b["T"])
    vs = terms.from_h(b["Vs"])
    # variable_names: list of Name=Var; name the variables of T after their source names
    ren = {}
    cur = vs
    while cur[0] == 'c' and cur[1] == '.':
        pair = cur[2][0]
        if pair[0] == 'c' and pair[1] == '=' and pair[2][1][0] == 'v':
            ren[pair[2][1][1]] = pair[2][0][1]
        cur = cur[2][1]

    def rn(x):
        if x[0] == 'v':
            return ('v', ren.get(x[1], x[1]))
        if x[0] == 'c':
            return ('c', x[1], tuple(rn(y) for y in x[2]))
        return x
    t = rn(t)
    vals = {}
    res = []
    if t != ('a', 'true'):
        for g in flatten_conj(t):
            if g[0] == 'c' and g[1] == '=' and len(g[2]) == 2 and g[2][0][0] == 'v' and g[2][0][1] in qv and g[2][0][1] not in vals:
                vals[g[2][0][1]] = g[2][1]
            else:
                if g[0] == 'c' and g[1] == ':' and len(g[2]) == 2:      # module qualification of a residual goal
                    g = g[2][1]
                res.append(g)
    def resolve(x, seen):
        """the printed equations are a substitution in solved form up to chains of variable equations (X = Y, Z = X)"""
        if x[0] == 'v':
            if x[1] in vals and x[1] not in seen:
                return resolve(vals[x[1]], seen | {x[1]})
            return x
        if x[0] == 'c':
            return ('c', x[1], tuple(resolve(y, seen) for y in x[2]))
        return x
    return ('c', 'ans', tuple(resolve(('v', n), frozenset()) for n in qv) + tuple(resolve(g, frozenset()) for g in res))


def chars(s):
    return '"' + s.replace("\\", "\\\\").replace('"', '\\"') + '"'


def run(tier):
    rep = Report(PROP, tier, META["level"])
    rep.rule = ("TLC enumerates (program, query): p(X) over one/two-clause programs from the body grammar of MC_C29 (quick 166, "
                "thorough all head/body/order combinations), pure and library queries, dif/2 queries; each is typed into the real "
                "toplevel (alternating keys ';' and 'a'). distinct = (kind, constructs used, number of answers, end marker)")
    res, vecs = generate("MC_C29", "MC_C29_%s.cfg" % tier, workers=8 if tier == "quick" else 12, timeout=5400,
                         key=lambda v: json.dumps([v["prog"], v["q"]], sort_keys=True))
    rep.add_tlc(res)
    if not vecs:
        raise common.ToolError("no vectors generated")
    binary = build_binary()
    wdir = os.path.join(common.WORK, "c29", str(os.getpid()))
    shutil.rmtree(wdir, ignore_errors=True)
    os.makedirs(wdir, exist_ok=True)
    progs = [Prog(v, "%d" % i, RENAME) for i, v in enumerate(vecs)]
    nsess = 4 if tier == "quick" else 6
    shards = [list(range(i, len(vecs), nsess)) for i in range(nsess)]
    obs = [None] * len(vecs)
    errors = []

    CH = 120          # programs per consulted file (the dev-profile binary loads slowly)

    def setup(top, path):
        for lib in LIBS:
            out, st = top.query("use_module(library(%s))." % lib, "a", timeout=120)
            if st != "ok" or "true" not in out:
                raise common.ToolError("could not load library(%s) in the toplevel: %r" % (lib, out[-200:]))
        out, st = top.query("consult('%s')." % path, "a", timeout=900)
        if st != "ok" or "true" not in out:
            raise common.ToolError("could not consult the programs in the toplevel: %r" % out[-300:])

    def session(si, idxs):
        top = None
        try:
            top = Toplevel(binary)
            for ci in range(0, len(idxs), CH):
                chunk = idxs[ci:ci + CH]
                path = os.path.join(wdir, "prog%d_%d.pl" % (si, ci))
                with open(path, "w") as f:
                    if ci == 0:
                        f.write(HELPER_TEXT)
                    for i in chunk:
                        f.write(progs[i].text)
                if ci == 0:
                    setup(top, path)
                else:
                    out, st = top.query("consult('%s')." % path, "a", timeout=900)
                    if st != "ok" or "true" not in out:
                        raise common.ToolError("could not consult the programs in the toplevel: %r" % out[-300:])
                for i in chunk:
                    mode = ";" if (i // nsess) % 2 == 0 else "a"
                    body, st = top.query(progs[i].qtext, mode)
                    obs[i] = (body, st, mode)
                    if st == "dead":
                        # start again with the helpers and this chunk's programs
                        top.close()
                        top = Toplevel(binary)
                        hp = os.path.join(wdir, "re%d_%d.pl" % (si, i))
                        with open(hp, "w") as f:
                            f.write(HELPER_TEXT)
                            for j in chunk:
                                f.write(progs[j].text)
                        setup(top, hp)
        except Exception as e:  # noqa
            errors.append(e)
        finally:
            if top:
                top.close()

    ths = [threading.Thread(target=session, args=(si, idxs)) for si, idxs in enumerate(shards) if idxs]
    for t in ths:
        t.start()
    for t in ths:
        t.join()
    if errors:
        raise errors[0] if isinstance(errors[0], common.ToolError) else common.ToolError("pty session failed: %r" % (errors[0],))

    # ---- protocol check, and preparation of the in-process part
    alltext = HELPER_TEXT + "".join(p.text for p in progs)
    libtext = "".join(":- use_module(library(%s)).\n" % l for l in LIBS + ["charsio"])
    per_case = {}
    jobs = []
    B = 25
    pending = []
    for i, v in enumerate(vecs):
        pr = progs[i]
        body, st, mode = obs[i] if obs[i] else ("", "missing", "?")
        feats = tuple(sorted(features(terms.from_tla(v["q"])) | set().union(*[features(terms.from_tla(c["b"])) for c in v["prog"]] or [set()])))
        qt = "%s ?- %s" % (" ".join(l for l in pr.text.split("\n") if l), pr.qtext)
        det = {"vector": v, "query": pr.qtext, "program": pr.text, "mode": mode, "transcript": body}
        admissible = [spec_tokens(tr) for tr in v["transcripts"]]
        if st != "ok":
            rep.case((v["kind"], feats, len(v["sols"]), "no-prompt"))
            rep.violation("toplevel %s (key %s): %s" % ({"timeout": "does not return to the prompt", "dead": "died",
                                                          "keys": "keeps asking for keys"}.get(st, st), mode, qt), det)
            continue
        toks, answers = parse_transcript(body)
        if toks is None:
            rep.case((v["kind"], feats, len(v["sols"]), "unparsed"))
            rep.violation("transcript unreadable (%s): %s" % (answers, qt), det)
            continue
        rep.case((v["kind"], feats, len(v["sols"]), toks[-1] if toks else "", mode))
        if toks not in admissible:
            rep.violation("transcript %s not admissible (expected %s, key %s): %s" % (
                " ".join(toks), " | ".join(" ".join(a) for a in admissible), mode, qt), det)
            continue
        nans = sum(1 for t in toks if t == "ans")
        per_case[i] = (answers[:nans], answers[nans:], det, qt)
        pending.append(i)
    for bi in range(0, len(pending), B):
        steps = [{"consult": libtext + alltext}]
        meta = []
        for i in pending[bi:bi + B]:
            pr = progs[i]
            v = vecs[i]
            answers, ball, det, qt = per_case[i]
            for k, atext in enumerate(answers):
                steps.append({"q": "read_term_from_chars(%s, T, [variable_names(Vs)])." % chars(atext + " ."), "max": 2})
                meta.append((i, k, "read"))
                steps.append({"q": "%s, %s." % (pr.qtext[:-1], atext), "max": 40, "tmo_ms": 5000})
                meta.append((i, k, "reexec"))
            if ball:
                steps.append({"q": "read_term_from_chars(%s, T, [variable_names(Vs)])." % chars(ball[0] + " ."), "max": 2})
                meta.append((i, 0, "ball"))
        jobs.append({"id": bi, "steps": steps, "timeout": 300, "fresh": True, "_meta": meta})
    results = run_jobs([{k: v for k, v in j.items() if k != "_meta"} for j in jobs], workers=4, job_timeout=300)
    reexec_ok = 0
    for job in jobs:
        r = results.get(job["id"], {"crash": "missing"})
        if "crash" in r:
            raise common.ToolError("in-process re-execution batch failed: %s" % r["crash"])
        for (i, k, what), x in zip(job["_meta"], r["res"][1:]):
            v, pr = vecs[i], progs[i]
            answers, ball, det, qt = per_case[i]
            if what in ("read", "ball"):
                text = answers[k] if what == "read" else ball[0]
                try:
                    if what == "read":
                        got = answer_term(x, pr.qv)
                        got = unrename_term(got, pr.inv)
                        s = v["sols"][k]
                        exp = ('c', 'ans', tuple(terms.from_tla(t) for t in s["b"]) + tuple(terms.from_tla(t) for t in s["res"]))
                        if not terms.variant(exp, got):
                            rep.violation("answer %d not faithful: printed %r, solution %s: %s" % (k + 1, text, terms.show(exp), qt),
                                          dict(det, answer=text))
                    else:
                        t = unrename_term(terms.from_h(x["a"][0]["b"]["T"]), pr.inv)
                        ballx = terms.from_tla(v["ball"])
                        if t[0] == 'c' and t[1] == 'throw' and len(t[2]) == 1:
                            t = t[2][0]
                        if ballx[0] == 'c' and ballx[1] == 'error' and len(ballx[2]) == 2:
                            alts = [ballx] + [terms.from_tla(b) for b in v.get("balts", [])]
                            ok = t[0] == 'c' and t[1] == 'error' and len(t[2]) == 2 and any(terms.variant(a[2][0], t[2][0]) for a in alts)
                        else:
                            ok = terms.variant(ballx, t)
                        if not ok:
                            rep.violation("exception printed as %r, expected ball %s: %s" % (text, terms.show(ballx), qt), dict(det, answer=text))
                except common.ToolError:
                    raise
                except Exception as e:  # noqa
                    rep.violation("answer %d is not readable back (%s): %r: %s" % (k + 1, str(x)[:120], text, qt), dict(det, answer=text, err=repr(e)))
            else:
                n_exp = v["sols"][k]["n"]
                if "panic" in x or x.get("tmo"):
                    rep.violation("re-execution of answer %d %s: %s, %s: %s" % (
                        k + 1, "panics" if "panic" in x else "does not terminate", pr.qtext[:-1], answers[k], qt), dict(det, answer=answers[k]))
                    continue
                succ = [a for a in x["a"] if a == "T" or (isinstance(a, dict) and "b" in a)]
                good = (len(succ) == n_exp) if n_exp > 0 else (len(succ) >= 1)
                if good:
                    reexec_ok += 1
                else:
                    rep.violation("answer %d not re-executable: '%s, %s' succeeds %d times, expected %s: %s" % (
                        k + 1, pr.qtext[:-1], answers[k], len(succ), n_exp if n_exp > 0 else "at least once", qt),
                        dict(det, answer=answers[k], got=str(x)[:300]))
    shutil.rmtree(wdir, ignore_errors=True)
    step = max(1, len(vecs) // 5)
    for i in range(0, len(vecs), step):
        rep.sample({"program": progs[i].text.strip(), "query": progs[i].qtext, "transcript": (obs[i][0] if obs[i] else "").strip(),
                    "admissible": [" ".join(spec_tokens(tr)) for tr in vecs[i]["transcripts"]]})
    rep.traces = len(vecs)
    rep.exhaustive = True
    rep.extra["answers_reexecuted"] = reexec_ok
    rep.extra["end_marker_forced_dot"] = sum(1 for v in vecs if v["lastdet"] and v["sols"] and v["status"] == "done")
    rep.assumptions = ["TLC", "spec/Prolog.tla", "spec/Toplevel.tla", "pty driver and transcript parser", "sv-harness (read back, re-execution)",
                       "library predicates modelled by their textbook clauses"]
    return rep.finish()


def replay(path):
    d = json.load(open(path))
    det = d["detail"]
    v = det["vector"]
    binary = build_binary()
    pr = Prog(v, "0", RENAME)
    wdir = os.path.join(common.WORK, "c29", "replay-%d" % os.getpid())
    os.makedirs(wdir, exist_ok=True)
    p = os.path.join(wdir, "prog.pl")
    with open(p, "w") as f:
        f.write(HELPER_TEXT + pr.text)
    top = Toplevel(binary)
    for lib in LIBS:
        top.query("use_module(library(%s))." % lib, "a")
    top.query("consult('%s')." % p, "a", timeout=120)
    rc = 0
    for mode in (";", "a"):
        body, st = top.query(pr.qtext, mode)
        toks, answers = parse_transcript(body) if st == "ok" else (None, st)
        print("key %s: %s\n%s" % (mode, st, body))
        adm = [spec_tokens(tr) for tr in v["transcripts"]]
        print("tokens:", toks, "admissible:", adm)
        if toks not in adm:
            rc = 1
    top.close()
    shutil.rmtree(wdir, ignore_errors=True)
    print("solutions:", [[terms.show(terms.from_tla(t)) for t in s["b"] + s["res"]] for s in v["sols"]])
    return rc
