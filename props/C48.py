"""C48 - File-system predicates (library(files)) reflect and change the real file system."""
import json
import os
import shutil
import subprocess
import threading

from lib import common, terms
from lib.common import Report, run_tlc, tlc_ok, run_jobs

PROP = "C48"

META = {
    "level": "model_checking",
    "text": "library(files) is specified in TLA+ (spec/FS.tla) as operations on a tree of directories and files with sizes under "
            "a scratch root: success condition, effect and documented error of make_directory/1, make_directory_path/1, "
            "delete_file/1, delete_directory/1, rename_file/2, file_copy/2 and the observers file_exists/1, directory_exists/1, "
            "file_size/2, directory_files/2, path_canonical/2; path_segments/2 as a pure function; must_be(chars) argument "
            "checks. TLC explores the reachable trees breadth-first and applies every operation in every state (quick/thorough) "
            "and generates random histories of 25 operations; each history is replayed on the real file system in a fresh scratch "
            "directory; after EVERY step the outcome of the operation and the real tree walked with os.walk are compared with the "
            "model, and all observers on all pool paths (and non-normalised path texts) after the last step of a BFS history and "
            "after every step of a random history.",
    "note": "Trusted: TLC, the harness, Python's os module as the view of the real file system. Pool of 4 (quick) / 6 (thorough) "
            "names incl. a non-ASCII name, a name with a space and nested paths; sizes 0/3/4097 bytes (content is not compared, "
            "only sizes). Not covered: symbolic links, permissions, relative paths/working_directory/2, the file time predicates "
            "(not named by the property), concurrent modification.",
    "technique": "TLA+ state-machine specification explored by TLC (BFS + simulation); histories replayed on the real file system",
}

NAMES = {"a": "a", "us": "é b", "u": "é€ü", "s": "b c", "d": "d", "e": "e"}
CHARS = {"E": "é"}
LOAD = ":- use_module(library(files)).\n"
ERRVAR = "E__"


def cname(seg):
    return NAMES.get(seg, seg)


def rel(segs):
    return "/".join(cname(s) for s in segs)


def abstract(segs):
    return "/".join(segs) if segs else "."


def pstr(s):
    """Prolog double-quoted string (a list of characters)"""
    return '"' + s.replace("\\", "\\\\").replace('"', '\\"') + '"'


def chars_term(s):
    return terms.mk_list([('a', ch) for ch in s])


# ------------------------------------------------------------------------------------------------
# a persistent harness process (one per thread): the real tree is inspected between jobs
# ------------------------------------------------------------------------------------------------

class Worker:
    def __init__(self, binary):
        self.binary = binary
        self.p = None
        self.start()

    def start(self):
        if self.p is not None:
            self.kill()
        self.p = subprocess.Popen([self.binary, "exec"], stdin=subprocess.PIPE, stdout=subprocess.PIPE,
                                  stderr=subprocess.DEVNULL, text=True, preexec_fn=common._limits(6), bufsize=1)
        r = self.job([{"consult": LOAD}])
        if r is None:
            raise common.ToolError("harness worker did not start")

    def job(self, steps, timeout=60):
        try:
            self.p.stdin.write(json.dumps({"id": 0, "steps": steps, "keep": True}) + "\n")
            self.p.stdin.flush()
        except Exception:
            return None
        line = common._readline_timeout(self.p, timeout)
        if line is None:
            self.kill()
            return None
        try:
            return json.loads(line)["res"]
        except Exception:
            return None

    def kill(self):
        try:
            os.killpg(self.p.pid, 9)
        except Exception:
            pass
        try:
            self.p.wait(timeout=5)
        except Exception:
            pass

    def close(self):
        try:
            self.p.stdin.close()
            self.p.wait(timeout=5)
        except Exception:
            self.kill()


def outcome(out):
    """('true',) | ('fail',) | ('err', term) | ('bind', dict) | ('panic', msg) | ('other', text)"""
    if out is None:
        return ("other", "no result")
    if "panic" in out:
        return ("panic", out["panic"])
    a = out.get("a", [])
    if len(a) > 1 and a[-1] == "F":
        a = a[:-1]
    if len(a) != 1:
        return ("other", json.dumps(out, ensure_ascii=False)[:200])
    a = a[0]
    if a == "T":
        return ("true",)
    if a == "F":
        return ("fail",)
    if isinstance(a, dict) and "b" in a:
        b = {k: terms.from_h(v) for k, v in a["b"].items()}
        if ERRVAR in b:
            return ("err", b[ERRVAR])
        if not b:
            return ("true",)
        return ("bind", b)
    return ("other", json.dumps(out, ensure_ascii=False)[:200])


def pretty(t):
    """term text with character lists shown as strings"""
    if t[0] == 'c' and t[1] == '.' and len(t[2]) == 2:
        s = string_of(t)
        if s is not None:
            return '"%s"' % s
        xs = list_of(t)
        if xs is not None:
            return "[" + ",".join(pretty(x) for x in xs) + "]"
    if t[0] == 'c':
        return "%s(%s)" % (t[1], ",".join(pretty(x) for x in t[2]))
    if t[0] in ('a', 'v'):
        return t[1]
    if t[0] == 'i':
        return str(t[1])
    return terms.show(t)


def show(o):
    if o[0] == "err":
        return "err(%s)" % pretty(o[1])
    if o[0] == "bind":
        return "{%s}" % ", ".join("%s=%s" % (k, pretty(v)) for k, v in sorted(o[1].items()))
    return o[0] + ("(%s)" % o[1] if len(o) > 1 else "")


def string_of(t):
    """a canonical character list back to a python string (None if it is not one)"""
    cs = []
    while t[0] == 'c' and t[1] == '.' and len(t[2]) == 2:
        h = t[2][0]
        if h[0] != 'a' or len(h[1]) != 1:
            return None
        cs.append(h[1])
        t = t[2][1]
    return "".join(cs) if t == terms.NIL else None


def list_of(t):
    xs = []
    while t[0] == 'c' and t[1] == '.' and len(t[2]) == 2:
        xs.append(t[2][0])
        t = t[2][1]
    return xs if t == terms.NIL else None


def walk(root):
    tree = {}
    for dp, dns, fns in os.walk(root):
        for d in dns:
            p = os.path.join(dp, d)
            tree[os.path.relpath(p, root)] = ("link", 0) if os.path.islink(p) else ("dir", 0)
        for f in fns:
            p = os.path.join(dp, f)
            tree[os.path.relpath(p, root)] = ("link", 0) if os.path.islink(p) else ("file", os.path.getsize(p))
    return tree


def tree_text(obs):
    parts = ["%s:%s%s" % (o["p"], o["k"], (":%d" % o["s"]) if o["k"] == "file" else "") for o in obs if o["k"] != "none"]
    return "{" + " ".join(parts) + "}"


def op_text(st):
    if st["op"] in ("rename_file", "file_copy"):
        return "%s(%s,%s)" % (st["op"], abstract(st["p"]), abstract(st["q"]))
    if st["op"] == "create":
        return "create(%s,%d)" % (abstract(st["p"]), st["n"])
    return "%s(%s)" % (st["op"], abstract(st["p"]))


def replay_history(w, root, hist, rep_case=None, observe_all=True):
    """Replay one history in the fresh directory root. Returns None or (signature, detail) of the first disagreement.
    After every step the outcome and the real tree are compared; the observer predicates are run after every step
    (observe_all) or after the last step only."""
    os.makedirs(root)
    realroot = os.path.realpath(root)
    prev_obs = None
    try:
        for si, st in enumerate(hist):
            before = tree_text(prev_obs) if prev_obs else "{}"
            where = "%s in %s" % (op_text(st), before)
            P = root + "/" + rel(st["p"])
            steps = []
            if st["op"] == "create":
                with open(P, "wb") as f:
                    f.write(b"x" * st["n"])
            elif st["op"] in ("rename_file", "file_copy"):
                steps.append({"q": "catch(%s(%s,%s), error(%s,_), true)." % (st["op"], pstr(P), pstr(root + "/" + rel(st["q"])), ERRVAR), "max": 2})
            else:
                steps.append({"q": "catch(%s(%s), error(%s,_), true)." % (st["op"], pstr(P), ERRVAR), "max": 2})
            nmut = len(steps)
            # observers on every pool path, the root, and the path texts for path_canonical
            plan = []
            observe = observe_all or si == len(hist) - 1
            for o in (st["obs"] if observe else []):
                ap = root + "/" + rel(o["p"].split("/"))
                plan.append(("fe", o, ap)); steps.append({"q": "file_exists(%s)." % pstr(ap), "max": 2})
                plan.append(("de", o, ap)); steps.append({"q": "directory_exists(%s)." % pstr(ap), "max": 2})
                plan.append(("size", o, ap)); steps.append({"q": "catch(file_size(%s, S), error(%s,_), true)." % (pstr(ap), ERRVAR), "max": 2})
                if o["size"] >= 0:
                    plan.append(("size_eq", o, ap)); steps.append({"q": "file_size(%s, %d)." % (pstr(ap), o["size"]), "max": 2})
                    plan.append(("size_ne", o, ap)); steps.append({"q": "file_size(%s, %d)." % (pstr(ap), o["size"] + 1), "max": 2})
                plan.append(("files", o, ap)); steps.append({"q": "directory_files(%s, Fs)." % pstr(ap), "max": 2})
            if observe:
                plan.append(("rootfiles", st["rootfiles"], root)); steps.append({"q": "directory_files(%s, Fs)." % pstr(root), "max": 2})
            for c in (st["canon"] if observe else []):
                ap = root + "/" + rel(c["segs"])
                plan.append(("canon", c, ap)); steps.append({"q": "path_canonical(%s, C)." % pstr(ap), "max": 2})
            res = w.job(steps) if steps else []
            if res is None:
                w.start()
                return ("harness stalled or died at %s" % where, {"history": hist, "step": si})
            # --- the operation itself
            if nmut:
                got = outcome(res[0])
                if got[0] == "panic":
                    w.start()
                    return ("panic %s @ %s" % (where, got[1].split(" @ ")[-1]), {"history": hist, "step": si, "panic": got[1]})
                exp = st["r"]
                ok = False
                if exp == "true":
                    ok = got == ("true",)
                elif exp == "fail":
                    ok = got == ("fail",)
                elif exp == "truefail":
                    ok = got in (("true",), ("fail",))
                elif exp == "err":
                    e = ('c', 'existence_error', (('a', st["ewhat"]), chars_term(root + "/" + rel(st["epath"]))))
                    ok = got[0] == "err" and got[1] == e
                if not ok:
                    return ("%s: outcome expected %s%s got %s" % (
                        where, exp, ("(existence_error(%s,%s))" % (st["ewhat"], abstract(st["epath"]))) if exp == "err" else "",
                        show(got)[:160].replace(root, "<root>")),
                        {"history": hist, "step": si, "got": show(got)})
            if rep_case:
                rep_case(st, prev_obs)
            # --- the real tree
            real = walk(root)
            want = {rel(o["p"].split("/")): (o["k"], o["s"] if o["k"] == "file" else 0) for o in st["obs"] if o["k"] != "none"}
            if real != want:
                back = {rel(o["p"].split("/")): o["p"] for o in st["obs"]}
                diffs = []
                for k in sorted(set(real) | set(want)):
                    if real.get(k) != want.get(k):
                        def f(x):
                            return "absent" if x is None else x[0] + (":%d" % x[1] if x[0] == "file" else "")
                        diffs.append("%s expected %s got %s" % (back.get(k, "<" + k + ">"), f(want.get(k)), f(real.get(k))))
                return ("%s: tree differs: %s" % (where, "; ".join(diffs)),
                        {"history": hist, "step": si, "real": {k: list(v) for k, v in real.items()}})
            # --- the observers
            for (kind, o, ap), out in zip(plan, res[nmut:]):
                got = outcome(out)
                if got[0] == "panic":
                    w.start()
                    return ("panic observer %s after %s @ %s" % (kind, where, got[1].split(" @ ")[-1]),
                            {"history": hist, "step": si, "panic": got[1]})
                bad = None
                if kind in ("fe", "de"):
                    if got != (("true",) if o[kind] else ("fail",)):
                        bad = "expected %s" % o[kind]
                elif kind == "size":
                    if o["size"] >= 0:
                        if not (got[0] == "bind" and got[1] == {"S": ('i', o["size"])}):
                            bad = "expected %d" % o["size"]
                    elif not (got[0] == "err" and got[1] == ('c', 'existence_error', (('a', 'file'), chars_term(ap)))):
                        bad = "expected existence_error(file, Path)"
                elif kind == "size_eq":
                    if got != ("true",):
                        bad = "expected true"
                elif kind == "size_ne":
                    if got != ("fail",):
                        bad = "expected failure"
                elif kind in ("files", "rootfiles"):
                    lists = True if kind == "rootfiles" else o["lists"]
                    names = o if kind == "rootfiles" else o["files"]
                    if not lists:
                        if got != ("fail",):
                            bad = "expected failure"
                    else:
                        xs = list_of(got[1]["Fs"]) if got[0] == "bind" and set(got[1]) == {"Fs"} else None
                        ss = [string_of(x) for x in xs] if xs is not None else None
                        if ss is None or None in ss or sorted(ss) != sorted(cname(n) for n in names):
                            bad = "expected the names {%s}" % ",".join(sorted(names))
                elif kind == "canon":
                    if not o["ok"]:
                        if got != ("fail",):
                            bad = "expected failure"
                    else:
                        wantp = realroot + ("/" + rel(o["target"]) if o["target"] else "")
                        if not (got[0] == "bind" and set(got[1]) == {"C"} and string_of(got[1]["C"]) == wantp):
                            bad = "expected <root>/%s" % abstract(o["target"])
                if bad:
                    what = kind + "(" + (abstract(o["segs"]) if kind == "canon" else "." if kind == "rootfiles" else o["p"]) + ")"
                    return ("observer %s after %s: %s got %s" % (what, where, bad, show(got)[:120].replace(root, "<root>")),
                            {"history": hist, "step": si, "observer": kind, "path": ap, "got": show(got)})
            prev_obs = st["obs"]
        return None
    finally:
        shutil.rmtree(root, ignore_errors=True)


# ------------------------------------------------------------------------------------------------
# state-independent cases
# ------------------------------------------------------------------------------------------------

def ctext(cs):
    return "".join(CHARS.get(c, c) for c in cs)


def pure_cases(rep, pure, binary):
    root = os.path.join(common.WORK, "fs-%d-pure-%d" % (common.seed(), os.getpid()))
    shutil.rmtree(root, ignore_errors=True)
    os.makedirs(root)
    try:
        with open(root + "/a", "wb") as f:
            f.write(b"abc")
        steps = [{"consult": LOAD}]
        plan = []
        for c in pure["segcases"]:
            text = ctext(c["text"])
            segs = "[" + ",".join(pstr(ctext(s)) for s in c["segs"]) + "]"
            plan.append(("join", c)); steps.append({"q": "path_segments(P, %s)." % segs, "max": 2})
            plan.append(("split", c)); steps.append({"q": "path_segments(%s, S)." % pstr(text), "max": 2})
            plan.append(("both", c)); steps.append({"q": "path_segments(%s, %s)." % (pstr(text), segs), "max": 2})
        plan.append(("unbound", None)); steps.append({"q": "catch(path_segments(_, _), error(%s,_), true)." % ERRVAR, "max": 2})
        bad = {"var": ("_", None), "partial": ("[a|_]", None), "atom": ("foo", ('a', 'foo')), "int": ("42", ('i', 42)),
               "nonchar": ("[a,bc]", ('a', 'bc'))}
        good = pstr(root + "/a")
        for c in pure["argcases"]:
            if c["pred"] == "path_segments" and c["kind"] == "var":
                continue      # an unbound Path is a mode of path_segments/2, checked above
            args = []
            for i in range(1, c["arity"] + 1):
                if i == c["pos"]:
                    args.append(bad[c["kind"]][0])
                elif c["pred"] in ("rename_file", "file_copy") and i == 1:
                    args.append(good)
                else:
                    args.append("_")
            plan.append(("arg", c)); steps.append({"q": "catch(%s(%s), error(%s,_), true)." % (c["pred"], ",".join(args), ERRVAR), "max": 2})
        r = run_jobs([{"id": 0, "fresh": True, "steps": steps, "timeout": 120}], workers=1, job_timeout=120, binary=binary)[0]
        if "crash" in r:
            raise common.ToolError("pure cases: harness " + r["crash"])
        for (kind, c), out, stp in zip(plan, r["res"][1:], steps[1:]):
            got = outcome(out)
            badw = None
            if kind == "join":
                want = chars_term(ctext(c["text"]))
                okv = got[0] == "bind" and got[1] == {"P": want}
                # where text and segments are not related (no segment list for "", a separator inside a segment) the
                # documentation's two readings (join / relation) differ: failure is accepted as well
                if not (okv or (not c["holds"] and got == ("fail",))):
                    badw = "expected P = %r" % ctext(c["text"])
                rep.case(("path_segments", "join", len(c["segs"]), c["holds"]))
            elif kind == "split":
                want = terms.mk_list([chars_term(ctext(s)) for s in c["split"]])
                if not (got[0] == "bind" and got[1] == {"S": want}):
                    badw = "expected S = %r" % [ctext(s) for s in c["split"]]
                rep.case(("path_segments", "split", len(c["split"])))
            elif kind == "both":
                if got != (("true",) if c["holds"] else ("fail",)):
                    badw = "expected %s" % c["holds"]
                rep.case(("path_segments", "both", c["holds"]))
            elif kind == "unbound":
                if not (got[0] == "err" and got[1] == ('a', 'instantiation_error')):
                    badw = "expected instantiation_error"
                rep.case(("path_segments", "unbound"))
            else:
                e = {"instantiation_error": ('a', 'instantiation_error'),
                     "type_error_list": ('c', 'type_error', (('a', 'list'), bad[c["kind"]][1])),
                     "type_error_character": ('c', 'type_error', (('a', 'character'), bad[c["kind"]][1]))}[c["err"]]
                if not (got[0] == "err" and got[1] == e):
                    badw = "expected %s" % terms.show(e)
                rep.case(("argcheck", c["pred"], c["pos"], c["kind"]))
            if badw:
                q = stp["q"].replace(root, "<root>")
                rep.violation("pure %s: %s got %s" % (q, badw, show(got)[:120]), {"pure": True, "query": stp["q"], "got": show(got)})
    finally:
        shutil.rmtree(root, ignore_errors=True)


# ------------------------------------------------------------------------------------------------

def kind_before(prev_obs, segs):
    if not segs:
        return "-"
    p = "/".join(segs)
    if prev_obs is None:
        return "none"
    for o in prev_obs:
        if o["p"] == p:
            return o["k"]
    return "?"


def run_histories(rep, hists, binary, tag, observe_all=True):
    """replay all histories on 8 threads; returns number replayed"""
    lock = threading.Lock()
    nxt = [0]
    errors = []

    def case(st, prev_obs):
        with lock:
            rep.case((st["op"], st["r"], kind_before(prev_obs, st["p"]), kind_before(prev_obs, st["q"]),
                      "same" if st["q"] and st["p"] == st["q"] else "", "nested" if len(st["p"]) > 1 else "top"))

    def serve(ti):
        try:
            w = Worker(binary)
        except Exception as e:
            errors.append(e)
            return
        try:
            while True:
                with lock:
                    i = nxt[0]
                    nxt[0] += 1
                if i >= len(hists):
                    break
                root = os.path.join(common.WORK, "fs-%d-%s%d-%d" % (common.seed(), tag, os.getpid(), i))
                shutil.rmtree(root, ignore_errors=True)
                v = replay_history(w, root, hists[i], case, observe_all)
                if v is not None:
                    with lock:
                        rep.violation(v[0], v[1])
        except Exception as e:
            errors.append(e)
        finally:
            w.close()

    ths = [threading.Thread(target=serve, args=(i,)) for i in range(8)]
    for t in ths:
        t.start()
    for t in ths:
        t.join()
    if errors:
        raise common.ToolError("history replay failed: %r" % (errors[0],))
    return len(hists)


def run(tier):
    rep = Report(PROP, tier, META["level"])
    rep.rule = ("TLC explores the trees reachable by =< 3 (quick) / 2 (thorough, larger pool) effective operations (BFS, one witness history per tree) and applies "
                "every operation (make_directory, make_directory_path, delete_file, delete_directory, rename_file, file_copy over "
                "all (pairs of) pool paths, file creation by the driver) in each: one history per (tree, operation); plus 40 (quick) "
                "/ 300 (thorough) random histories of 25 operations (TLC -simulate, 6-name pool); after every step the outcome and "
                "the real tree are compared, all observers after the last step (BFS) / every step (random histories). distinct = "
                "distinct (operation, outcome, kind of the path(s) before, same-path, nested)")
    binary, degraded = common.build_harness(True)
    rep.degraded = degraded
    res = tlc_ok(run_tlc("MC_C48", "MC_C48_%s.cfg" % tier, workers=1, timeout=3600), "C48 BFS")   # 1 worker: deterministic witnesses
    rep.add_tlc(res)
    hists = []
    pure = None
    seen = set()
    for v in res.printed():
        if isinstance(v, dict) and v.get("pure"):
            pure = v
        elif isinstance(v, dict) and "hist" in v:
            key = json.dumps([[s["op"], s["p"], s["q"], s["n"]] for s in v["hist"]])
            if key not in seen:
                seen.add(key)
                hists.append(v["hist"])
    if not hists or pure is None:
        raise common.ToolError("no histories generated")
    hists.sort(key=lambda h: json.dumps([[s["op"], s["p"], s["q"], s["n"]] for s in h]))
    # every tree explored by the BFS is also the tree after the last step of some BFS history, so for these histories the
    # observers run after the last step only (the outcome and the real tree are still compared after every step);
    # the random histories run all observers after every step
    n = run_histories(rep, hists, binary, "b", observe_all=False)
    if True:
        nw = 300 if tier == "thorough" else 40
        wres = run_tlc("MC_C48", "MC_C48_walk.cfg", workers=1, timeout=3600, simulate=nw, depth=27)
        if wres.error and wres.generated == 0:
            raise common.ToolError("C48 simulation failed: %s" % wres.error)
        if wres.violated:
            raise common.ToolError("C48 simulation: specification-level failure %s" % wres.violated)
        rep.add_tlc(wres)
        walks = []
        for v in wres.printed():
            if isinstance(v, dict) and "hist" in v:
                walks.append(v["hist"])
        if not walks:
            raise common.ToolError("no random histories generated")
        n += run_histories(rep, walks, binary, "w")
        rep.extra["random_histories"] = len(walks)
    rep.traces = n
    pure_cases(rep, pure, binary)
    for h in hists[:: max(1, len(hists) // 5)]:
        rep.sample({"history": [op_text(s) + " -> " + s["r"] for s in h], "tree_after": tree_text(h[-1]["obs"])})
    rep.exhaustive = (tier == "quick")
    rep.assumptions = ["TLC", "the harness and Python's os module as the view of the real file system",
                       "sizes, not contents, of files are compared", "no symbolic links, permissions or concurrent modification"]
    return rep.finish()


def replay(path):
    d = json.load(open(path))
    det = d["detail"]
    binary, _ = common.build_harness(True)
    if det.get("pure"):
        r = run_jobs([{"id": 0, "fresh": True, "steps": [{"consult": LOAD}, {"q": det["query"], "max": 2}]}], workers=1, binary=binary)
        print(json.dumps({"query": det["query"], "result": r.get(0)}, indent=1, ensure_ascii=False))
        return 0
    w = Worker(binary)
    root = os.path.join(common.WORK, "fs-%d-replay-%d" % (common.seed(), os.getpid()))
    shutil.rmtree(root, ignore_errors=True)
    v = replay_history(w, root, det["history"])
    w.close()
    print(json.dumps({"history": [op_text(s) + " -> " + s["r"] for s in det["history"]],
                      "disagreement": v[0] if v else None}, indent=1, ensure_ascii=False))
    return 0
