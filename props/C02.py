"""C02 - Float and mixed-type evaluation follows IEEE-754 with ISO checks (reduced scope: no values of transcendental functions)."""
import json
import math
from fractions import Fraction

from lib import common, terms
from lib.common import Report, run_tlc, tlc_ok, run_jobs

PROP = "C02"

META = {
    "level": "model_checking",
    "text": "IEEE-754 binary64 is specified exactly in TLA+ over unbounded integers (Float64.tla: round-to-nearest-even of an exact "
            "scaled rational with overflow and subnormal handling, + - * / sqrt, conversions, the four integer roundings; "
            "ArithFloat.tla: ISO mixed-mode promotion, error classes). TLC checks the rounding theorems (ties around 2^53, overflow "
            "threshold, subnormal boundary, identities) and enumerates operations over an alphabet of doubles given by "
            "sign/mantissa/exponent (zeros, subnormals, 1+-ulp, 0.1, 2^53 neighbours, max), integers (2^53+1, 2^55-1, 2^64+1, 10^30, "
            "2^1024) and rationals; each case (value as bit pattern, exact integer, or error class) is replayed against the real "
            "is/2 in four evaluation contexts. Reduced scope (DESIGN.md section 9): for exp log sin cos tan asin acos atan atan2 and "
            "inexact ** with a non-integer exponent only domain errors, overflow classification and exact special points are decided, not their values; an integer power of a float must lie within one ulp of the correctly rounded exact value. "
            "Bounded-exhaustive conformance over the alphabet, not proof.",
    "note": "Trusted: TLC, BigInt.tla/Float64.tla (sanity theorems model-checked in the same run; every decided value cross-checked "
            "against Python's IEEE doubles and fractions), the LeafAnswer projection of the harness (floats as bit patterns). No float "
            "literal is read: doubles are built at run time from integers by exact power-of-two scalings and every alphabet member "
            "is read back and compared by bits before use. The sign of a zero result is judged separately (known finding): the "
            "machine interns floats with -0.0 = 0.0.",
    "technique": "TLA+ value-level specification (BigInt, Float64) enumerated by TLC; vectors replayed into the real evaluator",
}

FIXNUM_LIMIT = 1 << 55
MASK63 = (1 << 63) - 1
INF_BITS = 0x7FF << 52


# ------------------------------------------------------------------------------------------------
# rendering (no float literal is ever read by the code under test)
# ------------------------------------------------------------------------------------------------

def lit(n):
    return str(n) if n >= 0 else "(%d)" % n


def float_expr(s, m, e):
    """(-1)^s * m * 2^e with m < 2^53, built from integers by exact IEEE steps: float/1 of an integer below 2^53
    and multiplications/divisions by powers of two whose results are representable by construction."""
    if m == 0:
        body = "float(0)"
    elif e >= 0:
        body = "float(%d)" % m if e == 0 else "float(%d)*float(2^%d)" % (m, e)
    else:
        k = -e
        if k <= 1000:
            body = "float(%d)/float(2^%d)" % (m, k)
        else:
            body = "float(%d)/float(2^1000)/float(2^%d)" % (m, k - 1000)
    return "-(%s)" % body if s else "(%s)" % body


def operand(num, boxed=False):
    t = num["t"]
    if t == "i":
        v = int(num["n"])
        if boxed and abs(v) < FIXNUM_LIMIT:
            return "(2^60-2^60+%s)" % lit(v)
        return lit(v)
    if t == "r":
        return "(%s rdiv %s)" % (lit(int(num["n"])), lit(int(num["d"])))
    return float_expr(num["s"], int(num["n"]), num["e"])


def has_small_int(nums):
    return any(n["t"] == "i" and abs(int(n["n"])) < FIXNUM_LIMIT for n in nums)


def call(op, args):
    return "%s(%s)" % (terms.quote_atom(op), ",".join(args))


def expr_of(v, table, texts):
    """texts: operand texts (expression strings or variable names) for i, j, k"""
    kind = v["kind"]
    if kind in ("un", "transc", "typeun"):
        return call(v["op"], [texts[0]])
    if kind == "nest":
        return call(v["op2"], [call(v["op"], [texts[0], texts[1]]), texts[2]])
    return call(v["op"], [texts[0], texts[1]])


def operands_of(v, table):
    idx = [v["i"]] + ([v["j"]] if v["j"] else []) + ([v["k"]] if v["k"] else [])
    return [table[n - 1] for n in idx]


# ------------------------------------------------------------------------------------------------
# values
# ------------------------------------------------------------------------------------------------

def bits_of(num):
    return int(num["bits"])


def frac(num):
    if num["t"] == "f":
        x = Fraction(int(num["n"])) * (Fraction(2) ** num["e"])
        return -x if num["s"] else x
    return Fraction(int(num["n"]), int(num["d"]))


def show(num):
    if num["t"] == "i":
        return num["n"]
    if num["t"] == "r":
        return "%s/%s" % (num["n"], num["d"])
    return "0x%016x" % bits_of(num)


def is_zero_bits(b):
    return (b & MASK63) == 0


def match_num(got, num):
    """-> 'same' | 'zerosign' (zeros of different sign) | 'diff'; the type of the number is part of the value"""
    if num["t"] == "i":
        return "same" if "i" in got and int(got["i"]) == int(num["n"]) else "diff"
    if num["t"] == "r":
        if "r" in got and Fraction(int(got["r"][0]), int(got["r"][1])) == frac(num):
            return "same"
        return "diff"
    if "f" not in got:
        return "diff"
    g, w = int(got["f"], 16), bits_of(num)
    if g == w:
        return "same"
    if is_zero_bits(g) and is_zero_bits(w):
        return "zerosign"
    return "diff"


def expected_text(v):
    rk = v["rk"]
    if rk == "val":
        return "%s:%s" % (v["v"]["t"], show(v["v"]))
    if rk == "err":
        if v["err"] == "type_integer":
            return "type_error(integer,%s)" % show(v["c"])
        return "evaluation_error(%s)" % v["err"]
    if rk == "either":
        return "%s:%s|%s:%s" % (v["v"]["t"], show(v["v"]), v["c"]["t"], show(v["c"]))
    if rk == "near":
        return "within one ulp of f:%s" % show(v["v"])
    return "some finite float"


def got_text(out):
    if "panic" in out:
        return "panic: %s" % out["panic"]
    a = out.get("a", [])
    if len(a) == 1 and isinstance(a[0], dict) and "b" in a[0]:
        b = a[0]["b"]
        if "E" in b and "X" not in b:
            return "error %s" % terms.show(terms.from_h(b["E"]))
        if "X" in b and "E" not in b:
            x = b["X"]
            if "f" in x:
                return "f:0x%s" % x["f"]
            if "i" in x:
                return "i:%s" % x["i"]
            if "r" in x:
                return "r:%s/%s" % tuple(x["r"])
    return "answers=%s" % json.dumps(a)[:200]


def judge(out, v):
    """-> 'ok' | 'zerosign' | 'bad'"""
    if "panic" in out:
        return "bad"
    a = out.get("a", [])
    if len(a) != 1 or not isinstance(a[0], dict) or "b" not in a[0]:
        return "bad"
    b = a[0]["b"]
    rk = v["rk"]
    if rk == "err":
        if "E" not in b or "X" in b:
            return "bad"
        e = b["E"]
        if v["err"] == "type_integer":
            if e.get("c") != "type_error" or len(e["args"]) != 2 or e["args"][0] != {"a": "integer"}:
                return "bad"
            m = match_num(e["args"][1], v["c"])
            return "ok" if m in ("same", "zerosign") else "bad"     # the culprit's zero sign is not judged
        return "ok" if e == {"c": "evaluation_error", "args": [{"a": v["err"]}]} else "bad"
    if "X" not in b or "E" in b:
        return "bad"
    x = b["X"]
    if rk == "val":
        m = match_num(x, v["v"])
        return {"same": "ok", "zerosign": "zerosign", "diff": "bad"}[m]
    if rk == "either":
        ms = (match_num(x, v["v"]), match_num(x, v["c"]))
        if "same" in ms:
            return "ok"
        return "zerosign" if "zerosign" in ms else "bad"
    if rk == "near":
        if "f" not in x:
            return "bad"
        g, c = int(x["f"], 16), bits_of(v["v"])
        return "ok" if (g & INF_BITS) != INF_BITS and (g >> 63) == (c >> 63) and abs(g - c) <= 1 else "bad"
    if rk == "anyfloat":
        if "f" not in x:
            return "bad"
        g = int(x["f"], 16)
        return "ok" if (g & INF_BITS) != INF_BITS else "bad"
    return "bad"


# ------------------------------------------------------------------------------------------------
# cross-check of the specification's values with Python's IEEE doubles (sanity of the oracle; a mismatch is a tool error)
# ------------------------------------------------------------------------------------------------

def fbits(x):
    return terms.float_bits(x)


def promote(num):
    if num["t"] == "f":
        return num["py"] if "py" in num else terms.bits_float(bits_of(num))
    try:
        return float(frac(num))
    except OverflowError:
        return math.inf


def fnum(x):
    """python float -> number dict (only the fields promote()/frac() and the comparison use)"""
    return {"t": "f", "bits": str(fbits(x)), "s": 1 if math.copysign(1.0, x) < 0 else 0, "n": "1", "d": "1", "e": 0, "py": x}


def py_bin(op, a, b):
    """-> ('err', class) | ('num', number dict) | None"""
    if op == "/" and (frac(b) == 0 if b["t"] != "f" else promote(b) == 0.0):
        return ("err", "zero_divisor")
    if op in ("+", "-", "*") and a["t"] != "f" and b["t"] != "f":
        x, y = frac(a), frac(b)
        r = {"+": x + y, "-": x - y, "*": x * y}[op]
        if a["t"] == "i" and b["t"] == "i":
            return ("num", {"t": "i", "n": str(r.numerator), "d": "1", "s": 0, "e": 0, "bits": "0"})
        return ("num", {"t": "r", "n": str(r.numerator), "d": str(r.denominator), "s": 0, "e": 0, "bits": "0"})
    x, y = promote(a), promote(b)
    if math.isinf(x) or math.isinf(y):
        return ("err", "float_overflow")
    if op == "/" and y == 0.0:
        return ("err", "zero_divisor")
    r = {"+": lambda: x + y, "-": lambda: x - y, "*": lambda: x * y, "/": lambda: x / y}[op]()
    if math.isinf(r):
        return ("err", "float_overflow")
    return ("num", fnum(r))


def py_un(op, a):
    fr = frac(a)
    if op in ("floor", "ceiling", "truncate", "round"):
        if op == "floor":
            return ("i", math.floor(fr))
        if op == "ceiling":
            return ("i", math.ceil(fr))
        if op == "truncate":
            return ("i", math.trunc(fr))
        q = math.floor(abs(fr) + Fraction(1, 2))
        return ("i", q if fr >= 0 else -q)
    if op in ("float", "sqrt", "float_integer_part", "float_fractional_part"):
        if op == "sqrt" and fr < 0:
            return ("err", "undefined")
        x = promote(a)
        if math.isinf(x):
            return ("err", "float_overflow")
        if op == "float":
            return ("f", fbits(x))
        if op == "sqrt":
            return ("f", fbits(math.sqrt(x)))
        ip = math.modf(x)[1]
        # ISO 9.1.6.1: float_fractional_part(x) = x - float_integer_part(x), one (exact) IEEE subtraction
        return ("f", fbits(ip if op == "float_integer_part" else x - ip))
    if a["t"] == "f":
        x = promote(a)
        if op == "-":
            return ("f", fbits(-x))
        if op == "abs":
            return ("f", fbits(abs(x)))
        if op == "+":
            return ("f", fbits(x))
        if op == "sign":
            return ("f", fbits(math.copysign(1.0, x) if x != 0 else x))
    return None


def py_check(v, table):
    ops = operands_of(v, table)
    kind = v["kind"]
    r = None
    if kind in ("arith", "div"):
        r = py_bin(v["op"], ops[0], ops[1])
    elif kind == "un":
        r = py_un(v["op"], ops[0])
        if r is not None and r[0] == "i":
            r = ("num", {"t": "i", "n": str(r[1]), "d": "1", "s": 0, "e": 0, "bits": "0"})
        elif r is not None and r[0] == "f":
            r = ("num", {"t": "f", "bits": str(r[1])})
    elif kind == "nest":
        r1 = py_bin(v["op"], ops[0], ops[1])
        if r1 is None:
            return
        r = r1 if r1[0] == "err" else py_bin(v["op2"], r1[1], ops[2])
    elif kind == "pow" and v["rk"] == "val":
        x, y = promote(ops[0]), promote(ops[1])
        try:
            r = ("num", fnum(math.pow(x, y)))
        except (OverflowError, ValueError, ZeroDivisionError):
            r = None
    if r is None:
        return
    if r[0] == "err":
        ok = v["rk"] == "err" and v["err"] == r[1]
    else:
        w = r[1]
        ok = v["rk"] == "val" and v["v"]["t"] == w["t"] and (
            bits_of(v["v"]) == int(w["bits"]) if w["t"] == "f" else frac(v["v"]) == frac(w))
    if not ok:
        raise common.ToolError("oracle self-check failed: %s spec=%s python=%r" % (describe(v, table), expected_text(v), r))


def describe(v, table):
    ops = operands_of(v, table)
    return expr_of(v, table, [show(n) for n in ops] + ["", ""])


# ------------------------------------------------------------------------------------------------
# classes
# ------------------------------------------------------------------------------------------------

def cls(num):
    t = num["t"]
    if t == "i":
        a = abs(int(num["n"]))
        for name, lim in (("0", 1), ("<2^53", 1 << 53), ("<2^55", 1 << 55), ("<2^64", 1 << 64), ("<2^1024", 1 << 1024)):
            if a < lim:
                return "i" + name
        return "i>=2^1024"
    if t == "r":
        return "r"
    m, e = int(num["n"]), num["e"]
    if m == 0:
        return "f-0" if num["s"] else "f+0"
    if m < (1 << 52):
        return "fsub"
    if e + 53 > 1020:
        return "fhuge"
    return "f>=2^53" if e > 0 else "fnorm"


def result_class(v):
    if v["rk"] == "val":
        return "val-" + cls(v["v"])
    if v["rk"] == "err":
        return v["err"]
    return v["rk"]


MINSUB = Fraction(1, 1 << 1074)
MAXD = Fraction(((1 << 53) - 1) << 971)


def rne_bits(v, bits):
    """the positive Fraction v rounded to `bits` significant bits, ties to even"""
    n, d = v.numerator, v.denominator
    sh = n.bit_length() - d.bit_length() - bits
    while True:
        q, r = divmod(n << max(0, -sh), d << max(0, sh))
        if q.bit_length() == bits:
            break
        sh += 1 if q.bit_length() > bits else -1
    if 2 * r > (d << max(0, sh)) or (2 * r == (d << max(0, sh)) and q & 1):
        q += 1
    return Fraction(q) * (Fraction(2) ** sh)


def dr_sensitive(fr):
    """input class 'rat-double-rounding': a rational whose quotient num/den has, aligned on the bit lengths of numerator and
    denominator, 54 significant bits and for which rounding to 54 bits first changes the result of rounding to 53 bits"""
    v = abs(fr)
    if v == 0:
        return False
    n, d = v.numerator, v.denominator
    if v < Fraction(2) ** (n.bit_length() - d.bit_length()):
        return False
    return rne_bits(rne_bits(v, 54), 53) != rne_bits(v, 53)


def conv_tag(ops, v=None):
    """names the class of the input when a rational operand lies where no double is near: strictly between half the
    least subnormal and the least subnormal, or strictly between the largest double and the overflow threshold"""
    tags = set()
    rats = [frac(num) for num in ops if num["t"] == "r"]
    if v is not None and v["kind"] == "nest" and ops[0]["t"] != "f" and ops[1]["t"] != "f" and v["op"] in "+-*" \
            and "r" in (ops[0]["t"], ops[1]["t"]):
        a, b = frac(ops[0]), frac(ops[1])          # the exact rational intermediate result of the inner operation
        rats.append({"+": a + b, "-": a - b, "*": a * b}[v["op"]])
    for fr in rats:
        x = abs(fr)
        if MINSUB / 2 < x < MINSUB:
            tags.add("rat-below-minsub")
        elif MAXD < x < MAXD + (1 << 970):
            tags.add("rat-above-max")
        elif MINSUB * (1 << 52) <= x <= MAXD and dr_sensitive(x):
            tags.add("rat-double-rounding")
    return "+".join(sorted(tags)) or "none"


CTXS = ["clause", "query", "walk", "vars", "vars-boxed"]


def build_queries(v, table, n):
    """-> (clause text, [(ctx, query)])"""
    ops = operands_of(v, table)
    inline = expr_of(v, table, [operand(o) for o in ops] + ["", ""])
    names = ["A", "B", "C"][:len(ops)]
    bind = ", ".join("%s is %s" % (nm, operand(o)) for nm, o in zip(names, ops))
    via = expr_of(v, table, names + ["", ""])
    qs = [("clause", "catch(c%d(X), error(E,_), true)." % n),
          ("query", "catch(X is %s, error(E,_), true)." % inline),
          ("walk", "T = %s, catch(X is T, error(E,_), true)." % inline),
          ("vars", "%s, catch(X is %s, error(E,_), true)." % (bind, via))]
    if has_small_int(ops):
        bindb = ", ".join("%s is %s" % (nm, operand(o, boxed=True)) for nm, o in zip(names, ops))
        qs.append(("vars-boxed", "%s, catch(X is %s, error(E,_), true)." % (bindb, via)))
    return "c%d(X) :- X is %s.\n" % (n, inline), qs


def run(tier):
    rep = Report(PROP, tier, META["level"])
    rep.rule = ("TLC enumerates expressions (+ - * over float x float and float x integer/rational; / over all pairs; float, -, abs, "
                "sign, floor, ceiling, truncate, round, float_integer_part, float_fractional_part, sqrt; min/max; **; "
                "transcendental functions and atan2 at domain/overflow edges and exact points; integer-only evaluables on floats; "
                "two-level nesting of + - * /) over the alphabet; each is evaluated by the Float64 specification and replayed in "
                "the contexts compiled clause body, query, run-time expression walk, operands through variables (also as boxed "
                "small integers). distinct = distinct (kind, operator, operand classes, result class, context)")
    workers = 8 if tier == "quick" else 12
    san = tlc_ok(run_tlc("MC_Float64", "MC_Float64.cfg", workers=2, timeout=1800), "Float64 sanity")
    rep.add_tlc(san)
    res = tlc_ok(run_tlc("MC_C02", "MC_C02_%s.cfg" % tier, workers=workers, timeout=3600), "C02 generation")
    rep.add_tlc(res)
    table = None
    seen = {}
    for v in res.printed():
        if "table" in v:
            table = v["table"]
        elif "kind" in v:
            seen[(v["kind"], v["op"], v["op2"], v["i"], v["j"], v["k"])] = v
    vecs = [seen[key] for key in sorted(seen)]
    if not table or not vecs:
        raise common.ToolError("no vectors generated")
    # rendering sanity: the bit pattern of every double of the alphabet and of every result re-assembled from (s, m, e)
    def check_bits(num):
        if num["t"] == "f":
            m, e = int(num["n"]), num["e"]
            b = terms.float_bits(math.ldexp(float(m), e)) | ((1 << 63) if num["s"] else 0)
            if m >= (1 << 53) or b != bits_of(num):
                raise common.ToolError("bit pattern self-check failed: %r" % (num,))
    for num in table:
        check_bits(num)
    for v in vecs:
        check_bits(v["v"])
        check_bits(v["c"])
        py_check(v, table)

    # ---- operand construction: every alphabet member is built at run time and read back ----
    opjobs = []
    OB = 100
    for bi in range(0, len(table), OB):
        steps = [{"q": "X is float(0).", "max": 1}]
        for num in table[bi:bi + OB]:
            steps.append({"q": "X is %s." % operand(num), "max": 2})
            steps.append({"q": "X is %s." % operand(num, boxed=True), "max": 2})
        opjobs.append({"id": "op%d" % bi, "steps": steps, "timeout": 120, "fresh": True})
    # ---- cases: one item per (vector, context) ----
    clauses = {}
    items = []
    for vi, v in enumerate(vecs):
        cl, qs = build_queries(v, table, vi)
        clauses[vi] = cl
        items += [(vi, ctx, q) for ctx, q in qs]

    def make_jobs(its, rnd, size):
        out = []
        for bi in range(0, len(its), size):
            chunk = its[bi:bi + size]
            prog = "".join(clauses[vi] for vi in sorted(set(it[0] for it in chunk)))
            out.append(({"id": "r%d-%d" % (rnd, bi), "fresh": True, "timeout": 300,
                         "steps": [{"consult": prog}, {"q": "X is float(0).", "max": 1}] + [{"q": it[2], "max": 2} for it in chunk]},
                        chunk))
        return out
    # ---- sign of zero depends on history: a fresh machine whose first zero is a negative one ----
    negz = [v for v in vecs if v["rk"] == "val" and v["v"]["t"] == "f" and bits_of(v["v"]) == (1 << 63)
            and all(not (o["t"] == "f" and int(o["n"]) == 0) and not (o["t"] == "i" and int(o["n"]) == 0)
                    for o in operands_of(v, table)) and v["kind"] in ("arith", "div")]
    fz = [v for v in vecs if v["kind"] == "un" and v["op"] == "float" and table[v["i"] - 1]["t"] == "i"
          and int(table[v["i"] - 1]["n"]) == 0]
    hist = None
    jobs = []
    if negz and fz:
        e1 = expr_of(negz[0], table, [operand(o) for o in operands_of(negz[0], table)] + ["", ""])
        e2 = expr_of(fz[0], table, [operand(o) for o in operands_of(fz[0], table)] + ["", ""])
        hist = (negz[0], fz[0], e1, e2)
        jobs.append({"id": "hist", "fresh": True, "timeout": 60,
                     "steps": [{"q": "catch(X is %s, error(E,_), true)." % e1, "max": 2},
                               {"q": "catch(X is %s, error(E,_), true)." % e2, "max": 2}]})
    results = run_jobs(opjobs + jobs, workers=workers, job_timeout=300)
    # A panic of the code under test loses the machine (and the consulted clauses): the items after it are run again.
    outcome = {}
    pending, rnd, size = items, 0, 480
    while pending:
        batch = make_jobs(pending, rnd, size)
        rs = run_jobs([j for j, _ in batch], workers=workers, job_timeout=300)
        pending = []
        crashed = False
        for job, chunk in batch:
            r = rs.get(job["id"], {"crash": "missing"})
            if "crash" in r:
                if len(chunk) == 1:
                    outcome[(chunk[0][0], chunk[0][1])] = {"panic": "worker process %s" % r["crash"]}
                else:
                    pending += chunk
                    crashed = True
                continue
            outs = r["res"][2:]
            for pos, it in enumerate(chunk):
                out = outs[pos] if pos < len(outs) else {"panic": "no result"}
                outcome[(it[0], it[1])] = out
                if "panic" in out:
                    pending += chunk[pos + 1:]
                    break
        rnd += 1
        if crashed:
            size = max(1, size // 8)
        if rnd > 200:
            raise common.ToolError("replay does not converge (more than 200 rounds of panics/crashes)")

    for job in opjobs:
        r = results.get(job["id"], {"crash": "missing"})
        if "crash" in r:
            rep.violation("operand batch %s crashed: %s" % (job["id"], r["crash"]), {"job": job, "result": r})
            continue
        bi = int(job["id"][2:])
        outs = r["res"][1:]
        for n, num in enumerate(table[bi:bi + OB]):
            for w, boxed in enumerate((False, True)):
                out = outs[2 * n + w]
                rep.case(("operand", cls(num), boxed))
                a = out.get("a", []) if isinstance(out, dict) else []
                got = a[0]["b"].get("X") if len(a) == 1 and isinstance(a[0], dict) and "b" in a[0] else None
                m = match_num(got, num) if got else "diff"
                if m == "diff":
                    rep.violation("operand construction %s expected=%s got=%s" % (operand(num, boxed), show(num), json.dumps(got)),
                                  {"query": "X is %s." % operand(num, boxed), "vector": {"rk": "val", "v": num, "err": "", "c": num},
                                   "expr": operand(num, boxed), "context": "operand"})
    nsamp = 0
    for vi, v in enumerate(vecs):
        ops = operands_of(v, table)
        for ctx, q in build_queries(v, table, vi)[1]:
            out = outcome.get((vi, ctx), {"panic": "no result"})
            rep.case((v["kind"], v["op"], v["op2"], tuple(cls(o) for o in ops), result_class(v), ctx))
            verdict = judge(out, v)
            if verdict == "ok":
                if nsamp < 5 and ctx == "query" and vi % 977 == 5:
                    nsamp += 1
                    rep.sample({"expr": describe(v, table), "query": q[:300], "expected": expected_text(v)})
                continue
            e = describe(v, table)
            detail = {"vector": v, "expr": e, "context": ctx, "query": q, "clause": clauses[vi] if ctx == "clause" else "",
                      "expected": expected_text(v), "got": got_text(out)}
            if verdict == "zerosign":
                rep.violation("zerosign expr=%s ctx=%s expected=%s got=%s" % (e, ctx, expected_text(v), got_text(out)), detail)
            else:
                rep.violation("%s conv=%s expr=%s ctx=%s expected=%s got=%s" % (
                    v["kind"], conv_tag(ops, v), e, ctx, expected_text(v), got_text(out)), detail)
    if hist:
        r = results.get("hist", {"crash": "missing"})
        rep.case(("zero-history",))
        if "crash" in r:
            rep.violation("zero-history scenario crashed: %s" % r["crash"], {"result": r})
        else:
            o1, o2 = r["res"][0], r["res"][1]
            j1, j2 = judge(o1, hist[0]), judge(o2, hist[1])
            if j1 == "bad" or j2 == "bad":
                rep.violation("zero-history scenario: %s -> %s ; %s -> %s" % (hist[2], got_text(o1), hist[3], got_text(o2)),
                              {"vector": hist[1], "query": "catch(X is %s, error(E,_), true)." % hist[3], "pre": hist[2],
                               "context": "history", "expr": hist[3]})
            elif j2 == "zerosign":
                rep.violation("zerosign history: on a fresh machine after %s = %s, %s = %s (expected %s)" % (
                    describe(hist[0], table), got_text(o1), describe(hist[1], table), got_text(o2), expected_text(hist[1])),
                    {"vector": hist[1], "query": "catch(X is %s, error(E,_), true)." % hist[3],
                     "pre": "catch(X is %s, error(E,_), true)." % hist[2], "context": "history", "expr": hist[3]})
    if not rep.samples:
        v = vecs[len(vecs) // 2]
        rep.sample({"expr": describe(v, table), "expected": expected_text(v)})
    rep.exhaustive = True
    rep.traces = len(vecs)
    rep.extra["alphabet_size"] = len(table)
    rep.extra["cases_by_kind"] = {kd: sum(1 for v in vecs if v["kind"] == kd) for kd in sorted(set(v["kind"] for v in vecs))}
    rep.extra["undecided_value_cases"] = sum(1 for v in vecs if v["rk"] == "anyfloat")
    rep.assumptions = [
        "TLC, BigInt.tla and Float64.tla (rounding theorems checked in this run; every decided value cross-checked with Python's IEEE doubles/fractions)",
        "the LeafAnswer projection of the harness (integers as decimal strings, floats as bit patterns)",
        "doubles are injected as float(M) scaled by float(2^K) with M < 2^53 (exact IEEE steps, no float literal is read); every alphabet member is built this way on the real machine and read back by bits in the same run",
        "reduced scope: the numerical values of exp log sin cos tan asin acos atan atan2 and of inexact ** are not decided (only finiteness, domain errors, overflow, exact special points)",
        "mixed-mode operations convert the integer/rational operand to double first (ISO 9.1.4), then apply the IEEE operation; min/max of operands that compare equal may return either",
        "the sign of a zero result is compared separately from the value (reported under its own signature)",
    ]
    return rep.finish()


def replay(path):
    d = json.load(open(path))
    det = d["detail"]
    steps = []
    if det.get("clause"):
        steps.append({"consult": det["clause"]})
    if det.get("context") == "history":
        steps.append({"q": det["pre"], "max": 2})
    else:
        steps.append({"q": "X is float(0).", "max": 1})
    steps.append({"q": det["query"], "max": 2})
    r = run_jobs([{"id": 0, "fresh": True, "steps": steps}], workers=1, job_timeout=120)
    out = r[0]["res"][-1] if "res" in r[0] else r[0]
    v = det["vector"]
    if det.get("context") == "operand":
        a = out.get("a", [])
        got = a[0]["b"].get("X") if len(a) == 1 and isinstance(a[0], dict) and "b" in a[0] else None
        verdict = "ok" if got and match_num(got, v["v"]) != "diff" else "bad"
    else:
        verdict = judge(out, v)
    print(json.dumps({"expr": det.get("expr"), "query": det["query"], "expected": expected_text(v), "got": got_text(out),
                      "verdict": verdict, "raw": out}, indent=1, default=str))
    return 0 if verdict == "ok" else 1
