"""C50 - In-memory reading and writing match stream reading and writing."""
import json
import os
import threading
import time
from lib import common
from lib.common import Report, run_jobs, generate, run_tlc, tlc_ok
from props import C15 as c15

PROP = "C50"
META = {
    "level": "model_checking",
    "text": "spec/CharsIO.tla states that the result of writing a term / reading a text is a function of (operation, input, "
            "options) alone, whatever the access path: write_term_to_chars/3 vs write_term/3 on a stream; "
            "read_term_from_chars/3, read_from_chars/2 vs read_term/3, read/2 on a stream; errors (Formal) included. TLC "
            "(MC_C50) generates the inputs: the C15 term universe (tricky atoms, all number kinds, strings, lists, curly and "
            "'$VAR' terms, every operator term of the table x operand class) x write option sets (every combination of quoted, "
            "ignore_ops, numbervars, double_quotes; max_depth; invalid option lists) and a catalogue of texts (well-formed, "
            "several clauses, comments, missing end token, malformed, empty, non-ASCII, NUL) x read option sets "
            "(variable_names, variables, singletons, invalid lists). The driver submits every input to every path of the real "
            "system and records the observations; Trace_C50 validates the trace: the result is an unlogged variable fixed by "
            "the first observation, every other path has to agree and every path has to be observed.",
    "note": "Trusted: TLC, the canonical input sublanguage, get_n_chars/3 + UTF-8 file round trip for collecting stream output. "
            "Names of variables the caller did not name are unspecified (write_term prints _N, write_term_to_chars invents "
            "letters): every variable of a written term is named through variable_names, an option of both paths. Read "
            "results are compared as canonical text after numbervars/3.",
    "technique": "trace validation with inferred values (impl -> spec) over inputs enumerated by TLC from the C15 universe",
}

SEP = "\n@@@VT-SEP@@@\n"
MARK = "\x02"

HELPER = r"""
:- use_module(library(charsio)).
:- use_module(library(lists)).
:- use_module(library(format)).
:- use_module(library(dcgs)).
:- use_module(library(between)).
:- use_module(library(iso_ext)).
:- use_module(library(terms)).

vt_text(T, Cs) :- copy_term(T, T1), numbervars(T1, 0, _),
    catch(write_term_to_chars(T1, [quoted(true), ignore_ops(true)], Cs), _, Cs = "<unprintable>").
vt_ball(error(E, _), R) :- !, vt_text(E, Cs), append("\x2\ERR ", Cs, R).
vt_ball(B, R) :- vt_text(B, Cs), append("\x2\BALL ", Cs, R).
% results are joined into ONE ATOM: the embedding API converts a long list of characters in quadratic time
vt_cat(Rs, Big) :- vt_cat_(Rs, Cs), atom_chars(Big, Cs).
vt_cat_([], []).
vt_cat_([R|Rs], Big) :- append(R, T0, Big), append("\n@@@VT-SEP@@@\n", T, T0), vt_cat_(Rs, T).
vt_put(_, []).
vt_put(S, [C|Cs]) :- put_char(S, C), vt_put(S, Cs).
vt_ops(L) :- findall(op(P, S, N), current_op(P, S, N), L).

% ---- write ----
vt_wopts(OId, VNs, Os) :- vt_o(OId, Os0, K), ( K == vn -> append(Os0, [variable_names(VNs)], Os) ; Os = Os0 ).

vt_w(chars, OId, Ids, Big) :-
    findall(R, (member(Id, Ids), vt_wchars(OId, Id, R)), Rs), vt_cat(Rs, Big).
vt_w(stream, OId, Ids, Big) :-
    vt_file(F), open(F, write, S),
    (  member(Id, Ids), vt_t(Id, T, VNs), vt_wopts(OId, VNs, Os),
       catch(( write_term(S, T, Os) -> true ; vt_put(S, "\x2\FAIL") ), Ball, ( vt_ball(Ball, R), vt_put(S, R) )),
       vt_put(S, "\n@@@VT-SEP@@@\n"), fail
    ;  true ),
    close(S),
    open(F, read, S1), get_n_chars(S1, _, Cs), close(S1), atom_chars(Big, Cs).
vt_wchars(OId, Id, R) :-
    vt_t(Id, T, VNs), vt_wopts(OId, VNs, Os),
    catch(( write_term_to_chars(T, Os, Cs) -> R = Cs ; R = "\x2\FAIL" ), Ball, vt_ball(Ball, R)).

% ---- read ----
vt_ropts(OId, Os, X) :- vt_ro(OId, Os, X).
vt_res(X, R) :- vt_text(X, R).
vt_rd('read_term_from_chars/3', Cs, OId, R) :- vt_ropts(OId, Os, X),
    catch(( read_term_from_chars(Cs, T, Os) -> vt_res(T-X, R) ; R = "\x2\FAIL" ), Ball, vt_ball(Ball, R)).
vt_rd('read_from_chars/2', Cs, _, R) :-
    catch(( read_from_chars(Cs, T) -> vt_res(T-r('-','-','-'), R) ; R = "\x2\FAIL" ), Ball, vt_ball(Ball, R)).
vt_rd('read_term/3', Cs, OId, R) :- vt_ropts(OId, Os, X),
    vt_file(F), open(F, write, S), vt_put(S, Cs), close(S),
    open(F, read, S1),
    catch(( read_term(S1, T, Os) -> vt_res(T-X, R) ; R = "\x2\FAIL" ), Ball, vt_ball(Ball, R)),
    close(S1).
vt_rd('read/2', Cs, _, R) :-
    vt_file(F), open(F, write, S), vt_put(S, Cs), close(S),
    open(F, read, S1),
    catch(( read(S1, T) -> vt_res(T-r('-','-','-'), R) ; R = "\x2\FAIL" ), Ball, vt_ball(Ball, R)),
    close(S1).
vt_r(Path, OId, Ids, Big) :-
    findall(R, (member(Id, Ids), vt_x(Id, Cs), vt_rd(Path, Cs, OId, R)), Rs), vt_cat(Rs, Big).
vt_texts(Ids, Big) :- findall(Cs, (member(Id, Ids), vt_x(Id, Cs)), Rs), vt_cat(Rs, Big).
"""

WPATH = {"write_term_to_chars/3": "chars", "write_term/3": "stream"}


def wopt_text(o):
    if o["bad"]:
        return ("_" if o["bad"] == "_" else "[%s]" % o["bad"]), "raw"
    xs = [k + "(true)" for k in ("quoted", "ignore_ops", "numbervars", "double_quotes") if o[k]]
    if int(o["max_depth"]) > 0:
        xs.append("max_depth(%d)" % int(o["max_depth"]))
    return "[" + ",".join(xs) + "]", "vn"


def ropt_fact(oid, names, bad=None):
    """vt_ro(OId, Options, ResultShape): the option list and the term collecting what the options deliver"""
    if bad is not None:
        return "vt_ro(%d, %s, r)." % (oid, "_" if bad == "_" else "[%s]" % bad)
    opts, res = [], []
    for k, v in (("variable_names", "Vn"), ("variables", "Vs"), ("singletons", "Ss")):
        if k in names:
            opts.append("%s(%s)" % (k, v))
            res.append(v)
        else:
            res.append("'-'")
    return "vt_ro(%d, [%s], r(%s))." % (oid, ",".join(opts), ",".join(res))


def witem_clause(i, it, d):
    r = c15.Render()
    tt = r.term(it.t)
    vns = "[" + ",".join("'%s%s'=%s" % (v["n"], ("_%d" % v["i"]) if v.get("i") else "", r.term(v)) for v in d.get("vars", [])) + "]"
    if r.pre:
        return "vt_t(%d, T, %s) :- %s, T = %s." % (i, vns, ", ".join(r.pre), tt)
    return "vt_t(%d, %s, %s)." % (i, tt, vns)


def split_big(ans, n):
    """the joined result text of a helper query -> list of n results, or None"""
    a = ans.get("a") if isinstance(ans, dict) else None
    if not a or not isinstance(a[0], dict) or "b" not in a[0]:
        return None
    big = a[0]["b"]["Big"].get("a")
    if big is None:
        return None
    parts = big.split(SEP)
    if len(parts) != n + 1 or parts[-1] != "":
        return None
    return parts[:-1]


def classify(r):
    if r.startswith(MARK + "ERR "):
        return "error", r[5:]
    if r == MARK + "FAIL":
        return "fail", ""
    if r.startswith(MARK):
        return "other", r[1:]
    return "ok", r


class Session:
    """one table: program text and the queries (kind, path, option id, item ids)"""

    def __init__(self, uid, table, program, workdir):
        self.uid = uid
        self.table = table
        self.file = os.path.join(workdir, "io-%s" % uid)
        self.program = HELPER + program
        self.nh = len(table.hist) + 2

    def job(self, jid, queries, timeout=600):
        steps = [{"consult": self.program + 'vt_file("%s-%s.txt").\n' % (self.file, abs(hash(jid)) % 100000)}]
        for d in self.table.hist:
            steps.append({"q": "op(%d, %s, %s)." % (int(d["p"]), d["s"], c15.qatom(d["n"])), "max": 1})
        steps.append({"q": "vt_ops(L).", "max": 1})
        return {"id": jid, "fresh": True, "timeout": timeout, "steps": steps + [{"q": q, "max": 1} for q in queries]}


def run_queries(sess, reqs, workers, per_job=6):
    """reqs: list of (key, kind 'w'|'r', path-arg, oid, ids). Returns key -> list of results (None for an item whose
    query kept failing: panic / crash / time-out of the code under test)."""
    out = {}
    pending = list(reqs)
    level = 0
    while pending:
        jobs, meta = [], {}
        for c in range(0, len(pending), per_job):
            jid = "%s|%d|%d" % (sess.uid, level, c)
            chunk = pending[c:c + per_job]
            meta[jid] = chunk
            qs = ["vt_%s(%s, %d, %s, Big)." % (kind, c15.qatom(path) if kind == "r" else path, oid, c15.ids_text(ids))
                  for (_, kind, path, oid, ids) in chunk]
            jobs.append(sess.job(jid, qs))
        results = run_jobs(jobs, workers=workers, job_timeout=900)
        pending = []
        for jid, chunk in meta.items():
            r = results.get(jid, {"crash": "missing"})
            res = r.get("res", [])
            if res and not res[0].get("ok"):
                raise common.ToolError("C50: consult failed: %s" % json.dumps(res[0])[:300])
            if res and "error(" in (res[0].get("out") or ""):
                raise common.ToolError("C50: the program did not load cleanly: %s" % res[0]["out"][:300])
            for k, req in enumerate(chunk):
                key, kind, path, oid, ids = req
                ent = res[sess.nh + k] if len(res) > sess.nh + k else {"crash": r.get("crash", "no result")}
                parts = split_big(ent, len(ids))
                if parts is not None:
                    out.setdefault(key, {}).update(dict(zip(ids, parts)))
                elif len(ids) == 1:
                    out.setdefault(key, {})[ids[0]] = MARK + "NOANSWER " + json.dumps(ent)[:200]
                else:
                    step = max(1, len(ids) // 8)
                    for c in range(0, len(ids), step):
                        pending.append((key, kind, path, oid, ids[c:c + step]))
        level += 1
        per_job = 12
    return out


def run(tier):
    rep = Report(PROP, tier, META["level"])
    quick = tier == "quick"
    rep.rule = ("inputs: (term, write option set) for every item of the C15 universe (base vocabulary + depth-1 operator terms of "
                "the table) with the option sets MC_C50!OptClass assigns to it, and (text, read option set) for every text of "
                "CharsIO!Texts; each input is observed on every path of CharsIO!Paths; distinct = distinct (operation, operand "
                "class / text, option set, outcome kind)")
    workdir = os.path.join(common.WORK, "c50", "run-%d" % os.getpid())
    os.makedirs(workdir, exist_ok=True)
    t0 = time.time()
    phases = {}
    res, vecs = generate("MC_C50", "MC_C50_%s.cfg" % tier, workers=8, timeout=3000)
    rep.add_tlc(res)
    phases["tlc"] = round(time.time() - t0, 1)
    t0 = time.time()
    tables, items, raw = {}, [], {}
    opts = texts = None
    seen = set()
    for v in vecs:
        if v["kind"] == "table":
            t = c15.Table(v)
            if t.key not in tables or t.sortkey() < tables[t.key].sortkey():
                tables[t.key] = t
        elif v["kind"] == "terms":
            for d in sorted(v["items"], key=lambda d: json.dumps(d, sort_keys=True)):
                it = c15.Item(d)
                if it.key not in seen:
                    seen.add(it.key)
                    items.append(it)
                    raw[it.key] = d
        elif v["kind"] == "opts":
            opts = v
        elif v["kind"] == "texts":
            texts = v
    tables = sorted(tables.values(), key=c15.Table.sortkey)
    if not tables or not items or not opts or not texts:
        raise common.ToolError("C50: no vectors")
    # option sets
    wsets = []
    windex = {}
    for cls in ("all", "few", "cover", "bad"):
        for o in sorted(opts["w"][cls], key=lambda o: json.dumps(o, sort_keys=True)):
            k = json.dumps(o, sort_keys=True)
            if k not in windex:
                windex[k] = len(wsets)
                wsets.append(o)
    cls_ids = {cls: [windex[json.dumps(o, sort_keys=True)] for o in opts["w"][cls]] for cls in ("all", "few", "cover", "bad")}
    cls_ids["all+bad"] = sorted(set(cls_ids["all"] + cls_ids["bad"]))
    ofacts = []
    for oi, o in enumerate(wsets):
        txt, kind = wopt_text(o)
        ofacts.append("vt_o(%d, %s, %s)." % (oi, txt, kind))
    rsets = [sorted(x) for x in sorted(opts["r"], key=lambda x: (len(x), sorted(x)))]
    rbad = sorted(opts["rbad"])
    rfacts = [ropt_fact(i, names) for i, names in enumerate(rsets)] + [ropt_fact(len(rsets) + i, None, b) for i, b in enumerate(rbad)]
    rpaths = lambda oi: sorted(opts["rpaths0"] if (oi < len(rsets) and not rsets[oi]) else opts["rpaths1"])
    alltexts = list(texts["s"]) + ["".join(chr(int(c)) for c in cp) for cp in texts["cp"]]
    xfacts = ["vt_x(%d, %s)." % (i, c15.qstring(t)) for i, t in enumerate(alltexts)]

    events = []
    info = {}
    nid = 0
    workers = 8 if quick else 14
    for ti, tb in enumerate(tables):
        oskey = "os" if ti == 0 else "os2"          # MC_C50!OptClass / OtherTableClass
        sel = [it for it in items if it.needs <= tb.shapes and raw[it.key][oskey] != "none"]
        prog = "\n".join(ofacts + rfacts + (xfacts if ti == 0 else []) + [witem_clause(i, it, raw[it.key]) for i, it in enumerate(sel)]) + "\n"
        sess = Session("t%d" % ti, tb, prog, workdir)
        reqs = []
        byopt = {}
        for i, it in enumerate(sel):
            for oi in cls_ids[raw[it.key][oskey]]:
                byopt.setdefault(oi, []).append(i)
        for oi, ids in sorted(byopt.items()):
            for c in range(0, len(ids), 1500):
                for path in sorted(opts["wpaths"]):
                    reqs.append((("w", oi, path), "w", WPATH[path], oi, ids[c:c + 1500]))
        tids = list(range(len(alltexts)))
        if ti == 0:
            for oi in range(len(rsets) + len(rbad)):
                for path in rpaths(oi):
                    for c in range(0, len(tids), 60):
                        reqs.append((("r", oi, path), "r", path, oi, tids[c:c + 60]))
        got = run_queries(sess, reqs, workers)
        if ti == 0:
            tj = sess.job("texts", ["vt_texts(%s, Big)." % c15.ids_text(tids)])
            tr = run_jobs([tj], workers=1, job_timeout=300).get("texts", {})
            parts = split_big(tr["res"][-1], len(tids)) if "res" in tr else None
            if parts != alltexts:
                bad = [i for i in tids if not parts or parts[i] != alltexts[i]]
                raise common.ToolError("C50: texts were not built as specified: %s" % [alltexts[i] for i in bad[:5]])
        # events, grouped by input
        for oi, ids in sorted(byopt.items()):
            otxt = wopt_text(wsets[oi])[0]
            for i in ids:
                nid += 1
                it = sel[i]
                info[nid] = {"op": "write", "hist": tb.hist, "term": it.t, "show": it.show, "opts": otxt, "obs": {},
                             "cls": (it.pos, it.oc, tb.spec.get(it.o, "-"))}
                events.append({"ev": "input", "id": nid, "op": "write", "nopts": 1})
                for path in sorted(opts["wpaths"]):
                    r = got.get(("w", oi, path), {}).get(i, MARK + "MISSING")
                    kind, txt = classify(r)
                    info[nid]["obs"][path] = (kind, txt)
                    events.append({"ev": "obs", "id": nid, "path": path, "kind": kind, "result": txt})
        if ti == 0:
            for oi in range(len(rsets) + len(rbad)):
                otxt = ("[" + ",".join(rsets[oi]) + "]") if oi < len(rsets) else rbad[oi - len(rsets)]
                for i in tids:
                    nid += 1
                    info[nid] = {"op": "read", "hist": tb.hist, "text": alltexts[i], "opts": otxt, "obs": {}, "cls": ("text", i)}
                    events.append({"ev": "input", "id": nid, "op": "read", "nopts": 0 if (oi < len(rsets) and not rsets[oi]) else 1})
                    for path in rpaths(oi):
                        r = got.get(("r", oi, path), {}).get(i, MARK + "MISSING")
                        kind, txt = classify(r)
                        info[nid]["obs"][path] = (kind, txt)
                        events.append({"ev": "obs", "id": nid, "path": path, "kind": kind, "result": txt})
    events.append({"ev": "end"})
    phases["observation"] = round(time.time() - t0, 1)
    # trace validation (sharded: TLC steps through one event per state)
    bad = set()
    shard, shards = [], []
    for e in events:
        if e["ev"] == "input" and len(shard) >= 40000:
            shards.append(shard + [{"ev": "end"}])
            shard = []
        shard.append(e)
    shards.append(shard)
    t0 = time.time()
    outs = [None] * len(shards)
    errs = []

    def validate(si):
        try:
            tpath = os.path.join(workdir, "trace-%d.ndjson" % si)
            with open(tpath, "w") as f:
                for e in shards[si]:
                    f.write(json.dumps(e) + "\n")
            outs[si] = run_tlc("Trace_C50", "Trace_C50.cfg", workers=1, dfs=True, env_extra={"TRACE": tpath}, timeout=3000,
                               tag="Trace_C50-%d" % si, xmx="3g")
        except Exception as e:  # noqa
            errs.append(e)
    for c in range(0, len(shards), 4):
        ths = [threading.Thread(target=validate, args=(si,)) for si in range(c, min(len(shards), c + 4))]
        for t in ths:
            t.start()
        for t in ths:
            t.join()
    if errs:
        raise errs[0]
    for si, sh in enumerate(shards):
        tres = tlc_ok(outs[si], "Trace_C50")
        rep.add_tlc(tres)
        verdicts = [v for v in tres.printed() if isinstance(v, dict) and v.get("kind") == "verdict"]
        if not verdicts or int(verdicts[-1]["events"]) != len(sh):
            raise common.ToolError("Trace_C50 did not consume the trace (%d events)" % len(sh))
        bad |= set(int(x) for x in verdicts[-1]["bad"])
        rep.traces += 1
    phases["trace_validation"] = round(time.time() - t0, 1)
    rep.extra["phase_seconds"] = phases
    for k, inf in info.items():
        kinds = tuple(sorted(set(o[0] for o in inf["obs"].values())))
        rep.case((inf["op"], inf["cls"], inf["opts"], kinds))
    groups = {}
    for k in sorted(bad):
        inf = info[k]
        what = ("term=%s" % inf["show"]) if inf["op"] == "write" else ("text=%s" % json.dumps(inf["text"], ensure_ascii=False))
        obs = "; ".join("%s => %s %s" % (p, o[0], json.dumps(o[1], ensure_ascii=False)) for p, o in sorted(inf["obs"].items()))
        g = (inf["op"], what, obs)
        if g in groups:
            groups[g][1].append((inf["opts"], c15.hist_text(inf["hist"])))
            continue
        groups[g] = [{"op": inf["op"], "hist": inf["hist"], "term": inf.get("term"), "text": inf.get("text"), "opts": inf["opts"],
                      "obs": {p: list(o) for p, o in inf["obs"].items()}}, [(inf["opts"], c15.hist_text(inf["hist"]))]]
    for (op, what, obs), (detail, where) in sorted(groups.items()):
        detail["seen_with"] = where[:30]
        rep.violation("%s %s opts=%s : %s [%d option sets/tables]" % (op, what, where[0][0], obs, len(where)), detail)
    nw = sum(1 for i in info.values() if i["op"] == "write")
    rep.extra["write_inputs"] = nw
    rep.extra["read_inputs"] = len(info) - nw
    rep.extra["observations"] = sum(len(i["obs"]) for i in info.values())
    rep.extra["tables"] = len(tables)
    for k in list(info)[:: max(1, len(info) // 5)][:5]:
        inf = info[k]
        rep.sample({"op": inf["op"], "input": inf.get("show") or inf.get("text"), "opts": inf["opts"],
                    "obs": {p: list(o) for p, o in inf["obs"].items()}})
    rep.exhaustive = False
    rep.assumptions = ["TLC", "canonical input sublanguage", "file round trip through get_n_chars/3 to collect stream output",
                       "every variable of a written term is named through variable_names"]
    try:
        for f in os.listdir(workdir):
            os.remove(os.path.join(workdir, f))
        os.rmdir(workdir)
    except OSError:
        pass
    return rep.finish()


def replay(path):
    d = json.load(open(path))
    det = d["detail"]
    workdir = os.path.join(common.WORK, "c50", "replay-%d" % os.getpid())
    os.makedirs(workdir, exist_ok=True)
    tb = c15.Table({"hist": det["hist"], "tbl": []})
    if det["op"] == "write":
        it = c15.Item({"t": det["term"], "nv": [], "nvdef": True, "safe": True})
        vs = sorted(set(json.dumps(v, sort_keys=True) for v in _vars(det["term"])))
        prog = "vt_o(0, %s, %s).\n%s\n" % (det["opts"], "raw" if det["opts"].startswith("_") or "(true)" not in det["opts"] and det["opts"] != "[]" else "vn",
                                           witem_clause(0, it, {"vars": [json.loads(v) for v in vs]}))
        qs = ["vt_w(chars, 0, [0], Big).", "vt_w(stream, 0, [0], Big)."]
    else:
        names = [n for n in ("variable_names", "variables", "singletons") if n in det["opts"]]
        fact = ropt_fact(0, names) if det["opts"].startswith("[") else ropt_fact(0, None, det["opts"])
        prog = "%s\nvt_x(0, %s).\n" % (fact, c15.qstring(det["text"]))
        qs = ["vt_r(%s, 0, [0], Big)." % c15.qatom(p) for p in sorted(det["obs"])]
    sess = Session("r0", tb, prog, workdir)
    job = sess.job("r0", qs)
    r = run_jobs([job], workers=1, job_timeout=120)["r0"]
    print(json.dumps(det, ensure_ascii=False)[:1500])
    res = r.get("res", [])
    outs = []
    for q, ent in zip(qs, res[sess.nh:]):
        parts = split_big(ent, 1)
        print(q, "=>", json.dumps(parts if parts is not None else ent, ensure_ascii=False)[:600])
        outs.append(parts[0] if parts else None)
    return 0 if outs and all(o is not None and o == outs[0] for o in outs) else 1


def _vars(t):
    if t["t"] == "v":
        yield t
    for x in t.get("a", []) if t["t"] == "c" else []:
        for v in _vars(x):
            yield v
