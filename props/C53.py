"""C53 - Graph library results match graph-theoretic definitions."""
import json
import time

from lib import common, terms
from lib.common import Report, run_jobs
from props import C14 as glue      # shared rendering / normalisation helpers (outcome, agrees, list_items, lit_shape, show)

PROP = "C53"

META = {
    "level": "model_checking",
    "text": "library(ugraphs) is specified in TLA+ (spec/Ugraphs.tla over the term order of spec/Coll.tla): graphs as (V, E), every "
            "exported operation as its graph-theoretic definition (TLC checks sanity theorems of the definitions on all graphs over "
            "three vertices), and the documented S-representation (vertices and neighbour lists in standard order, no duplicates) "
            "as the concrete result. TLC (MC_C53) enumerates every digraph on at most 3 vertices of mixed type (integer, atom, "
            "compound) with every vertex / vertex list / edge list argument in the stated bounds (thorough: every digraph on at most 4 "
            "vertices for the graph algorithms and a seeded sample on 5); each specified result is replayed against the real library. "
            "top_sort/2 is checked against the acceptance relation (any permutation of V consistent with E; failure iff cyclic). "
            "Bounded-exhaustive conformance, not proof.",
    "note": "Trusted: TLC, the canonical text renderer and the LeafAnswer projection of the harness. Input graphs are well-formed "
            "S-representations (every neighbour is a vertex); variables as vertices and top_sort/3 are not covered; the element "
            "order of vertices/2 and edges/2 is not asserted.",
    "technique": "TLA+ value-level specification enumerated by TLC; vectors replayed into the real library",
}

PRELUDE = ":- use_module(library(lists)).\n:- use_module(library(ugraphs)).\n"

TEMPLATES = {
    "vertices": "vertices({0}, R)", "edges": "edges({0}, R)",
    "transpose_ugraph": "transpose_ugraph({0}, R)", "transitive_closure": "transitive_closure({0}, R)",
    "complement": "complement({0}, R)", "top_sort": "top_sort({0}, R)",
    "vertices_edges_to_ugraph": "vertices_edges_to_ugraph({0}, {1}, R)",
    "ve_implicit": "vertices_edges_to_ugraph({0}, {1}, R)",
    "connect_ugraph": "connect_ugraph({0}, Qs, Qg), Qg = [Qs2-Qn|Qr], ( Qs2 == Qs -> Qa = true ; Qa = false ), "
                      "{0} = [Qf-_|_], ( Qs @< Qf -> Qb = true ; Qb = false ), R = r(Qa, Qb, Qn, Qr)",
    "neighbours": "neighbours({0}, {1}, R)", "neighbors": "neighbors({0}, {1}, R)", "reachable": "reachable({0}, {1}, R)",
    "add_vertices": "add_vertices({0}, {1}, R)", "del_vertices": "del_vertices({0}, {1}, R)",
    "add_edges": "add_edges({0}, {1}, R)", "del_edges": "del_edges({0}, {1}, R)",
    "compose": "compose({0}, {1}, R)", "ugraph_union": "ugraph_union({0}, {1}, R)",
}


def goal_of(v):
    args = [glue.from_packed(a) for a in v["args"]]
    goal = TEMPLATES[v["op"]].format(*[terms.text(a) for a in args])
    # only the plain vertex / edge list arguments are handed to sort/2 by the library as they are
    shape = "plain"
    if v["op"] in ("add_vertices", "del_vertices", "add_edges", "del_edges", "vertices_edges_to_ugraph", "ve_implicit"):
        shapes = [glue.lit_shape(a) for a in (args[1:] if v["op"].startswith(("add_", "del_")) else args)]
        if "charprefix+tail" in shapes:
            shape = "charprefix+tail"
    return goal, shape


def query_of(v):
    return "catch((%s), error(E,_), true)." % goal_of(v)[0]


def expected_of(v):
    if v["k"] == "oneof":
        return ("oneof", glue.from_packed(v["v"]))
    return glue.expected_of(v)


def agrees(exp, got):
    if exp[0] == "oneof":
        alts, _ = glue.list_items(exp[1])
        if not alts:
            return got == ("fail",)
        return got[0] == "ok" and any(terms.variant(a, got[1]) for a in alts)
    return glue.agrees(exp, got)


def show_exp(exp):
    if exp[0] == "oneof":
        alts, _ = glue.list_items(exp[1])
        return "oneof(%d):%s" % (len(alts), terms.show(exp[1])[:200]) if alts else "fail"
    return glue.show(exp)


def signature(v, exp, got):
    goal, shape = goal_of(v)
    return "%s cls=%s shape=%s goal=%s expected=%s got=%s" % (v["op"], v["cls"], shape, goal, show_exp(exp), glue.show(got))


def run(tier):
    rep = Report(PROP, tier, META["level"])
    rep.rule = ("TLC enumerates every digraph on at most 3 vertices {10, a, f(x)} (567 graphs) x operation, with every vertex "
                "argument, every vertex list of length <= 2, every edge list of length <= 2 on graphs of at most 2 vertices and every "
                "pair of graphs on at most 2 vertices; thorough: also every one-edge list on every 3-vertex graph, every digraph on "
                "at most 4 vertices for transpose, closure, complement, top_sort, reachable, pairs (<=3, <=2 vertices) and a seeded "
                "sample of 4000 digraphs on 5 vertices. "
                "distinct = distinct (operation, |V|, |E|, cyclic?, size of the closure, argument class: new/absent vertices, "
                "edges hit, shared vertices)")
    import gc
    gc.disable()
    phases = {}
    t0 = time.time()
    res, vecs = common.generate("MC_C53", "MC_C53_%s.cfg" % tier, workers=8, timeout=3000,
                                env_extra={"C53_SEED": common.seed()})
    rep.add_tlc(res)
    phases["tlc_generate"] = round(time.time() - t0, 1)
    if not vecs:
        raise common.ToolError("MC_C53 generated no vectors")
    jobs = []
    B = 250
    for bi, batch in glue.batches(vecs, B):
        steps = [{"consult": PRELUDE}] + [{"q": query_of(v), "max": 3} for v in batch]
        jobs.append({"id": bi, "steps": steps, "timeout": 120, "fresh": True})
    t0 = time.time()
    results = run_jobs(jobs, workers=8, job_timeout=120)
    phases["harness"] = round(time.time() - t0, 1)
    ops = set()
    for bi, batch in glue.batches(vecs, B):
        r = results.get(bi, {"crash": "missing"})
        if "crash" in r:
            rep.violation("batch crashed: %s first=%s" % (r["crash"], query_of(batch[0])),
                          {"kind": "batch", "vectors": batch[:5], "result": r})
            continue
        if "panic" in r["res"][0]:
            raise common.ToolError("prelude failed to load: %r" % (r["res"][0],))
        for v, entry in zip(batch, r["res"][1:]):
            exp = expected_of(v)
            got = glue.outcome(entry)
            rep.case((v["op"], v["cls"]))
            ops.add(v["op"])
            if not agrees(exp, got):
                rep.violation(signature(v, exp, got), {"kind": "call", "vector": v, "query": query_of(v),
                                                       "expected": show_exp(exp), "got": glue.show(got)})
    for v in vecs[:: max(1, len(vecs) // 5)]:
        rep.sample({"goal": goal_of(v)[0], "expected": show_exp(expected_of(v))})
    rep.traces = len(vecs)
    rep.extra["predicates_covered"] = sorted(ops)
    rep.extra["phase_wall_s"] = phases
    rep.exhaustive = True
    rep.assumptions = ["TLC and spec/Ugraphs.tla, spec/Coll.tla (sanity theorems checked in the same run)",
                       "canonical text renderer and LeafAnswer projection of the harness",
                       "inputs are well-formed S-representations over ground vertices"]
    return rep.finish()


def replay(path):
    d = json.load(open(path))
    det = d["detail"]
    if det.get("kind") == "batch":
        print(json.dumps(det, indent=1, default=str)[:4000])
        return 0
    q = det["query"]
    r = run_jobs([{"id": 0, "steps": [{"consult": PRELUDE}, {"q": q, "max": 3}], "fresh": True}], workers=1)
    print(json.dumps({"signature": d["signature"], "query": q, "expected": det.get("expected"),
                      "result": r[0]["res"][1] if "res" in r[0] else r[0]}, indent=1, default=str))
    return 0
