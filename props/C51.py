"""C51 - CSV parsing and writing follow the documented format."""
import json
import os
import shutil

from lib import common, terms
from lib.common import Report, run_tlc, tlc_ok, run_jobs

PROP = "C51"

META = {
    "level": "model_checking",
    "text": "spec/Csv.tla gives the RFC 4180 record/field grammar (quoted fields, doubled quotes, embedded separators and line "
            "ends, CRLF/LF line ends, optional trailing line end) as a function on code-point sequences, the documented result "
            "frame(Header, Rows) of library(csv) (strings, 2 -> number, empty -> []) under the documented options token_separator "
            "and with_header, and the writer relation for write_csv/2,3 with its documented options (line_separator, "
            "token_separator, with_header, null_value). TLC enumerates tables up to 2x2 (quick) / sampled 3x3 (thorough) over "
            "the field alphabet {a , \" CR LF space e-acute empty 12} in textual variants (quoting mode, line end, trailing line "
            "end) x options, checks Parse(Encode(t)) = t in the specification, and every document is parsed by the real "
            "parse_csv//1,2 (all solutions, from a list and from a file); frames are written by the real write_csv/2,3, the "
            "written text is judged by the specification (Trace_C51) and parsed back by the real parser. "
            "Bounded-exhaustive conformance, not proof.",
    "note": "Trusted: TLC, the Prolog text renderer of the driver, the harness' answer projection. Not asserted (documentation and "
            "RFC 4180 silent): bare CR outside quotes, typing of fields that contain digits other than plain unquoted naturals, "
            "the empty document, ragged tables; for malformed documents only crashes/hangs count.",
    "technique": "TLA+ grammar-as-function specification enumerated by TLC; documents replayed into library(csv); written files "
                 "validated against the specification's writer relation",
}

HELPER = r"""
:- use_module(library(csv)).
:- use_module(library(dcgs)).
:- use_module(library(lists)).
:- use_module(library(pio)).
vp1(Codes, R) :- maplist(char_code, Cs, Codes),
    catch(( phrase(parse_csv(F), Cs), R = ok(F) ), error(E, _), ( functor(E, N, _), R = err(N) )).
vp2(Codes, Opts, R) :- maplist(char_code, Cs, Codes),
    catch(( phrase(parse_csv(F, Opts), Cs), R = ok(F) ), error(E, _), ( functor(E, N, _), R = err(N) )).
vpf(File, Opts, R) :-
    catch(( phrase_from_file(parse_csv(F, Opts), File), R = ok(F) ), error(E, _), ( functor(E, N, _), R = err(N) )).
vw2(File, Frame, R) :-
    catch(( write_csv(File, Frame) -> R = ok ; R = failed ), error(E, _), ( functor(E, N, _), R = err(N) )).
vw3(File, Frame, Opts, R) :-
    catch(( write_csv(File, Frame, Opts) -> R = ok ; R = failed ), error(E, _), ( functor(E, N, _), R = err(N) )).
vprobe(ok).
"""


def txt(codes):
    return "".join(chr(c) for c in codes)


def plain(codes):
    return all(32 <= c <= 126 and c not in (34, 92) for c in codes)


def chars_literal(codes):
    if plain(codes):
        return '"' + txt(codes) + '"'
    return "[" + ",".join(terms.quote_atom(chr(c)) for c in codes) + "]"


# ---------------------------------------------------------------------------------------------
# values: spec record {"k": "s"|"i"|"n", "s": codes}
# ---------------------------------------------------------------------------------------------

def val_term(v):
    if v["k"] == "s":
        return terms.mk_list([('a', chr(c)) for c in v["s"]])
    if v["k"] == "i":
        return ('i', int(txt(v["s"])))
    return terms.NIL


def val_text(v):
    if v["k"] == "s":
        return chars_literal(v["s"])
    if v["k"] == "i":
        return txt(v["s"])
    return "[]"


def frame_term(h, rows):
    return ('c', 'frame', (terms.mk_list([val_term(x) for x in h]),
                           terms.mk_list([terms.mk_list([val_term(x) for x in r]) for r in rows])))


def frame_text(h, rows):
    return "frame([%s],[%s])" % (",".join(val_text(x) for x in h),
                                 ",".join("[" + ",".join(val_text(x) for x in r) + "]" for r in rows))


def show_val(v):
    return {"s": repr(txt(v["s"])), "i": txt(v["s"]), "n": "[]"}[v["k"]]


def show_frame(h, rows):
    return "frame([%s],[%s])" % (",".join(show_val(x) for x in h),
                                 ",".join("[" + ",".join(show_val(x) for x in r) + "]" for r in rows))


def parse_opts(v, explicit):
    o = []
    if explicit or not v["header"]:
        o.append("with_header(%s)" % ("true" if v["header"] else "false"))
    if explicit or v["sep"] != 44:
        o.append("token_separator(%s)" % terms.quote_atom(chr(v["sep"])))
    return "[" + ",".join(o) + "]"


def answers(res):
    """-> list of ('ok', term) | ('err', name) | ('other', x) ; or [('panic', msg)]"""
    if "panic" in res:
        return [("panic", res["panic"])]
    out = []
    for a in res.get("a", []):
        if a == "F":
            continue
        if isinstance(a, dict) and "b" in a and "R" in a["b"]:
            r = terms.from_h(a["b"]["R"])
            if r[0] == 'c' and r[1] == 'ok' and len(r[2]) == 1:
                out.append(("ok", r[2][0]))
            elif r[0] == 'c' and r[1] == 'err':
                out.append(("err", r[2][0][1]))
            elif r[0] == 'a':
                out.append((r[1],))
            else:
                out.append(("other", repr(r)[:200]))
        else:
            out.append(("other", json.dumps(a)[:200]))
    return out


def show_answers(ans):
    def one(a):
        if a[0] == "ok":
            return "ok:" + terms.show(a[1])
        return ":".join(str(x) for x in a)
    return "[" + " ; ".join(one(a) for a in ans[:4]) + "]"


# ---------------------------------------------------------------------------------------------
# input classification (coverage classes and signatures)
# ---------------------------------------------------------------------------------------------

def field_class(codes):
    if not codes:
        return "empty"
    s = set(codes)
    tags = []
    if 34 in s: tags.append("dq")
    if 44 in s or 59 in s: tags.append("sep")
    if 10 in s or 13 in s: tags.append("eol")
    if 32 in s: tags.append("sp")
    if any(c > 127 for c in s): tags.append("u")
    if all(48 <= c <= 57 for c in codes): tags.append("num")
    return "+".join(tags) or "plain"


def parse_traits(v):
    """traits of a parse vector, from the expected frame (input-side classification)"""
    tr = set()
    recs = ([v["h"]] if v["header"] else []) + v["rows"]
    ncol = v["dims"][1]
    if ncol == 1:
        for i, r in enumerate(recs):
            if r[0]["k"] == "n":
                tr.add("single-empty-field-record")
    return tr


def write_traits(v):
    tr = set()
    recs = ([v["h"]] if v["header"] else []) + v["rows"]
    if not v["rows"]:
        tr.add("w-norows")
    for r in recs:
        for x in r:
            if x["k"] == "s":
                tr.add("w-string")
                if any(c in (34, 10, 13, v["sep"]) for c in x["s"]):
                    tr.add("w-needs-quote")
        if len(r) == 1 and r[0]["k"] == "n" and not v["nulltext"]:
            tr.add("w-single-null-record")
    return tr


# ---------------------------------------------------------------------------------------------

def judge_written(rep, obs):
    """obs: list of (vector, codes of the written text). Csv!WriterAccepts decides (Trace_C51)."""
    if not obs:
        return set()
    d = os.path.join(common.WORK, "c51")
    os.makedirs(d, exist_ok=True)
    path = os.path.join(d, "written-%d.ndjson" % os.getpid())
    with open(path, "w") as f:
        for v, codes in obs:
            f.write(json.dumps({"text": codes, "h": v["h"], "rows": v["rows"], "sep": v["sep"], "le": v["le"],
                                "header": v["header"], "nulltext": v["nulltext"]}) + "\n")
    res = tlc_ok(run_tlc("Trace_C51", "Trace_C51.cfg", workers=1, timeout=1800, env_extra={"TRACE": path}), "writer acceptance")
    rep.add_tlc(res)
    verdict = [x for x in res.printed() if isinstance(x, dict) and "rejected" in x]
    if not verdict or verdict[0]["total"] != len(obs):
        raise common.ToolError("Trace_C51 did not judge all %d texts: %r" % (len(obs), verdict))
    os.unlink(path)
    return set(i - 1 for i in verdict[0]["rejected"])


def build_jobs(vecs, rundir, B=150):
    jobs, meta = [], {}
    for bi in range(0, len(vecs), B):
        steps = [{"consult": HELPER}, {"q": "vprobe(R).", "max": 1}]
        index = []
        for j, v in enumerate(vecs[bi:bi + B]):
            k = bi + j
            ent = {"v": v, "steps": {}}
            if v["fam"] in ("parse", "malformed"):
                codes = json.dumps(v["text"])
                explicit = v.get("le") == "CRLF"
                if v["fam"] == "parse" and v["header"] and v["sep"] == 44 and v["qmode"] == "min":
                    q = "vp1(%s, R)." % codes
                else:
                    q = "vp2(%s, %s, R)." % (codes, parse_opts(v, explicit))
                ent["steps"]["list"] = len(steps)
                steps.append({"q": q, "max": 6})
                if k % 6 == 0:
                    fn = os.path.join(rundir, "p%d.csv" % k)
                    with open(fn, "w", encoding="utf-8", newline="") as f:
                        f.write(txt(v["text"]))
                    ent["steps"]["file"] = len(steps)
                    steps.append({"q": "vpf(%s, %s, R)." % (terms.quote_atom(fn), parse_opts(v, True)), "max": 6})
            else:
                fn = os.path.join(rundir, "w%d.csv" % k)
                ent["file"] = fn
                fr = frame_text(v["h"], v["rows"])
                o = []
                if not v["header"]:
                    o.append("with_header(false)")
                if v["sep"] != 44:
                    o.append("token_separator(%s)" % terms.quote_atom(chr(v["sep"])))
                if v["le"] == "CRLF":
                    o.append("line_separator('\\r\\n')")
                if v["nulltext"]:
                    o.append("null_value(%s)" % terms.quote_atom(txt(v["nulltext"])))
                ent["steps"]["write"] = len(steps)
                if o:
                    steps.append({"q": "vw3(%s, %s, [%s], R)." % (terms.quote_atom(fn), fr, ",".join(o)), "max": 1})
                else:
                    steps.append({"q": "vw2(%s, %s, R)." % (terms.quote_atom(fn), fr), "max": 1})
                ent["steps"]["back"] = len(steps)
                steps.append({"q": "vpf(%s, %s, R)." % (terms.quote_atom(fn), parse_opts(v, True)), "max": 6})
            index.append(ent)
        jobs.append({"id": bi, "steps": steps, "timeout": 300, "fresh": True})
        meta[bi] = index
    return jobs, meta


def opts_show(v):
    s = "sep=%r header=%s" % (chr(v["sep"]), v["header"])
    if v["fam"] == "write":
        s += " le=%s null=%r" % (v["le"], txt(v["nulltext"]))
    return s


def run(tier):
    rep = Report(PROP, tier, META["level"])
    rep.rule = ("TLC enumerates tables (rows x columns <= 2x2%s) over the field alphabet {a , \" CR LF space e-acute empty 12%s}, "
                "renders each in textual variants (quoting min/all/odd, LF/CRLF, trailing line end) under the documented options "
                "(token_separator , ; and with_header true/false), plus malformed documents and frames for the writer "
                "(values: strings, numbers, []; options line_separator, token_separator, with_header, null_value). "
                "distinct = distinct (family, dims, field classes, variant, options, entry point)"
                % ((", 3x1, 3x3 sampled", " and multi-character fields") if tier == "thorough" else ("", "")))
    res, vecs = common.generate("MC_C51", "MC_C51_%s.cfg" % tier, workers=8 if tier == "quick" else 12,
                                timeout=600 if tier == "quick" else 5400)
    rep.add_tlc(res)
    if not vecs:
        raise common.ToolError("no vectors generated")
    rundir = os.path.join(common.WORK, "c51", "run-%d" % os.getpid())
    shutil.rmtree(rundir, ignore_errors=True)
    os.makedirs(rundir)
    try:
        jobs, meta = build_jobs(vecs, rundir)
        results = run_jobs(jobs, workers=8, job_timeout=300)
        written = []      # (entry, codes)
        for job in jobs:
            r = results.get(job["id"], {"crash": "missing"})
            if "crash" in r:
                rep.violation("batch crashed: %s" % r["crash"], {"job_id": job["id"], "result": r,
                                                                  "vectors": [e["v"] for e in meta[job["id"]]]})
                continue
            rs = r["res"]
            if answers(rs[1]) != [("ok",)]:
                raise common.ToolError("helper program did not load: %r %r" % (rs[0], rs[1]))
            for ent in meta[job["id"]]:
                v = ent["v"]
                if v["fam"] == "parse":
                    exp = frame_term(v["h"], v["rows"])
                    tr = parse_traits(v)
                    cls = (v["fam"], tuple(v["dims"]), tuple(sorted(set(field_class(x["s"]) for r0 in [v["h"]] + v["rows"] for x in r0))),
                           v["qmode"], v["le"], v["trail"], v["sep"], v["header"])
                    for way, k in ent["steps"].items():
                        ans = answers(rs[k])
                        rep.case(cls + (way,))
                        good = bool(ans) and all(a == ("ok", exp) for a in ans)
                        if not good:
                            sig = "parse traits=%s | text=%r %s way=%s exp=%s got=%s" % (
                                ",".join(sorted(tr)), txt(v["text"]), opts_show(v), way, show_frame(v["h"], v["rows"]), show_answers(ans))
                            rep.violation(sig, {"vector": v, "way": way, "got": show_answers(ans)})
                elif v["fam"] == "malformed":
                    for way, k in ent["steps"].items():
                        ans = answers(rs[k])
                        rep.case(("malformed", txt(v["text"]), v["sep"], v["header"], way))
                        if ans and ans[0][0] == "panic":
                            rep.violation("malformed text=%r %s way=%s got=%s" % (txt(v["text"]), opts_show(v), way, show_answers(ans)),
                                          {"vector": v, "way": way, "got": show_answers(ans)})
                else:
                    tr = write_traits(v)
                    ent["traits"] = tr
                    cls = ("write", len(v["rows"]), len(v["h"]), tuple(sorted(set(
                        x["k"] + ":" + field_class(x["s"]) for r0 in v["rows"] for x in r0))), v["sep"], v["header"], v["le"], bool(v["nulltext"]))
                    w = answers(rs[ent["steps"]["write"]])
                    rep.case(cls + ("write",))
                    sigbase = "write traits=%s | %s %s" % (",".join(sorted(tr)), show_frame(v["h"], v["rows"]), opts_show(v))
                    if w != [("ok",)]:
                        rep.violation(sigbase + " step=write got=%s" % show_answers(w), {"vector": v, "got": show_answers(w)})
                        continue
                    try:
                        with open(ent["file"], encoding="utf-8", newline="") as f:
                            codes = [ord(c) for c in f.read()]
                    except Exception as e:
                        rep.violation(sigbase + " step=file got=%s" % type(e).__name__, {"vector": v, "got": repr(e)})
                        continue
                    ent["codes"] = codes
                    ent["back"] = answers(rs[ent["steps"]["back"]])
                    written.append(ent)
        rejected = judge_written(rep, [(e["v"], e["codes"]) for e in written])
        for i, ent in enumerate(written):
            v = ent["v"]
            sigbase = "write traits=%s | %s %s" % (",".join(sorted(ent["traits"])), show_frame(v["h"], v["rows"]), opts_show(v))
            rep.case(("write-text", len(v["rows"]), len(v["h"]), v["sep"], v["header"], v["le"], bool(v["nulltext"])))
            if i in rejected:
                rep.violation(sigbase + " step=text got=%r" % txt(ent["codes"]), {"vector": v, "written": txt(ent["codes"])})
                continue
            # round trip through the real parser (skipped for the empty document, which the specification leaves open)
            if not v["rows"] and not v["header"]:
                continue
            exp = frame_term(v["h"] if v["header"] else [], v["back"])
            ans = ent["back"]
            rep.case(("write-back", len(v["rows"]), len(v["h"]), v["sep"], v["header"], v["le"], bool(v["nulltext"])))
            if not (ans and all(a == ("ok", exp) for a in ans)):
                rep.violation(sigbase + " step=back text=%r got=%s" % (txt(ent["codes"]), show_answers(ans)),
                              {"vector": v, "written": txt(ent["codes"]), "got": show_answers(ans)})
    finally:
        shutil.rmtree(rundir, ignore_errors=True)
    step = max(1, len(vecs) // 5)
    for v in vecs[::step]:
        if v["fam"] == "write":
            rep.sample({"write": show_frame(v["h"], v["rows"]), "options": opts_show(v)})
        else:
            rep.sample({"document": txt(v["text"]), "options": opts_show(v),
                        "expected": show_frame(v.get("h", []), v.get("rows", [])) if v["fam"] == "parse" else "malformed"})
    rep.exhaustive = True
    rep.traces = len(vecs)
    rep.assumptions = ["TLC and Csv.tla (round trip Parse(Encode(t)) = t checked for every generated document; grammar and writer "
                       "examples checked as ASSUMEs of MC_C51)",
                       "RFC 4180 as the meaning of 'CSV' where the library documentation is silent; LF accepted as line end as in "
                       "the library's own example",
                       "canonical text renderer of the driver and answer projection of the harness"]
    return rep.finish()


def replay(path):
    d = json.load(open(path))
    v = d["detail"]["vector"]
    rundir = os.path.join(common.WORK, "c51", "replay-%d" % os.getpid())
    os.makedirs(rundir, exist_ok=True)
    try:
        jobs, meta = build_jobs([v], rundir)
        r = run_jobs(jobs, workers=1)[0]
        for st, x in zip(jobs[0]["steps"][2:], r.get("res", [])[2:]):
            print(st.get("q"))
            print("   =>", show_answers(answers(x)))
        if v["fam"] == "write":
            fn = meta[0][0]["file"]
            if os.path.exists(fn):
                print("written text: %r" % open(fn, encoding="utf-8", newline="").read())
            print("frame: %s  options: %s" % (show_frame(v["h"], v["rows"]), opts_show(v)))
        else:
            print("document: %r  options: %s" % (txt(v["text"]), opts_show(v)))
            if v["fam"] == "parse":
                print("expected: %s" % show_frame(v["h"], v["rows"]))
    finally:
        shutil.rmtree(rundir, ignore_errors=True)
    return 0
