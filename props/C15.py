"""C15 - Printed terms read back as the same term."""
import json
import os
import re
import time
import unicodedata
from lib import common, terms
from lib.common import Report, run_jobs, generate

PROP = "C15"
META = {
    "level": "model_checking",
    "text": "TLC explores the operator-table state machine (spec/OpCfg.tla: op/3 restricted to admissible declarations; "
            "table well-formedness is an invariant) over histories of user-defined prefix/infix/postfix operators, operators "
            "that are prefix and infix, priorities 1..1200, removal and re-declaration of predefined operators, and "
            "enumerates the term universe of spec/WriteRead.tla: every operator-term shape of a table x every operand class "
            "in every argument position to depth 2 (depth 3 by simulation over random histories of the whole declaration "
            "space), plus a table-independent vocabulary (atoms of every lexical class incl. non-ASCII/control/quote "
            "characters in every position, all number kinds incl. boundary floats and bignums in every argument position, "
            "strings, lists, partial lists, curly terms, '$VAR' terms, the explicit tricky list of the design). Each term "
            "is built structurally in the real system, written by writeq/2, write_canonical/2, write_term/3 (quoted, "
            "ignore_ops, numbervars combinations), write_term_to_chars/3 and format ~q under the table, read back by "
            "read_term/2 / read_term_from_chars/3 under the same table, and compared with the term the specification says "
            "the text denotes (Expect: the term itself, '$VAR'(N) replaced by variables under numbervars) up to variable "
            "renaming (Accept; floats by bits, -0.0 identified with 0.0). A syntax error on read-back is a violation.",
    "note": "Trusted: TLC; the canonical input sublanguage (functional notation, quoted atoms, non-negative decimal literals; "
            "negative numbers are built by is/2) read under the DEFAULT table before any op/3 call; subsumes_term/2 as "
            "first-pass filter (every reported difference is re-judged on the structural JSON image); print/1 does not "
            "exist in Scryer and is not exercised. Bounded depth; operator names from a fixed pool.",
    "technique": "TLA+ state machine of the operator table + term universe enumerated by TLC; round trip replayed in the real "
                 "writer/reader per reachable table (spec -> impl), acceptance relation Variant from the specification",
}

STREAM_LEGS = ("writeq", "write_canonical", "wt_q", "wt_qi", "wt_qn", "wt_qin")
CHARS_LEGS = ("chars_q", "chars_qi", "format_q")
CORE_LEGS = ("writeq", "write_canonical", "wt_q", "wt_qin")      # the four distinct option sets, real stream predicates

HELPER = r"""
:- use_module(library(charsio)).
:- use_module(library(lists)).
:- use_module(library(format)).
:- use_module(library(dcgs)).
:- use_module(library(between)).
:- use_module(library(iso_ext)).
:- use_module(library(terms)).

vt_kind(writeq, stream). vt_kind(write_canonical, stream). vt_kind(wt_q, stream). vt_kind(wt_qi, stream).
vt_kind(wt_qn, stream). vt_kind(wt_qin, stream). vt_kind(chars_q, chars). vt_kind(chars_qi, chars). vt_kind(format_q, chars).

vt_swrite(writeq, _, S, T) :- !, writeq(S, T).
vt_swrite(write_canonical, _, S, T) :- !, write_canonical(S, T).
vt_swrite(_, Os, S, T) :- write_term(S, T, Os).
vt_cwrite(format_q, _, T, Cs) :- !, phrase(format_("~q", [T]), Cs).
vt_cwrite(_, Os, T, Cs) :- write_term_to_chars(T, Os, Cs).

vt_item(Id, Mode, T, E) :- vt_t(Id, T, M), ( Mode == nv, M = nv(E0) -> E = E0 ; E = T ).

% Accept of WriteRead.tla: variant (the two terms share no variables), -0.0 identified with 0.0
vt_variant(A, B) :- subsumes_term(A, B), subsumes_term(B, A).
vt_accept(E, T1) :- vt_variant(E, T1), !.
vt_accept(E, T1) :- vt_znorm(E, E1), vt_znorm(T1, T2), vt_variant(E1, T2).
vt_znorm(T, T) :- var(T), !.
vt_znorm(T, Z) :- float(T), !, ( T =:= 0 -> Z = 0.0 ; Z = T ).
vt_znorm(T, T) :- atomic(T), !.
vt_znorm(T, Z) :- T =.. [F|As], vt_znorm_l(As, Zs), Z =.. [F|Zs].
vt_znorm_l([], []).
vt_znorm_l([A|As], [Z|Zs]) :- vt_znorm(A, Z), vt_znorm_l(As, Zs).

% results carry text only (the written chars; terms and balls in canonical notation, for the report)
vt_text(T, Cs) :- copy_term(T, T1), numbervars(T1, 0, _),
    catch(write_term_to_chars(T1, [quoted(true), ignore_ops(true)], Cs), _, Cs = "<unprintable>").

vt_run(W, Ids, N, Bad) :- vt_kind(W, K), vt_run(K, W, Ids, N, Bad).
vt_run(chars, W, Ids, N, Bad) :-
    vt_leg(W, Os, Mode),
    findall(Id-R, (member(Id, Ids), vt_item(Id, Mode, T, E), vt_chars_one(W, Os, T, E, R)), Rs),
    length(Rs, N),
    findall(Id-R, (member(Id-R, Rs), R \== ok), Bad).
vt_run(stream, W, Ids, N, Bad) :-
    vt_leg(W, Os, Mode), vt_file(F),
    findall(Id-T-E, (member(Id, Ids), vt_item(Id, Mode, T, E)), Ts),
    open(F, write, S), vt_wall(Ts, W, Os, S, WRs), close(S),
    open(F, read, S1), vt_rall(WRs, S1, Rs), close(S1),
    length(Rs, N),
    findall(Id-R, (member(Id-R0, Rs), R0 \== ok, vt_confirm(W, Os, Mode, Id, R0, R)), Bad).

% A difference found in the batch file is attributed to the term only if the same term, written with the same
% options to chars and read back on its own, shows the same difference (that also delivers the text); otherwise
% (the batch may have lost synchronisation after an earlier broken text) the driver re-runs the term through a
% file of its own (vt_single).
vt_confirm(_, _, _, _, werr(X), werr(X)) :- !.
vt_confirm(_, Os, Mode, Id, R0, R) :-
    vt_item(Id, Mode, T, E),
    vt_chars_one(chars_q, Os, T, E, R1),
    (  R0 = diff(batch, G), R1 = diff(Cs, G) -> R = diff(Cs, G)
    ;  R0 = rerr(batch, X), R1 = rerr(Cs, X) -> R = rerr(Cs, X)
    ;  R = R0 ).

vt_chars_one(W, Os, T, E, R) :-
    catch((vt_cwrite(W, Os, T, Cs), WR = ok), WE, WR = werr(WE)),
    (  WR = werr(WE1) -> vt_text(WE1, WT), R = werr(WT)
    ;  append(Cs, " .", Cs1),
       catch((read_term_from_chars(Cs1, T1, []), RR = ok), RE, RR = rerr(RE)),
       vt_verdict(RR, Cs, E, T1, R) ).

vt_verdict(RR, Cs, E, T1, R) :-
    (  RR = rerr(RE1) -> vt_text(RE1, ET), R = rerr(Cs, ET)
    ;  vt_accept(E, T1) -> R = ok
    ;  vt_text(T1, GT), R = diff(Cs, GT) ).

vt_wall([], _, _, _, []).
vt_wall([Id-T-E|Ts], W, Os, S, [Id-E-R|Rs]) :-
    catch((vt_swrite(W, Os, S, T), R = ok), WE, R = werr(WE)),
    write(S, ' .'), nl(S),
    vt_wall(Ts, W, Os, S, Rs).
vt_rall([], _, []).
vt_rall([Id-E-WR|Ts], S, [Id-R|Rs]) :-
    catch((read_term(S, T1, []), RR = ok), RE, RR = rerr(RE)),
    (  WR = werr(WE1) -> vt_text(WE1, WT), R = werr(WT)
    ;  vt_verdict(RR, batch, E, T1, R) ),
    vt_rall(Ts, S, Rs).

% one term through its own file (authoritative for the stream legs; also delivers the text)
vt_single(W, Id, R) :- vt_kind(W, K), vt_leg(W, Os, Mode), vt_item(Id, Mode, T, E), vt_single(K, W, Os, T, E, R).
vt_single(chars, W, Os, T, E, R) :- vt_chars_one(W, Os, T, E, R).
vt_single(stream, W, Os, T, E, R) :-
    vt_file(F),
    open(F, write, S),
    catch((vt_swrite(W, Os, S, T), WR = ok), WE, WR = werr(WE)),
    close(S),
    (  WR = werr(WE1) -> vt_text(WE1, WT), R = werr(WT)
    ;  open(F, read, S0), get_n_chars(S0, _, Cs), close(S0),
       open(F, append, S2), write(S2, ' .'), nl(S2), close(S2),
       open(F, read, S1),
       catch((read_term(S1, T1, []), RR = ok), RE, RR = rerr(RE)),
       close(S1),
       vt_verdict(RR, Cs, E, T1, R) ).

vt_ops(L) :- findall(op(P, S, N), current_op(P, S, N), L).

% structural image of an item in a form the embedding API always delivers (it panics on some improper lists):
% v(K) | n(Number) | a(Atom) | c(Functor, [Images])
vt_enc(Id, E) :- vt_t(Id, T, _), vt_enc(T, E, [], _).
vt_enc(T, v(K), Vs0, Vs) :- var(T), !, ( vt_idx(Vs0, T, 0, K) -> Vs = Vs0 ; length(Vs0, K), append(Vs0, [T], Vs) ).
vt_enc(T, n(T), Vs, Vs) :- number(T), !.
vt_enc(T, a(T), Vs, Vs) :- atom(T), !.
vt_enc(T, c(F, Es), Vs0, Vs) :- T =.. [F|As], vt_enc_l(As, Es, Vs0, Vs).
vt_enc_l([], [], Vs, Vs).
vt_enc_l([A|As], [E|Es], Vs0, Vs) :- vt_enc(A, E, Vs0, Vs1), vt_enc_l(As, Es, Vs1, Vs).
vt_idx([V|Vs], T, K0, K) :- ( V == T -> K = K0 ; K1 is K0 + 1, vt_idx(Vs, T, K1, K) ).
"""


# ------------------------------------------------------------------------------------------------
# terms: TLA JSON image -> canonical tuples / Prolog text
# ------------------------------------------------------------------------------------------------

def fix(t):
    """resolve the code-point leaves of WriteRead.tla ("ax", "sx") into ordinary atom / string records"""
    tag = t["t"]
    if tag in ("ax", "sx"):
        return {"t": "a" if tag == "ax" else "s", "n": "".join(chr(int(x["i"])) for x in t["a"]), "i": 0, "a": []}
    if tag == "c":
        return {"t": "c", "n": t["n"], "i": 0, "a": [fix(x) for x in t["a"]]}
    return t


def zero_norm(c):
    """Accept of WriteRead.tla identifies -0.0 with 0.0"""
    if c[0] == 'f' and c[1] == 0x8000000000000000:
        return ('f', 0)
    if c[0] == 'c':
        return ('c', c[1], tuple(zero_norm(x) for x in c[2]))
    return c


def quoted(s, q):
    """quoted item of the input sublanguage: everything that is not a plain graphic character is a \\xHH\\ escape"""
    out = [q]
    for ch in s:
        o = ord(ch)
        if ch == q:
            out.append("\\" + q)
        elif ch == "\\":
            out.append("\\\\")
        elif o < 32 or 127 <= o < 161 or (o > 160 and unicodedata.category(ch)[0] in "ZC"):
            out.append("\\x%x\\" % o)
        else:
            out.append(ch)
    out.append(q)
    return "".join(out)


def qatom(s):
    return quoted(s, "'")


def qstring(s):
    return quoted(s, '"')


class Render:
    """canonical input text: functional notation, every atom quoted, negative numbers built by is/2"""

    def __init__(self):
        self.pre = []
        self.k = 0

    def neg(self, abs_text):
        self.k += 1
        v = "_N%d" % self.k
        self.pre.append("%s is '-'(%s)" % (v, abs_text))
        return v

    def term(self, t):
        tag = t["t"]
        if tag == "v":
            return "_V%s%s" % (t["n"], ("_%d" % t["i"]) if t.get("i") else "")
        if tag == "a":
            return qatom(t["n"])
        if tag == "i":
            k = int(t["i"])
            return str(k) if k >= 0 else self.neg(str(-k))
        if tag == "big":
            k = int(t["n"])
            return str(k) if k >= 0 else self.neg(str(-k))
        if tag == "f":
            bits = int(t["n"], 16)
            if bits == 1 << 63:          # -0.0 is only obtainable by underflow: -(0.0) evaluates to 0.0
                self.k += 1
                self.pre.append("_N%d is '/'('-'(1.0e-300), 1.0e300)" % self.k)
                return "_N%d" % self.k
            if bits >> 63:
                return self.neg(terms.float_text(bits & ((1 << 63) - 1)))
            return terms.float_text(bits)
        if tag == "s":
            return qstring(t["n"])
        if tag == "c":
            if t["n"] == "." and len(t["a"]) == 2:
                items, cur = [], t
                while cur["t"] == "c" and cur["n"] == "." and len(cur["a"]) == 2:
                    items.append(cur["a"][0])
                    cur = cur["a"][1]
                body = ",".join(self.term(x) for x in items)
                if cur["t"] == "a" and cur["n"] == "[]":
                    return "[" + body + "]"
                return "[" + body + "|" + self.term(cur) + "]"
            return qatom(t["n"]) + "(" + ",".join(self.term(x) for x in t["a"]) + ")"
        raise ValueError(t)


class Item:
    __slots__ = ("t", "nv", "needs", "o", "inn", "pos", "oc", "nvdef", "safe", "key", "show")

    def __init__(self, d):
        self.t = fix(d["t"])
        self.nv = fix(d["nv"][0]) if d.get("nv") else None
        self.needs = frozenset((n, int(a)) for n, a in d.get("needs", []))
        self.o = tuple(d["o"]) if "o" in d else ("", 0)
        self.inn = tuple(d["in"]) if "in" in d else ("", 0)
        self.pos = d.get("pos", "sim")
        self.oc = d.get("oc", "random")
        self.nvdef = bool(d["nvdef"])
        self.safe = bool(d["safe"])
        self.key = json.dumps(self.t, sort_keys=True)
        self.show = terms.show(terms.from_tla(self.t))

    def clause(self, i):
        r = Render()
        tt = r.term(self.t)
        if self.nv is not None:
            et = r.term(self.nv)
            if r.pre:
                return "vt_t(%d, T, nv(E)) :- %s, T = %s, E = %s." % (i, ", ".join(r.pre), tt, et)
            return "vt_t(%d, %s, nv(%s))." % (i, tt, et)
        if r.pre:
            return "vt_t(%d, T, same) :- %s, T = %s." % (i, ", ".join(r.pre), tt)
        return "vt_t(%d, %s, same)." % (i, tt)

    def applicable(self, leg, wopts):
        """WriteRead!Applicable, as reported per writer by MC_C15!WInfo"""
        if wopts[leg]["needs_nvdef"] and not self.nvdef:
            return False
        if wopts[leg]["needs_safe"] and not self.safe:
            return False
        return True


def leg_facts(wopts):
    out = []
    for w, info in sorted(wopts.items()):
        o = info["opts"]
        opts = "[quoted(%s),ignore_ops(%s),numbervars(%s)]" % tuple(
            "true" if o[k] else "false" for k in ("quoted", "ignore_ops", "numbervars"))
        out.append("vt_leg(%s, %s, %s)." % (w, opts, info["expect"]))
    return "\n".join(out) + "\n"


def tbl_key(tbl):
    return tuple(sorted((o["n"], o["k"], int(o["p"]), o["s"]) for o in tbl))


def hist_text(hist):
    return "[" + ",".join("op(%d,%s,%s)" % (int(d["p"]), d["s"], qatom(d["n"])) for d in hist) + "]"


class Table:
    def __init__(self, v):
        self.hist = v["hist"]
        self.tbl = v["tbl"]
        self.key = tbl_key(v["tbl"])
        self.shapes = frozenset((o["n"], 2 if o["k"] == "infix" else 1) for o in v["tbl"])
        self.spec = {(o["n"], 2 if o["k"] == "infix" else 1): "%s%d" % (o["s"], int(o["p"])) for o in v["tbl"]}
        # a name that is both prefix and postfix has two arity-1 entries; keep both in the class
        for o in v["tbl"]:
            if o["k"] == "postfix" and any(p["n"] == o["n"] and p["k"] == "prefix" for p in v["tbl"]):
                self.spec[(o["n"], 1)] = "pre+post"
        self.name = hist_text(self.hist)

    def sortkey(self):
        return (len(self.hist), self.name)


def ids_text(ids):
    return "[" + ",".join(str(i) for i in ids) + "]"


class Plan:
    """one table (or simulated behaviour) with its items and legs, prepared as harness jobs"""

    def __init__(self, uid, table, items, legs, wopts, workdir):
        self.uid = uid
        self.table = table
        self.items = items
        self.legs = legs
        self.wopts = wopts
        self.file = os.path.join(workdir, "rt-%s" % uid)
        facts = [leg_facts(wopts)]
        facts += [it.clause(i) for i, it in enumerate(items)]
        self.program = HELPER + "\n".join(facts) + "\n"
        self.ids = {leg: [i for i, it in enumerate(items) if it.applicable(leg, wopts)] for leg in legs}

    def prelude(self, jid="0"):
        # every job writes to a file of its own (jobs of one plan run concurrently)
        steps = [{"consult": self.program + 'vt_file("%s-%s.txt").\n' % (self.file, re.sub(r"[^A-Za-z0-9]", "_", str(jid)))}]
        for d in self.table.hist:
            steps.append({"q": "op(%d, %s, %s)." % (int(d["p"]), d["s"], qatom(d["n"])), "max": 1})
        steps.append({"q": "vt_ops(L).", "max": 1})
        return steps

    def job(self, jid, queries, timeout=600):
        return {"id": jid, "fresh": True, "timeout": timeout,
                "steps": self.prelude(jid) + [{"q": q, "max": 1} for q in queries]}

    def check_prelude(self, res):
        """the real table after the history must be the table of the specification (binding precondition)"""
        n = len(self.table.hist)
        if not res[0].get("ok"):
            raise common.ToolError("C15: consult of the term program failed: %s" % json.dumps(res[0])[:400])
        if "error(" in (res[0].get("out") or ""):
            raise common.ToolError("C15: the term program did not load cleanly: %s" % res[0]["out"][:400])
        for k in range(n):
            if res[1 + k].get("a") != ["T"]:
                raise common.ToolError("C15: admissible declaration refused by op/3 (%s): %s" % (
                    self.table.name, json.dumps(res[1 + k])[:300]))
        a = res[1 + n].get("a")
        if not a or "b" not in a[0]:
            raise common.ToolError("C15: current_op/3 query failed: %s" % json.dumps(res[1 + n])[:300])
        got = set()
        for o in a[0]["b"]["L"].get("l", []):
            p, s, nm = o["args"]
            kind = "prefix" if s["a"] in ("fx", "fy") else "postfix" if s["a"] in ("xf", "yf") else "infix"
            got.add((nm["a"], kind, int(p["i"]), s["a"]))
        if got != set(self.table.key):
            raise common.ToolError("C15: operator table of the real system differs from OpCfg after %s: only real %s, only spec %s" % (
                self.table.name, sorted(got - set(self.table.key)), sorted(set(self.table.key) - got)))


def parse_bad(ans):
    """answer of vt_run -> (N, [(id, kind, text|None, payload)])"""
    b = ans["b"]
    n = int(b["N"]["i"])
    bad = []
    for e in b["Bad"].get("l", []) if "l" in b["Bad"] else []:
        i = int(e["args"][0]["i"])
        bad.append((i,) + parse_r(e["args"][1]))
    return n, bad


def chars_text(x):
    if "s" in x:
        return x["s"]
    if "l" in x:
        return "".join(e.get("a", "?") for e in x["l"])
    if x.get("a") == "[]":
        return ""
    return None


def parse_r(r):
    """result term of the helper -> (kind, written text | None, message text)"""
    if r.get("a") == "ok":
        return ("ok", None, None)
    f, args = r["c"], r["args"]
    if f == "werr":
        return ("werr", None, chars_text(args[0]))
    return (f, chars_text(args[0]), chars_text(args[1]))


class Runner:
    def __init__(self, rep, wopts, workdir):
        self.rep = rep
        self.wopts = wopts
        self.workdir = workdir
        self.groups = {}        # (minimal term, text, outcome) -> [first detail, [(leg, table)]]
        self.records = []       # failing round trips (plan, leg, item index, text, outcome)
        self.failing = {}       # shrinking phase: (plan uid, leg) -> {subterm key: (text, outcome)}
        self.shrinking = False
        self.roundtrips = 0

    def run(self, plans, workers):
        jobs = []
        for p in plans:
            qs = ["vt_run(%s, %s, N, Bad)." % (leg, ids_text(p.ids[leg])) for leg in p.legs]
            jobs.append(p.job(p.uid, qs))
        results = run_jobs(jobs, workers=workers, job_timeout=900)
        retry = []          # (plan, leg, ids)  to be refined
        singles = []        # (plan, leg, id)
        for p in plans:
            r = results.get(p.uid, {"crash": "missing"})
            nh = len(p.table.hist) + 2
            if "res" in r and len(r["res"]) >= nh and "panic" not in r["res"][0]:
                p.check_prelude(r["res"])
            for li, leg in enumerate(p.legs):
                ent = r["res"][nh + li] if "res" in r and len(r["res"]) > nh + li else {"crash": r.get("crash", "no result")}
                a = ent.get("a")
                if a and isinstance(a[0], dict) and "b" in a[0]:
                    n, bad = parse_bad(a[0])
                    if n != len(p.ids[leg]):
                        raise common.ToolError("C15: %s ran %d of %d items" % (leg, n, len(p.ids[leg])))
                    self.account(p, leg, p.ids[leg])
                    for (i, kind, txt, payload) in bad:
                        if txt is None and kind != "werr":
                            singles.append((p, leg, i))        # stream batch: confirm through its own file
                        else:
                            self.judge(p, leg, i, kind, txt, payload)
                else:
                    retry.append((p, leg, p.ids[leg], json.dumps(ent)[:300]))
        # refine legs that did not answer (panic, crash, time-out of the code under test): chunks, then single items
        while retry:
            jobs, meta = [], {}
            for (p, leg, ids, why) in retry:
                if len(ids) <= 8:
                    for i in ids:
                        singles.append((p, leg, i))
                    continue
                step = max(8, len(ids) // 8)
                for c in range(0, len(ids), step):
                    jid = "%s|%s|%d" % (p.uid, leg, len(meta))
                    meta[jid] = (p, leg, ids[c:c + step])
                    jobs.append(p.job(jid, ["vt_run(%s, %s, N, Bad)." % (leg, ids_text(ids[c:c + step]))], timeout=300))
            retry = []
            if not jobs:
                break
            results = run_jobs(jobs, workers=workers, job_timeout=300)
            for jid, (p, leg, ids) in meta.items():
                r = results.get(jid, {"crash": "missing"})
                ent = r["res"][-1] if "res" in r and len(r["res"]) == len(p.table.hist) + 3 else {"crash": r.get("crash", "no result")}
                a = ent.get("a")
                if a and isinstance(a[0], dict) and "b" in a[0]:
                    n, bad = parse_bad(a[0])
                    self.account(p, leg, ids)
                    for (i, kind, txt, payload) in bad:
                        if txt is None and kind != "werr":
                            singles.append((p, leg, i))
                        else:
                            self.judge(p, leg, i, kind, txt, payload)
                else:
                    retry.append((p, leg, ids, json.dumps(ent)[:300]))
        # single items: authoritative, with the written text
        byplan = {}
        for (p, leg, i) in singles:
            byplan.setdefault(p.uid, (p, []))[1].append((leg, i))
        jobs, meta = [], {}
        for uid, (p, lst) in byplan.items():
            for c in range(0, len(lst), 40):
                jid = "%s|single|%d" % (uid, c)
                meta[jid] = (p, lst[c:c + 40])
                jobs.append(p.job(jid, ["vt_single(%s, %d, R)." % (leg, i) for (leg, i) in lst[c:c + 40]], timeout=300))
        results = run_jobs(jobs, workers=workers, job_timeout=300) if jobs else {}
        lone = []
        for jid, (p, lst) in meta.items():
            r = results.get(jid, {"crash": "missing"})
            nh = len(p.table.hist) + 2
            for k, (leg, i) in enumerate(lst):
                ent = r["res"][nh + k] if "res" in r and len(r["res"]) > nh + k else None
                a = ent.get("a") if ent else None
                if a and isinstance(a[0], dict) and "b" in a[0]:
                    kind, txt, payload = parse_r(a[0]["b"]["R"])
                    if kind != "ok":
                        self.judge(p, leg, i, kind, txt, payload)
                elif ent is not None and "panic" in ent:
                    self.judge(p, leg, i, "panic", None, ent["panic"])
                    # the machine may be unusable after a panic: the rest of this job is re-run one by one
                    lone += [(p, l2, i2) for (l2, i2) in lst[k + 1:]]
                    break
                else:
                    lone.append((p, leg, i))
        jobs, meta = [], {}
        for (p, leg, i) in lone:
            jid = "%s|lone|%s|%d" % (p.uid, leg, i)
            meta[jid] = (p, leg, i)
            jobs.append(p.job(jid, ["vt_single(%s, %d, R)." % (leg, i)], timeout=120))
        results = run_jobs(jobs, workers=workers, job_timeout=120) if jobs else {}
        for jid, (p, leg, i) in meta.items():
            r = results.get(jid, {"crash": "missing"})
            ent = r["res"][-1] if "res" in r and len(r["res"]) == len(p.table.hist) + 3 else {"crash": r.get("crash", "no result")}
            a = ent.get("a")
            if a and isinstance(a[0], dict) and "b" in a[0]:
                kind, txt, payload = parse_r(a[0]["b"]["R"])
                if kind != "ok":
                    self.judge(p, leg, i, kind, txt, payload)
            elif "panic" in ent:
                self.judge(p, leg, i, "panic", None, ent["panic"])
            else:
                self.judge(p, leg, i, "crash", None, json.dumps(ent)[:200])

    def account(self, p, leg, ids):
        if self.shrinking:
            return
        rep = self.rep
        spec = p.table.spec
        for i in ids:
            it = p.items[i]
            rep.case((leg, it.pos, it.oc, spec.get(it.o, "-"), spec.get(it.inn, "-")))
        self.roundtrips += len(ids)

    def judge(self, p, leg, i, kind, txt, payload):
        if kind == "diff":
            outcome = "read back as %s" % payload
        elif kind == "rerr":
            outcome = "read error %s" % payload
        elif kind == "werr":
            outcome = "writer threw %s" % payload
        else:
            outcome = "%s %s" % (kind, payload)
        outcome = re.sub(r"_[0-9]+", "_", outcome)
        if self.shrinking:
            self.failing.setdefault((p.uid, leg), {})[p.items[i].key] = (txt, outcome)
        else:
            self.records.append((p, leg, i, txt, outcome))

    def shrink(self, workers):
        """Every failing round trip is reduced to a minimal failing subterm: the subterms of the failing terms are
        submitted to the same writer under the same table, and a failure is reported for (the first, in pre-order)
        subterm that fails while none of its own subterms does. This makes the signature name the defect, not the
        term it happened to occur in."""
        byplan = {}
        for rec in self.records:
            byplan.setdefault(rec[0].uid, []).append(rec)
        subplans = []
        for uid, recs in sorted(byplan.items()):
            plan = recs[0][0]
            sub = {}
            for (_, leg, i, _, _) in recs:
                it = plan.items[i]
                for st, snv in subterms(it.t, it.nv):
                    k = json.dumps(st, sort_keys=True)
                    if k != it.key and k not in sub:
                        sub[k] = Item({"t": st, "nv": [snv] if snv is not None else [], "nvdef": True, "safe": True})
            if sub:
                subplans.append(Plan("k" + uid, plan.table, list(sub.values()), sorted(set(r[1] for r in recs)), self.wopts, self.workdir))
        self.shrinking = True
        self.failing = {}
        if subplans:
            self.run(subplans, workers)
        self.shrinking = False
        for (p, leg, i, txt, outcome) in self.records:
            it = p.items[i]
            fails = self.failing.get(("k" + p.uid, leg), {})
            mt, mnv, mtxt, mout = it.t, it.nv, txt, outcome
            for st, snv in subterms(it.t, it.nv):
                k = json.dumps(st, sort_keys=True)
                if k == it.key or k not in fails:
                    continue
                if not any(json.dumps(x, sort_keys=True) in fails for x, _ in list(subterms(st, None))[1:]):
                    mt, mnv, (mtxt, mout) = st, snv, fails[k]
                    break
            show = "%s shape=%s" % (terms.show(terms.from_tla(mt)), shape(mt, p.table))
            g = (show, mtxt, mout)
            if g in self.groups:
                self.groups[g][1].append((leg, p.table.name))
                continue
            self.groups[g] = [{"hist": p.table.hist, "leg": leg, "term": mt, "nv": mnv,
                               "text": mtxt, "outcome": mout, "found_in": {"term": it.show, "text": txt, "outcome": outcome},
                               "class": [it.pos, it.oc, list(it.o), list(it.inn)]}, [(leg, p.table.name)]]

    def report(self):
        for (show, txt, outcome), (detail, where) in sorted(self.groups.items(), key=lambda kv: (kv[0][0], str(kv[0][1]))):
            legs = sorted(set(l for l, _ in where))
            tabs = sorted(set(t for _, t in where), key=lambda s: (len(s), s))
            detail["seen_in"] = {"legs": legs, "tables": tabs[:20], "count": len(where)}
            sig = "term=%s text=%s => %s [legs=%s tables=%d first=%s]" % (
                show, json.dumps(txt, ensure_ascii=False), outcome, ",".join(legs), len(tabs), tabs[0])
            self.rep.violation(sig, detail)


def kind(t, tb, deep):
    tag = t["t"]
    if tag == "v":
        return "var"
    if tag == "a":
        return "opatom" if ((t["n"], 1) in tb.spec or (t["n"], 2) in tb.spec) else "atom"
    if tag in ("i", "big", "f"):
        neg = int(t["i"]) < 0 if tag == "i" else t["n"].startswith("-") if tag == "big" else int(t["n"], 16) >> 63 == 1
        return "neg" if neg else "num"
    if tag == "s":
        return "str"
    if t["n"] == "." and len(t["a"]) == 2:
        return "list"
    nm = t["n"].replace(",", "comma").replace(" ", "_")
    if deep:
        return "c:%s/%d<%s>" % (nm, len(t["a"]), kind(t["a"][0], tb, False))
    return "c:%s/%d" % (nm, len(t["a"]))


def shape(t, tb):
    """structural description of a failing term for the signature: principal functor and, per argument, its kind
    (opatom = an atom that is an operator of the table; for a compound argument also the kind of ITS first argument)
    and the kind of the leftmost leaf (lm)"""
    if t["t"] == "c" and not (t["n"] == "." and len(t["a"]) == 2):
        lm = t
        while lm["t"] == "c" and not (lm["n"] == "." and len(lm["a"]) == 2):
            lm = lm["a"][0]
        return "%s/%d(%s) lm=%s" % (t["n"].replace(",", "comma").replace(" ", "_"), len(t["a"]),
                                    ",".join(kind(x, tb, True) for x in t["a"]), kind(lm, tb, False))
    return kind(t, tb, False)


def subterms(t, nv):
    """(subterm, corresponding subterm of the numbervars image) of a TLA term, in pre-order, the term itself first"""
    yield t, nv
    if t["t"] == "c":
        if nv is not None and (nv["t"] != "c" or nv["n"] != t["n"] or len(nv["a"]) != len(t["a"])):
            return          # a '$VAR'(N) node that the image replaces by a variable: its argument is no position of the image
        for k, x in enumerate(t["a"]):
            for y in subterms(x, nv["a"][k] if nv is not None else None):
                yield y


def dec_image(e):
    """image delivered by vt_enc/2 -> canonical tuple"""
    f, args = e["c"], e["args"]
    if f == "v":
        return ('v', "_G%s" % args[0]["i"])
    if f == "n":
        return terms.from_h(args[0])
    if f == "a":
        return ('a', args[0]["a"]) if "a" in args[0] else ('a', '[]')
    name = args[0]["a"] if "a" in args[0] else '[]'
    sub = args[1].get("l", []) if isinstance(args[1], dict) else []
    return ('c', name, tuple(dec_image(x) for x in sub))


def check_built(plan, workers, rep):
    """binding precondition: every item, as built in the real system from its canonical text, IS the term of the
    specification (structural image, numbers exact, floats by bits). A mismatch is a tool error, not a finding of C15."""
    n = len(plan.items)
    nh = len(plan.table.hist) + 2
    jobs = {"built%d" % c: list(range(c, min(n, c + 1000))) for c in range(0, n, 1000)}
    results = run_jobs([plan.job(j, ["vt_enc(%d, E)." % i for i in ids], timeout=600) for j, ids in jobs.items()],
                       workers=workers, job_timeout=600)
    for j, ids in jobs.items():
        r = results.get(j, {})
        if "res" not in r or len(r["res"]) != nh + len(ids):
            raise common.ToolError("C15: could not build the items: %s" % json.dumps(r)[:400])
        plan.check_prelude(r["res"])
        for k, ent in enumerate(r["res"][nh:]):
            it = plan.items[ids[k]]
            a = ent.get("a")
            if not a or not isinstance(a[0], dict) or "b" not in a[0]:
                raise common.ToolError("C15: item %s was not built: %s" % (it.show, json.dumps(ent)[:300]))
            # -0.0 and 0.0 are identified: the float table of the machine interns them as one value (which of
            # the two a computation delivers depends on what was interned before), as the property anticipates
            got = zero_norm(dec_image(a[0]["b"]["E"]))
            if not terms.variant(zero_norm(terms.from_tla(it.t)), got):
                raise common.ToolError("C15: item %s was built as %s" % (it.show, terms.show(got)))
    rep.extra["items_built_and_verified"] = n


def load_vectors(vecs):
    tables, items, wopts, sims = {}, [], None, []
    seen = set()
    for v in vecs:
        k = v["kind"]
        if k == "table":
            t = Table(v)
            if t.key not in tables or t.sortkey() < tables[t.key].sortkey():
                tables[t.key] = t
        elif k == "terms":
            for d in sorted(v["items"], key=lambda d: json.dumps(d, sort_keys=True)):
                it = Item(d)
                if it.key not in seen:
                    seen.add(it.key)
                    items.append(it)
        elif k == "writers":
            wopts = v["w"]
        elif k == "sim":
            sims.append(v)
    return sorted(tables.values(), key=Table.sortkey), items, wopts, sims


def run(tier):
    rep = Report(PROP, tier, META["level"])
    quick = tier == "quick"
    rep.rule = ("tables: every table reachable by <= %d admissible declarations from the curated set of MC_C15 (TableOk checked "
                "on each); terms per table: the base vocabulary plus every item of the operator-term universe whose operator "
                "shapes are operators of the table (depth <= 2: operator x operand class x position, inner operator terms in "
                "every position); each (table, term, writer) is one round trip. distinct = distinct (writer, position, operand "
                "class, specifier+priority of outer operator, of inner operator)" % (2 if quick else 3))
    workdir = os.path.join(common.WORK, "c15", "run-%d" % os.getpid())
    os.makedirs(workdir, exist_ok=True)
    t0 = time.time()
    phases = {}
    res, vecs = generate("MC_C15", "MC_C15_%s.cfg" % tier, workers=8 if quick else 12, timeout=3000)
    rep.add_tlc(res)
    phases["tlc"] = round(time.time() - t0, 1)
    tables, items, wopts, _ = load_vectors(vecs)
    if not tables or not items or not wopts:
        raise common.ToolError("C15: no vectors")
    if tables[0].hist:
        raise common.ToolError("C15: the initial table is missing")
    all_legs = [l for l in STREAM_LEGS + CHARS_LEGS if l in wopts]
    plans = []
    for ti, tb in enumerate(tables):
        sel = [it for it in items if it.needs <= tb.shapes]
        legs = all_legs if (len(tb.hist) == 0 or (not quick and len(tb.hist) <= 1)) else list(CORE_LEGS)
        plans.append(Plan("t%d" % ti, tb, sel, legs, wopts, workdir))
    t0 = time.time()
    check_built(Plan("b0", tables[0], items, [], wopts, workdir), 8, rep)
    phases["built"] = round(time.time() - t0, 1)
    t0 = time.time()
    runner = Runner(rep, wopts, workdir)
    runner.run(plans, workers=8 if quick else 14)
    phases["round_trips"] = round(time.time() - t0, 1)
    rep.extra["phase_seconds"] = phases
    nbeh = len(plans)
    if not quick:
        sims = common.simulate_parallel("MC_C15", "MC_C15_sim.cfg", procs=10, num=30, depth=6, timeout=3000)
        splans = []
        for si, sim in enumerate(sims):
            common.tlc_ok(sim, "C15 simulation")
            rep.add_tlc(sim)
            for vi, v in enumerate(sim.printed()):
                if v.get("kind") != "sim":
                    continue
                tb = Table(v)
                seen, its = set(), []
                for d in v["items"]:
                    it = Item(d)
                    if it.key not in seen:
                        seen.add(it.key)
                        its.append(it)
                splans.append(Plan("s%d_%d" % (si, vi), tb, its, list(CORE_LEGS), wopts, workdir))
        runner.run(splans, workers=14)
        nbeh += len(splans)
        rep.extra["simulated_histories"] = len(splans)
    t0 = time.time()
    runner.shrink(8 if quick else 14)
    phases["shrink"] = round(time.time() - t0, 1)
    runner.report()
    for it in items[:: max(1, len(items) // 5)]:
        rep.sample({"term": it.show, "needs": sorted(list(x) for x in it.needs), "class": [it.pos, it.oc]})
    rep.traces = nbeh
    rep.extra["tables"] = len(tables)
    rep.extra["universe_items"] = len(items)
    rep.extra["round_trips"] = runner.roundtrips
    rep.extra["writers"] = all_legs
    rep.extra["print/1"] = "not exercised: print/1 does not exist in this system"
    rep.exhaustive = False
    rep.assumptions = ["TLC", "canonical input sublanguage read under the default table", "subsumes_term/2 as first-pass filter",
                       "op/3 behaves as OpCfg on admissible declarations (checked against current_op/3 in every job)"]
    try:
        for f in os.listdir(workdir):
            os.remove(os.path.join(workdir, f))
        os.rmdir(workdir)
    except OSError:
        pass
    return rep.finish()


def replay(path):
    d = json.load(open(path))
    det = d["detail"]
    workdir = os.path.join(common.WORK, "c15", "replay-%d" % os.getpid())
    os.makedirs(workdir, exist_ok=True)
    res, vecs = generate("MC_C15", "MC_C15_quick.cfg", workers=4, timeout=3000)
    _, _, wopts, _ = load_vectors(vecs)
    tb = Table({"hist": det["hist"], "tbl": []})
    it = Item({"t": det["term"], "nv": [det["nv"]] if det.get("nv") else [], "nvdef": True, "safe": True})
    p = Plan("r0", tb, [it], [det["leg"]], wopts, workdir)
    job = p.job("r0", ["vt_single(%s, 0, R)." % det["leg"]], timeout=120)
    job["steps"] = [s for s in job["steps"] if s.get("q") != "vt_ops(L)."]
    r = run_jobs([job], workers=1, job_timeout=120)["r0"]
    print("history:", tb.name, " leg:", det["leg"], " term:", it.show)
    print("recorded:", json.dumps(det.get("text"), ensure_ascii=False), "=>", det.get("outcome"))
    ent = r["res"][-1] if "res" in r else r
    print("now:", json.dumps(ent, ensure_ascii=False)[:1500])
    a = ent.get("a") if isinstance(ent, dict) else None
    if a and isinstance(a[0], dict) and "b" in a[0]:
        kind, txt, payload = parse_r(a[0]["b"]["R"])
        print("verdict:", kind, json.dumps(txt, ensure_ascii=False), terms.show(payload) if payload and kind != "ok" else "")
        return 0 if kind == "ok" else 1
    return 1
