"""C34 - Large and deeply nested terms never crash the process."""
import json
import os
import resource
import shutil
import subprocess
import threading
import time

from lib import common
from lib.common import Report, generate, build_harness

PROP = "C34"
META = {
    "level": "exploration",
    "text": "spec/BigTerms.tla is a thin model: a case is an operation (read from chars / from a file, write to chars, copy_term, "
            "==, compare, =, assertz+call of a fact and of a long clause body, findall copy, length, term_variables, ground, "
            "keysort/sort, consult of a fact and of a long body, throw/catch, numbervars) on a term of one of 7 shapes (long list, "
            "right-nested f(f(..)), left-nested ((0-1)-2).., nested lists [[[..]]], long conjunction, list of variables, wide "
            "structure) and size n; it ends with the closed-form answer of the model or with a Prolog resource error, and the "
            "process state 'crashed' is unreachable. TLC enumerates the case table and computes the closed forms. Every case runs "
            "in a fresh child process (sv-harness exec, default 8 MiB main-thread stack, address space capped) whose exit status "
            "and answer are compared with the allowed ends.",
    "note": "Exploration level with reduced scope (DESIGN.md section 9): why a process dies (native stack depth) cannot be expressed "
            "in the model; the model contributes the enumeration and the functional oracle, the observation is the exit status. "
            "The harness is a dev-profile build (opt-level 1): native frames are larger than in a release build, so the smallest "
            "crashing size observed here is a lower bound for a release binary (a recursion whose depth is the term depth overflows "
            "any fixed stack at some size). A case that neither answers nor fails within the time limit (quick 300 s, thorough "
            "1200 s per case; normal: seconds) is reported as 'no outcome'. Trusted: TLC, the term builders (tail-recursive "
            "Prolog), sv-harness.",
    "technique": "TLA+ case table with closed-form oracle enumerated by TLC; every case executed in a fresh child process, "
                 "exit status and answer observed",
}

HELPERS = r"""
:- use_module(library(lists)).
:- use_module(library(between)).
:- use_module(library(charsio)).
:- use_module(library(terms)).
:- dynamic(big/1).
:- dynamic(c0/0).

% ---- builders (tail recursive, accumulator based: no deep recursion in the builders themselves)
mklist(N, Last, T) :- N1 is N - 1, bl(N1, [Last], T).
bl(0, T, T) :- !.
bl(I, A, T) :- I1 is I - 1, bl(I1, [I|A], T).
rnest(0, T, T) :- !.
rnest(N, T0, T) :- N1 is N - 1, rnest(N1, f(T0), T).
lnest(I, N, Last, T0, T) :- ( I =:= N -> T = T0-Last ; I1 is I + 1, lnest(I1, N, Last, T0-I, T) ).
dl(0, T, T) :- !.
dl(N, T0, T) :- N1 is N - 1, dl(N1, [T0], T).
cj(0, T, T) :- !.
cj(N, T0, T) :- N1 is N - 1, cj(N1, (true,T0), T).
fill(0, _, _, _) :- !.
fill(I, K, Last, T) :- ( I =:= 250 -> mklist(K, Last, L) ; mklist(K, K, L) ), arg(I, T, L), I1 is I - 1, fill(I1, K, Last, T).

mk(list, N, T) :- mklist(N, N, T).
mk(rnest, N, T) :- rnest(N, a, T).
mk(lnest, N, T) :- lnest(1, N, N, 0, T).
mk(dlist, N, T) :- dl(N, [], T).
mk(conj, N, T) :- cj(N, true, T).
mk(vars, N, T) :- length(T, N).
mk(wide, N, T) :- K is N // 250, functor(T, w, 250), fill(250, K, K, T).

% the sibling: differs at the place visited last
sib(list, N, T) :- N1 is N + 1, mklist(N, N1, T).
sib(rnest, N, T) :- rnest(N, b, T).
sib(lnest, N, T) :- N1 is N + 1, lnest(1, N, N1, 0, T).
sib(dlist, N, T) :- dl(N, [a], T).
sib(conj, N, T) :- cj(N, fail, T).
sib(wide, N, T) :- K is N // 250, K1 is K + 1, functor(T, w, 250), fill(250, K, K1, T).

tf(G, R) :- ( call(G) -> R = true ; R = false ).
prs([], A, A).
prs([I|Is], A, Ps) :- prs(Is, [I-I|A], Ps).

c34(eq, S, N, R) :- mk(S, N, T), mk(S, N, T2), tf(T == T2, R).
c34(neq, S, N, R) :- mk(S, N, T), sib(S, N, T2), tf(T == T2, R).
c34(compare, S, N, R) :- mk(S, N, T), sib(S, N, T2), compare(R, T, T2).
c34(unify, S, N, R) :- mk(S, N, T), mk(S, N, T2), tf(T = T2, R).
c34(unify_fail, S, N, R) :- mk(S, N, T), sib(S, N, T2), tf(T = T2, R).
c34(copy, S, N, R) :- mk(S, N, T), copy_term(T, C), tf(C == T, R).
c34(copy_vars, S, N, R) :- mk(S, N, T), copy_term(T, C), term_variables(C, Vs), length(Vs, R).
c34(findall, S, N, R) :- mk(S, N, T), findall(T, true, L), tf(( L = [C], C == T ), R).
c34(assert, S, N, R) :- mk(S, N, T), assertz(big(T)), tf(( big(X), X == T ), R).
c34(assert_body, S, N, R) :- mk(S, N, T), assertz((c0 :- T)), tf(c0, R).
c34(length, S, N, R) :- mk(S, N, T), length(T, R).
c34(length_gen, _, N, R) :- length(T, N), length(T, R).
c34(term_variables, S, N, R) :- mk(S, N, T), term_variables(T, Vs), length(Vs, R).
c34(ground, S, N, R) :- mk(S, N, T), tf(ground(T), R).
c34(keysort, S, N, R) :- mk(S, N, T), prs(T, [], Rv), reverse(Rv, Ps), keysort(Rv, Sd), tf(Sd == Ps, R).
c34(sort, S, N, R) :- mk(S, N, T), reverse(T, Rv), append(Rv, T, D), sort(D, Sd), length(Sd, R).
c34(write, S, N, R) :- mk(S, N, T), write_term_to_chars(T, [quoted(true)], Cs), length(Cs, R).
c34(read_chars, S, N, R) :-
    mk(S, N, T), write_term_to_chars(T, [quoted(true)], Cs0), append(Cs0, " .", Cs),
    read_term_from_chars(Cs, T2, []), tf(T2 == T, R).
c34(throw, S, N, R) :- mk(S, N, T), catch(throw(T), B, true), tf(B == T, R).
c34(numbervars, S, N, R) :- mk(S, N, T), numbervars(T, 0, R).
c34(read_file(F), S, N, R) :- mk(S, N, T), open(F, read, St), read_term(St, T2, []), close(St), tf(T2 == T, R).
c34(consult_fact(F), S, N, R) :- mk(S, N, T), consult(F), tf(( big(X), X == T ), R).
c34(consult_body(F), _, _, R) :- consult(F), tf(c0, R).
"""


def term_text(shape, n):
    """canonical text of the term of a shape (for the read_file / consult cases), functional notation"""
    if shape == "list":
        return "[" + ",".join(str(i) for i in range(1, n + 1)) + "]"
    if shape == "rnest":
        return "f(" * n + "a" + ")" * n
    if shape == "lnest":
        return "(" * n + "0" + "".join("-%d)" % i for i in range(1, n + 1))
    if shape == "dlist":
        return "[" * n + "[]" + "]" * n
    if shape == "conj":
        return "(" + "true," * n + "true" + ")"
    if shape == "wide":
        k = n // 250
        one = "[" + ",".join(str(i) for i in range(1, k + 1)) + "]"
        return "w(" + ",".join([one] * 250) + ")"
    raise common.ToolError("no text for shape " + shape)


def _limits(mem_gb):
    def f():
        try:
            resource.setrlimit(resource.RLIMIT_AS, (int(mem_gb * (1 << 30)), int(mem_gb * (1 << 30))))
            resource.setrlimit(resource.RLIMIT_STACK, (8 << 20, 8 << 20))      # the default a user gets
            resource.setrlimit(resource.RLIMIT_CORE, (0, 0))
        except Exception:
            pass
        os.setsid()
    return f


def prepare(v, wdir):
    """query text (and input file) of one case"""
    op, shape, n = v["op"], v["shape"], v["n"]
    goal = op
    if op in ("read_file", "consult_fact", "consult_body"):
        path = os.path.join(wdir, "%s_%s_%d.pl" % (op, shape, n))
        with open(path, "w") as f:
            if op == "read_file":
                f.write(term_text(shape, n) + " .\n")
            elif op == "consult_fact":
                f.write(":- dynamic(big/1).\nbig(" + term_text(shape, n) + ").\n")
            else:
                f.write("c0 :- " + "true,\n" * n + "true.\n")
        goal = "%s('%s')" % (op, path)
    return "catch(c34(%s, %s, %d, R), error(E, _), R = err(E))." % (goal, shape, n)


def run_case(binary, v, wdir, timeout, mem_gb=12):
    """one case in a fresh child process; returns dict(kind=answer|resource_error|crashed|panic|wrong|timeout, ...)"""
    q = prepare(v, wdir)
    job = {"id": 0, "fresh": True, "steps": [{"consult": HELPERS}, {"q": q, "max": 2}]}
    t0 = time.time()
    p = subprocess.Popen([binary, "exec"], stdin=subprocess.PIPE, stdout=subprocess.PIPE, stderr=subprocess.PIPE,
                         preexec_fn=_limits(mem_gb))
    try:
        out, err = p.communicate((json.dumps(job) + "\n").encode(), timeout=timeout)
    except subprocess.TimeoutExpired:
        try:
            os.killpg(p.pid, 9)
        except Exception:
            pass
        p.communicate()
        return {"kind": "timeout", "detail": "no outcome within %d s" % timeout, "secs": time.time() - t0}
    secs = time.time() - t0
    err = err.decode("utf-8", "replace")
    rc = p.returncode
    line = out.decode("utf-8", "replace").strip().splitlines()
    res = None
    if line:
        try:
            res = json.loads(line[0])
        except Exception:
            res = None
    if res is None or "res" not in res or len(res["res"]) < 2:
        why = "exit status %s" % rc
        if rc is not None and rc < 0:
            import signal
            try:
                why = "killed by %s" % signal.Signals(-rc).name
            except Exception:
                pass
        tail = " ".join(err.split())[-200:]
        if "overflowed its stack" in err:
            why += " (native stack overflow)"
        elif "memory allocation" in err:
            why += " (allocation failure abort)"
        return {"kind": "crashed", "detail": why, "stderr": tail, "secs": secs}
    qr = res["res"][1]
    if "panic" in qr:
        return {"kind": "panic", "detail": " ".join(qr["panic"].split())[:200], "secs": secs}
    a = qr.get("a", [])

    def is_resource(t):
        return isinstance(t, dict) and t.get("c") == "resource_error"
    got = None
    if a and isinstance(a[0], dict):
        if "b" in a[0] and "R" in a[0]["b"]:
            r = a[0]["b"]["R"]
            if "i" in r:
                got = r["i"]
            elif "a" in r:
                got = r["a"]
            elif r.get("c") == "err" and is_resource(r["args"][0]):
                return {"kind": "resource_error", "detail": json.dumps(r["args"][0])[:100], "secs": secs}
            else:
                got = json.dumps(r)[:200]
        elif "e" in a[0] or "x" in a[0]:
            t = a[0].get("e") or a[0].get("x")
            if t.get("c") == "error" and is_resource(t["args"][0]):
                return {"kind": "resource_error", "detail": json.dumps(t["args"][0])[:100], "secs": secs}
            got = json.dumps(t)[:200]
    elif a:
        got = {"T": "true", "F": "false (the query failed)"}.get(a[0], str(a[0]))
    if got == v["expect"]:
        return {"kind": "answer", "detail": got, "secs": secs}
    return {"kind": "wrong", "detail": "expected %s got %s" % (v["expect"], got), "secs": secs}


def run(tier):
    rep = Report(PROP, tier, META["level"])
    rep.rule = ("TLC enumerates op x applicable shape x size (quick: 10^3, 10^4, 10^5; thorough: also 10^6) with the closed-form "
                "answer; every case is one fresh child process. distinct = (op, shape, size)")
    res, vecs = generate("MC_C34", "MC_C34_%s.cfg" % tier, workers=2, timeout=600,
                         key=lambda v: "%s/%s/%09d" % (v["op"], v["shape"], v["n"]))
    rep.add_tlc(res)
    if not vecs:
        raise common.ToolError("no cases generated")
    for v in vecs:
        if sorted(v["allowed"]) != ["answer", "resource_error"]:
            raise common.ToolError("unexpected allowed set %r" % (v,))
    binary, degraded = build_harness(True)
    rep.degraded = degraded
    wdir = os.path.join(common.WORK, "c34", str(os.getpid()))
    shutil.rmtree(wdir, ignore_errors=True)
    os.makedirs(wdir, exist_ok=True)
    tmo = 300 if tier == "quick" else 1200
    results = [None] * len(vecs)
    # big cases first so that the pool drains evenly
    order = sorted(range(len(vecs)), key=lambda i: -vecs[i]["n"])
    lock = threading.Lock()

    def worker():
        while True:
            with lock:
                if not order:
                    return
                i = order.pop(0)
            try:
                results[i] = run_case(binary, vecs[i], wdir, tmo)
            except Exception as e:  # noqa
                results[i] = {"kind": "tool", "detail": repr(e), "secs": 0}

    ths = [threading.Thread(target=worker) for _ in range(4)]
    for t in ths:
        t.start()
    for t in ths:
        t.join()
    shutil.rmtree(wdir, ignore_errors=True)
    counts = {}
    slow = []
    for v, r in zip(vecs, results):
        if r["kind"] == "tool":
            raise common.ToolError("could not run case %r: %s" % (v, r["detail"]))
        rep.case((v["op"], v["shape"], v["n"]))
        counts[r["kind"]] = counts.get(r["kind"], 0) + 1
        if r["secs"] > 60:
            slow.append("%s/%s/%d %.0fs" % (v["op"], v["shape"], v["n"], r["secs"]))
        if r["kind"] in v["allowed"]:
            continue
        sig = "%s op=%s shape=%s n=%d: %s" % (r["kind"], v["op"], v["shape"], v["n"], r["detail"])
        rep.violation(sig, {"vector": v, "result": r})
    for v, r in list(zip(vecs, results))[:: max(1, len(vecs) // 5)]:
        rep.sample({"case": "%s/%s/%d" % (v["op"], v["shape"], v["n"]), "expected": v["expect"], "observed": r["kind"],
                    "seconds": round(r["secs"], 1)})
    rep.traces = len(vecs)
    rep.exhaustive = True
    rep.extra["outcomes"] = counts
    rep.extra["slow_cases"] = slow[:20]
    rep.assumptions = ["TLC", "spec/BigTerms.tla closed forms", "Prolog term builders", "dev-profile harness build (opt-level 1)",
                       "8 MiB main-thread stack, 12 GiB address space"]
    return rep.finish()


def replay(path):
    d = json.load(open(path))
    v = d["detail"]["vector"]
    binary, _ = build_harness(True)
    wdir = os.path.join(common.WORK, "c34", "replay-%d" % os.getpid())
    os.makedirs(wdir, exist_ok=True)
    r = run_case(binary, v, wdir, 1200)
    shutil.rmtree(wdir, ignore_errors=True)
    print("case %s/%s/%d expected %s or a resource error" % (v["op"], v["shape"], v["n"], v["expect"]))
    print("observed:", json.dumps(r))
    return 0 if r["kind"] in v["allowed"] else 1
