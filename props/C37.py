"""C37 - Hashes and encodings are byte-exact (REDUCED SCOPE: encodings exactly; for library(crypto) only the laws
that can be stated without computing a digest or a ciphertext)."""
import json
import os

from lib import common, terms
from lib.common import Report, run_tlc, tlc_ok, run_jobs

PROP = "C37"

META = {
    "level": "model_checking",
    "text": "REDUCED SCOPE (DESIGN.md section 9): the VALUES of digests, HMACs, ciphertexts and tags are NOT decided by this "
            "check. Decided: (1) hex_bytes/2, chars_base64/3 (padding and charset options) and chars_utf8bytes/2 are "
            "specified byte-exactly in TLA+ (spec/Codec.tla: Base16/Base64 of RFC 4648, UTF-8 of RFC 3629 with overlong, "
            "surrogate and out-of-range rejection); TLC enumerates all byte/character sequences up to length 3 (quick) / 4 "
            "(thorough) over boundary alphabets plus samples up to 64 bytes, in both directions, checks "
            "Decode(Encode(x)) = x inside the specification, and every case is replayed against the real predicates "
            "(result, rejection, and decode-after-encode identity). (2) For crypto_data_hash/3 and "
            "crypto_data_encrypt/6, crypto_data_decrypt/6 the hash functions and the cipher are uninterpreted "
            "(spec/CryptoLaws.tla); a TLC-generated workload over all 11 algorithms, both encodings and HMAC keys is executed "
            "and the observations are validated by TLC (Trace_C37): output length per algorithm, lower-case hex, the "
            "hash is a function of (algorithm, key, bytes) (determinism, utf8/octet equivalence), hmac(Key) changes the value, "
            "distinct data/algorithms give distinct digests, HMAC only for sha256/384/512, verification with an "
            "instantiated hash, the one digest documented in crypto.pl; chacha20-poly1305: key/nonce sizes, ciphertext "
            "length, 16-byte tag, determinism, stream-cipher keystream consistency, decrypt(encrypt(p)) = p, and rejection "
            "of tampered tag/ciphertext/AAD/key/nonce.",
    "note": "Not decided: whether a digest/MAC/ciphertext/tag has the value the reference algorithm prescribes (a wrong but "
            "deterministic, well-formed, collision-free hash would pass); transcribing SHA-2/SHA-3/BLAKE2/RIPEMD/ChaCha20 "
            "into TLA+ is out of scope (DESIGN.md section 9). Collision resistance of the hash functions is assumed by the "
            "distinctness laws. Trusted: TLC, the canonical-text renderer and LeafAnswer projection of the harness. Only "
            "features compiled into the harness (crypto-full) are exercised.",
    "technique": "TLA+ byte-level specification of the encodings enumerated by TLC and replayed; uninterpreted-function laws "
                 "for hashing and authenticated encryption validated on recorded traces by TLC",
}

PROG = r"""
:- use_module(library(crypto)).
:- use_module(library(charsio)).
:- use_module(library(lists)).
hexenc(Bs, R) :-
    catch(( hex_bytes(H, Bs) ->
            maplist(char_code, H, Hc),
            ( hex_bytes(H, B2) -> R = ok(Hc, B2) ; R = ok(Hc, nodecode) )
          ; R = no ), error(E, _), R = err(E)).
hexdec(Codes, R) :-
    maplist(char_code, Cs, Codes),
    catch(( hex_bytes(Cs, Bs) -> R = ok(Bs) ; R = no ), error(E, _), R = err(E)).
hexrel(Codes, Bs, R) :-
    maplist(char_code, Cs, Codes),
    catch(( hex_bytes(Cs, Bs) -> R = yes ; R = no ), error(E, _), R = err(E)).
b64enc(Codes, Opts, R) :-
    maplist(char_code, Cs, Codes),
    catch(( chars_base64(Cs, B, Opts) ->
            maplist(char_code, B, Bc),
            ( chars_base64(C2, B, Opts) -> maplist(char_code, C2, C2c), R = ok(Bc, C2c) ; R = ok(Bc, nodecode) )
          ; R = no ), error(E, _), R = err(E)).
b64dec(Codes, Opts, R) :-
    maplist(char_code, Bs, Codes),
    catch(( chars_base64(Cs, Bs, Opts) -> maplist(char_code, Cs, Cc), R = ok(Cc) ; R = no ), error(E, _), R = err(E)).
u8enc(Codes, R) :-
    maplist(char_code, Cs, Codes),
    catch(( chars_utf8bytes(Cs, Bs) ->
            ( chars_utf8bytes(C2, Bs) -> maplist(char_code, C2, C2c), R = ok(Bs, C2c) ; R = ok(Bs, nodecode) )
          ; R = no ), error(E, _), R = err(E)).
u8dec(Bs, R) :-
    catch(( chars_utf8bytes(Cs, Bs) -> maplist(char_code, Cs, Cc), R = ok(Cc) ; R = no ), error(E, _), R = err(E)).
hashop(Codes, Opts, R) :-
    maplist(char_code, Cs, Codes),
    catch(( crypto_data_hash(Cs, H, Opts) -> maplist(char_code, H, Hc), R = ok(Hc) ; R = no ), error(E, _), R = err(E)).
hashdef(Codes, Opts, R) :-
    maplist(char_code, Cs, Codes),
    catch(( crypto_data_hash(Cs, H, [algorithm(A)|Opts]) -> maplist(char_code, H, Hc), R = ok(Hc, A) ; R = no ), error(E, _), R = err(E)).
hashver(Codes, HCodes, Opts, R) :-
    maplist(char_code, Cs, Codes), maplist(char_code, H, HCodes),
    catch(( crypto_data_hash(Cs, H, Opts) -> R = yes ; R = no ), error(E, _), R = err(E)).
encop(Codes, Key, IV, AadCodes, Enc, R) :-
    maplist(char_code, Cs, Codes), maplist(char_code, Aad, AadCodes),
    catch(( crypto_data_encrypt(Cs, 'chacha20-poly1305', Key, IV, CT, [tag(Tag), aad(Aad), encoding(Enc)]) ->
            maplist(char_code, CT, CTc), R = ok(CTc, Tag)
          ; R = no ), error(E, _), R = err(E)).
decop(CTCodes, Key, IV, AadCodes, Tag, R) :-
    maplist(char_code, CT, CTCodes), maplist(char_code, Aad, AadCodes),
    catch(( crypto_data_decrypt(CT, 'chacha20-poly1305', Key, IV, PT, [tag(Tag), aad(Aad), encoding(octet)]) ->
            maplist(char_code, PT, PTc), R = ok(PTc)
          ; R = no ), error(E, _), R = err(E)).
decop_utf8(CTCodes, Key, IV, AadCodes, Tag, R) :-
    maplist(char_code, CT, CTCodes), maplist(char_code, Aad, AadCodes),
    catch(( crypto_data_decrypt(CT, 'chacha20-poly1305', Key, IV, PT, [tag(Tag), aad(Aad), encoding(utf8)]) ->
            maplist(char_code, PT, PTc), R = ok(PTc)
          ; R = no ), error(E, _), R = err(E)).
decop_notag(CTCodes, Key, IV, AadCodes, R) :-
    maplist(char_code, CT, CTCodes), maplist(char_code, Aad, AadCodes),
    catch(( crypto_data_decrypt(CT, 'chacha20-poly1305', Key, IV, PT, [aad(Aad), encoding(octet)]) ->
            maplist(char_code, PT, PTc), R = ok(PTc)
          ; R = no ), error(E, _), R = err(E)).
"""


def ints(xs):
    return "[" + ",".join(str(int(x)) for x in xs) + "]"


def list_items(g):
    out = []
    while g[0] == 'c' and g[1] == '.' and len(g[2]) == 2:
        out.append(g[2][0])
        g = g[2][1]
    return out if g == terms.NIL else None


def int_list(g):
    items = list_items(g)
    if items is None or any(x[0] != 'i' for x in items):
        return None
    return [x[1] for x in items]


def describe(ans):
    """-> ('ok', [values...]) with int lists / atoms, ('no',), ('yes',), ('err', text), ('panic', ..), ('other', ..)"""
    if "panic" in ans:
        return ("panic", ans["panic"])
    a = ans.get("a", [])
    if not a or not isinstance(a[0], dict):
        return ("other", json.dumps(a)[:200])
    if "b" in a[0] and "R" in a[0]["b"]:
        r = terms.from_h(a[0]["b"]["R"])
        if r == ('a', 'yes'):
            return ("yes",)
        if r == ('a', 'no'):
            return ("no",)
        if r[0] == 'c' and r[1] == 'err':
            return ("err", terms.show(r[2][0]))
        if r[0] == 'c' and r[1] == 'ok':
            vals = []
            for x in r[2]:
                il = int_list(x)
                vals.append(il if il is not None else (x[1] if x[0] == 'a' else terms.show(x)))
            return ("ok", vals)
    if "e" in a[0]:
        return ("err", terms.show(terms.from_h(a[0]["e"])))
    return ("other", json.dumps(a)[:200])


def got_text(d):
    if d[0] == "ok":
        return "ok(%s)" % ",".join(json.dumps(x) for x in d[1])
    if d[0] == "err":
        return "err(%s)" % d[1]
    return d[0] if len(d) == 1 else "%s(%s)" % (d[0], d[1])


def opts_text(v):
    if v["dflt"]:
        return "[]"
    return "[padding(%s),charset(%s)]" % ("true" if v["pad"] else "false", "url" if v["url"] else "standard")


def codec_query(v):
    k = v["k"]
    if k == "hexenc":
        return ["hexenc(%s, R)." % ints_neg(v["inp"])]
    if k == "hexdec":
        qs = ["hexdec(%s, R)." % ints(v["inp"])]
        if v["ok"]:
            qs.append("hexrel(%s, %s, R)." % (ints(v["inp"]), ints(v["out"])))     # both arguments given
        return qs
    if k == "b64enc":
        return ["b64enc(%s, %s, R)." % (ints(v["inp"]), opts_text(v))]
    if k == "b64dec":
        return ["b64dec(%s, %s, R)." % (ints(v["inp"]), opts_text(v))]
    if k == "u8enc":
        return ["u8enc(%s, R)." % ints(v["inp"])]
    if k == "u8dec":
        return ["u8dec(%s, R)." % ints(v["inp"])]
    raise ValueError(k)


def ints_neg(xs):
    return "[" + ",".join(str(x) if x >= 0 else "(%d)" % x for x in xs) + "]"


def codec_judge(v, ds):
    """-> None if conforming, else (label, got text)"""
    k = v["k"]
    d = ds[0]
    rejected = d[0] in ("no", "err")
    if k in ("hexenc", "b64enc", "u8enc"):
        if not v["ok"]:
            return None if rejected else ("accepted", got_text(d))
        if d[0] != "ok" or len(d[1]) != 2:
            return ("noresult", got_text(d))
        if d[1][0] != v["out"]:
            return ("value", got_text(d))
        if d[1][1] != v["inp"]:
            return ("identity", got_text(d))       # decode(encode(x)) must be x
        return None
    # decoding
    if v["ok"]:
        if d[0] != "ok" or d[1][0] != v["out"]:
            return ("value" if d[0] == "ok" else "rejected", got_text(d))
        if k == "hexdec" and ds[1][0] != "yes":
            return ("relation", got_text(ds[1]))
        return None
    if rejected:
        return None
    if k == "u8dec" and d[0] == "ok" and isinstance(d[1][0], list) and 0xFFFD in d[1][0]:
        return None                                  # ill-formed input visibly replaced (U+FFFD), not decoded cleanly
    return ("accepted", got_text(d))


def codec_class(v):
    k = v["k"]
    n = len(v["inp"])
    if k in ("b64enc", "b64dec"):
        o = "dflt" if v["dflt"] else ("pad" if v["pad"] else "nopad") + ("/url" if v["url"] else "/std")
        return (k, v["ok"], n % 3 if k == "b64enc" else n % 4, min(n, 9), o, v["inp"].count(61) if k == "b64dec" else 0)
    if k == "u8dec":
        return (k, v["ok"], v["why"], min(n, 9), tuple(sorted(set(lead_class(b) for b in v["inp"]))))
    if k == "u8enc":
        return (k, tuple(sorted(set(len(chr(c).encode("utf8")) for c in v["inp"]))), min(n, 9))
    if k == "hexdec":
        return (k, v["ok"], n % 2, min(n, 9), tuple(sorted(set(hex_class(c) for c in v["inp"]))))
    return (k, v["ok"], min(n, 9), tuple(sorted(set(v["inp"]))) if n <= 2 else ())


def lead_class(b):
    return "a" if b < 0x80 else "c" if b < 0xC0 else "2" if b < 0xE0 else "3" if b < 0xF0 else "4" if b < 0xF8 else "x"


def hex_class(c):
    ch = chr(c)
    return "d" if ch.isdigit() else "l" if ch in "abcdef" else "u" if ch in "ABCDEF" else "x"


# ----------------------------------------------------------------------------------------------
# crypto workload -> events
# ----------------------------------------------------------------------------------------------

def hash_opts(v, with_alg=True):
    o = []
    if with_alg:
        o.append("algorithm(%s)" % v["alg"])
    o.append("encoding(%s)" % v["enc"])
    if v["mac"]:
        o.append("hmac(%s)" % ints(v["key"]))
    return "[" + ",".join(o) + "]"


def blank_event():
    return {"id": 0, "ev": "", "alg": "", "mac": False, "key": [], "iv": [], "aad": [], "data": [], "h": [], "hstr": "",
            "ct": [], "tag": [], "res": ""}


def res_of(d):
    return "ok" if d[0] == "ok" else "fail" if d[0] == "no" else "error"


def flip(xs, i, bit=1):
    ys = list(xs)
    ys[i] ^= bit
    return ys


def run_crypto(rep, hvecs, avecs, tier):
    """execute the workload, record events, validate with Trace_C37; returns number of events"""
    events = []
    info = {}

    def add(ev, desc):
        ev["id"] = len(events)
        events.append(ev)
        info[ev["id"]] = desc
        return ev

    # ---- round 1: hashes (forward, then again in reverse order) and encryptions (twice)
    B = 150
    jobs = []
    order = list(range(len(hvecs))) + list(reversed(range(len(hvecs))))
    for bi in range(0, len(order), B):
        steps = [{"consult": PROG}]
        for i in order[bi:bi + B]:
            v = hvecs[i]
            steps.append({"q": "hashop(%s, %s, R)." % (ints(v["inp"]), hash_opts(v)), "max": 2})
        jobs.append({"id": "h%d" % bi, "steps": steps, "timeout": 240})
    defs = [v for v in hvecs if v["alg"] == "sha256"]           # default algorithm: algorithm(A) with A unbound
    steps = [{"consult": PROG}]
    for v in defs:
        steps.append({"q": "hashdef(%s, %s, R)." % (ints(v["inp"]), hash_opts(v, with_alg=False)), "max": 2})
    jobs.append({"id": "d0", "steps": steps, "timeout": 240})
    eorder = list(range(len(avecs))) * 2
    for bi in range(0, len(eorder), B):
        steps = [{"consult": PROG}]
        for i in eorder[bi:bi + B]:
            v = avecs[i]
            steps.append({"q": "encop(%s, %s, %s, %s, %s, R)." % (ints(v["inp"]), ints(v["key"]), ints(v["iv"]),
                                                                    ints(v["aad"]), v["enc"]), "max": 2})
        jobs.append({"id": "e%d" % bi, "steps": steps, "timeout": 240})
    results = run_jobs(jobs, workers=8, job_timeout=240)

    def answers(prefix, n):
        out = []
        for bi in range(0, n, B):
            r = results.get("%s%d" % (prefix, bi), {"crash": "missing"})
            if "crash" in r:
                raise CrashedBatch("%s%d" % (prefix, bi), r["crash"])
            out.extend(describe(x) for x in r["res"][1:])
        return out

    try:
        hres = answers("h", len(order))
        dres = answers("d", 1) if defs else []
        eres = answers("e", len(eorder))
    except CrashedBatch as cb:
        rep.violation("crypto batch %s crashed: %s" % (cb.args[0], cb.args[1]), {"mode": "crypto", "batch": cb.args[0]})
        return 0

    known_hash = {}
    for pos, i in enumerate(order):
        v, d = hvecs[i], hres[pos]
        ev = blank_event()
        ev.update({"ev": "hash", "alg": v["alg"], "mac": v["mac"], "key": v["key"], "data": v["out"], "res": res_of(d)})
        if d[0] == "ok" and isinstance(d[1][0], list):
            ev["h"] = d[1][0]
            ev["hstr"] = "".join(chr(c) for c in d[1][0])
            known_hash.setdefault(i, d[1][0])
        add(ev, {"call": "crypto_data_hash", "vector": v, "got": got_text(d)})
        rep.case(("hash", v["alg"], v["enc"], v["mac"], len(v["key"]), len(v["out"]), "again" if pos >= len(hvecs) else "first"))
    for v, d in zip(defs, dres):
        ev = blank_event()
        alg = d[1][1] if d[0] == "ok" and len(d[1]) == 2 and isinstance(d[1][1], str) else "?"
        ev.update({"ev": "hash", "alg": alg, "mac": v["mac"], "key": v["key"], "data": v["out"], "res": res_of(d)})
        if d[0] == "ok" and isinstance(d[1][0], list):
            ev["h"] = d[1][0]
            ev["hstr"] = "".join(chr(c) for c in d[1][0])
        add(ev, {"call": "crypto_data_hash with algorithm(A), A unbound", "vector": v, "got": got_text(d)})
        rep.case(("hashdef", v["enc"], v["mac"], len(v["out"])))
    encs = {}
    for pos, i in enumerate(eorder):
        v, d = avecs[i], eres[pos]
        ev = blank_event()
        ev.update({"ev": "enc", "key": v["key"], "iv": v["iv"], "aad": v["aad"], "data": v["out"], "res": res_of(d)})
        if d[0] == "ok" and len(d[1]) == 2 and isinstance(d[1][0], list) and isinstance(d[1][1], list):
            ev["ct"], ev["tag"] = d[1][0], d[1][1]
            encs.setdefault(i, (d[1][0], d[1][1]))
        add(ev, {"call": "crypto_data_encrypt", "vector": v, "got": got_text(d)})
        rep.case(("enc", len(v["key"]), len(v["iv"]), len(v["aad"]), v["enc"], min(len(v["out"]), 9)))

    # ---- round 2: verification with an instantiated hash; decryption of genuine and tampered ciphertexts
    vcalls = []
    for i, h in sorted(known_hash.items()):
        v = hvecs[i]
        if len(v["out"]) > 3 and not v["mac"]:
            continue
        bad = list(h)
        bad[-1] = ord("0") if bad[-1] != ord("0") else ord("1")
        vcalls.append((v, h, "given"))
        vcalls.append((v, bad, "wrong"))
    dcalls = []
    K2 = list(range(32))
    for i, (ct, tag) in sorted(encs.items()):
        v = avecs[i]
        base = dict(key=v["key"], iv=v["iv"], aad=v["aad"], ct=ct, tag=tag)
        variants = [("genuine", base)]
        variants.append(("tag-bit", dict(base, tag=flip(tag, 0))))
        variants.append(("tag-last", dict(base, tag=flip(tag, len(tag) - 1, 0x80))))
        variants.append(("tag-short", dict(base, tag=tag[:-1])))
        if ct:
            variants.append(("ct-bit", dict(base, ct=flip(ct, 0))))
            variants.append(("ct-last", dict(base, ct=flip(ct, len(ct) - 1, 0x80))))
            variants.append(("ct-short", dict(base, ct=ct[:-1])))
        variants.append(("ct-long", dict(base, ct=ct + [0])))
        variants.append(("aad", dict(base, aad=v["aad"] + [33])))
        variants.append(("key", dict(base, key=flip(v["key"], 31))))
        variants.append(("iv", dict(base, iv=flip(v["iv"], 0))))
        variants.append(("notag", dict(base, tag=[])))
        if tier == "quick" and len(v["out"]) > 3 and len(v["out"]) != 64:
            variants = variants[:2]
        for name, x in variants:
            dcalls.append((v, name, x, "octet"))
        if v["enc"] == "utf8":
            dcalls.append((v, "genuine", base, "utf8"))
    jobs = []
    for bi in range(0, len(vcalls), B):
        steps = [{"consult": PROG}]
        for v, h, _ in vcalls[bi:bi + B]:
            steps.append({"q": "hashver(%s, %s, %s, R)." % (ints(v["inp"]), ints(h), hash_opts(v)), "max": 2})
        jobs.append({"id": "v%d" % bi, "steps": steps, "timeout": 240})
    for bi in range(0, len(dcalls), B):
        steps = [{"consult": PROG}]
        for v, name, x, enc in dcalls[bi:bi + B]:
            if name == "notag":
                steps.append({"q": "decop_notag(%s, %s, %s, %s, R)." % (ints(x["ct"]), ints(x["key"]), ints(x["iv"]), ints(x["aad"])), "max": 2})
            else:
                steps.append({"q": "%s(%s, %s, %s, %s, %s, R)." % ("decop" if enc == "octet" else "decop_utf8", ints(x["ct"]),
                                                                    ints(x["key"]), ints(x["iv"]), ints(x["aad"]), ints(x["tag"])), "max": 2})
        jobs.append({"id": "x%d" % bi, "steps": steps, "timeout": 240})
    results = run_jobs(jobs, workers=8, job_timeout=240)
    try:
        vres = answers("v", len(vcalls))
        xres = answers("x", len(dcalls))
    except CrashedBatch as cb:
        rep.violation("crypto batch %s crashed: %s" % (cb.args[0], cb.args[1]), {"mode": "crypto", "batch": cb.args[0]})
        return 0
    for (v, h, what), d in zip(vcalls, vres):
        ev = blank_event()
        ev.update({"ev": "verify", "alg": v["alg"], "mac": v["mac"], "key": v["key"], "data": v["out"], "h": h,
                   "hstr": "".join(chr(c) for c in h),
                   "res": "true" if d[0] == "yes" else "false" if d[0] == "no" else "error"})
        add(ev, {"call": "crypto_data_hash with Hash instantiated (%s)" % what, "vector": v, "got": got_text(d)})
        rep.case(("verify", v["alg"], v["mac"], what))
    for (v, name, x, enc), d in zip(dcalls, xres):
        ev = blank_event()
        ev.update({"ev": "dec", "key": x["key"], "iv": x["iv"], "aad": x["aad"], "ct": x["ct"], "tag": x["tag"], "res": res_of(d)})
        if d[0] == "ok" and isinstance(d[1][0], list):
            try:
                ev["data"] = d[1][0] if enc == "octet" else list("".join(chr(c) for c in d[1][0]).encode("utf8"))
            except (UnicodeEncodeError, ValueError):
                ev["data"] = [-1]
        add(ev, {"call": "crypto_data_decrypt (%s, encoding(%s))" % (name, enc), "vector": v, "got": got_text(d)})
        rep.case(("dec", name, enc, min(len(x["ct"]), 9), len(v["aad"])))

    # ---- judge with TLC
    d = os.path.join(common.WORK, "c37")
    os.makedirs(d, exist_ok=True)
    path = os.path.join(d, "trace-%s-%d.ndjson" % (tier, os.getpid()))
    with open(path, "w") as f:
        for e in events:
            f.write(json.dumps(e) + "\n")
    res = tlc_ok(run_tlc("Trace_C37", "Trace_C37.cfg", workers=1, dfs=True, env_extra={"TRACE": path}, timeout=3600), "Trace_C37")
    rep.add_tlc(res)
    if res.distinct != len(events) + 1:
        raise common.ToolError("Trace_C37 judged %d of %d events" % (res.distinct - 1, len(events)))
    rejected = sorted(x["reject"] for x in res.printed() if isinstance(x, dict) and "reject" in x)
    for eid in rejected:
        e, inf = events[eid], info[eid]
        v = inf["vector"]
        if e["ev"] in ("hash", "verify"):
            sig = "law %s alg=%s mac=%s keylen=%d enc=%s data=%s res=%s h=%s" % (
                e["ev"], e["alg"], e["mac"], len(e["key"]), v["enc"], json.dumps(e["data"]), e["res"], e["hstr"])
        else:
            sig = "law %s %s keylen=%d ivlen=%d aad=%d ptlen=%d res=%s" % (
                e["ev"], inf["call"], len(e["key"]), len(e["iv"]), len(e["aad"]), len(v["out"]), e["res"])
        if e["ev"] in ("hash", "verify"):
            related = [x for x in events[:eid] if x["ev"] == "hash" and (x["data"] == e["data"] or
                                                                       (x["alg"] == e["alg"] and x["key"] == e["key"] and x["h"] == e["h"]))]
        else:
            related = [x for x in events[:eid] if x["ev"] == "enc" and x["key"] == e["key"] and x["iv"] == e["iv"]]
        rep.violation(sig, {"mode": "crypto", "event": e, "call": inf["call"], "got": inf["got"],
                            "trace_prefix": related[-200:] + [e]})
    try:
        os.remove(path)
    except OSError:
        pass
    for want in (("hash", "ok"), ("dec", "fail")):
        for e in events:
            if (e["ev"], e["res"]) == want and e["data"] != [] or (want[0] == "dec" and (e["ev"], e["res"]) == want):
                rep.sample({k: e[k] for k in ("ev", "alg", "mac", "key", "iv", "aad", "data", "hstr", "ct", "tag", "res")
                            if e[k] not in ("", [], False)} | {"call": info[e["id"]]["call"]})
                break
    return len(events)


class CrashedBatch(Exception):
    pass


# ----------------------------------------------------------------------------------------------

def run(tier):
    rep = Report(PROP, tier, META["level"])
    rep.rule = ("codec: TLC enumerates every byte/character sequence of length <= %d over boundary alphabets (bytes "
                "{0,1,41,7F,80,FB,FF}; hex digits of both cases and their neighbours; Base64 letters, '=', both charsets; "
                "UTF-8: A, e-acute, euro, U+1F600, NUL, U+FFFD, range boundaries, and ill-formed units: overlong, surrogate, "
                "> 10FFFF, truncated, stray continuation, bad lead) plus samples up to 64 bytes, in both directions and all "
                "padding/charset options; distinct = distinct (predicate/direction, accepted?, length class, option, "
                "byte/character classes). crypto: a TLC-generated workload (11 algorithms x 12+ data x encodings x HMAC keys; "
                "chacha20-poly1305 over 3 keys x 3 nonces x 2 AAD x data) executed twice plus verification and 12 "
                "tampering variants per ciphertext; one case = one recorded call, judged by Trace_C37" % (3 if tier == "quick" else 4))
    res, vecs = common.generate("MC_C37", "MC_C37_%s.cfg" % tier, workers=8, timeout=3600)
    rep.add_tlc(res)
    codec = [v for v in vecs if v["k"] not in ("hash", "aead")]
    hvecs = [v for v in vecs if v["k"] == "hash"]
    avecs = [v for v in vecs if v["k"] == "aead"]
    if not codec or not hvecs or not avecs:
        raise common.ToolError("no vectors generated")
    python_crosscheck(codec)
    # ---- codec replay
    B = 200
    jobs = []
    for bi in range(0, len(codec), B):
        steps = [{"consult": PROG}]
        for v in codec[bi:bi + B]:
            for q in codec_query(v):
                steps.append({"q": q, "max": 2})
        jobs.append({"id": bi, "steps": steps, "timeout": 240})
    results = run_jobs(jobs, workers=8, job_timeout=240)
    for job in jobs:
        bi = job["id"]
        r = results.get(bi, {"crash": "missing"})
        if "crash" in r:
            rep.violation("codec batch %d crashed: %s" % (bi, r["crash"]), {"mode": "codec", "batch": bi})
            continue
        rs = r["res"][1:]
        k = 0
        for v in codec[bi:bi + B]:
            n = len(codec_query(v))
            ds = [describe(x) for x in rs[k:k + n]]
            k += n
            rep.case(codec_class(v))
            bad = codec_judge(v, ds)
            if bad:
                sig = "%s why=%s defect=%s opts=%s inp=%s expect=%s got=%s" % (
                    v["k"], v["why"] or "-", bad[0], opts_text(v) if v["k"].startswith("b64") else "-", json.dumps(v["inp"]),
                    ("ok(%s)" % json.dumps(v["out"])) if v["ok"] else "reject", bad[1])
                rep.violation(sig, {"mode": "codec", "vector": v, "got": bad[1]})
    seen_kinds = set()
    for v in codec:
        key = (v["k"], v["ok"])
        if key in (("b64enc", True), ("u8dec", True), ("u8dec", False)) and key not in seen_kinds and len(v["inp"]) >= 3:
            seen_kinds.add(key)
            rep.sample({"call": codec_query(v)[0], "expected": v["out"] if v["ok"] else "rejected (%s)" % v["why"]})
    nev = run_crypto(rep, hvecs, avecs, tier)
    rep.exhaustive = True
    rep.traces = len(codec) + nev
    rep.assumptions = [
        "REDUCED SCOPE: digest, HMAC, ciphertext and tag VALUES are not decided by this technique (only the documented "
        "sha256(\"abc\") value is compared); hashes and the cipher are uninterpreted functions inferred from the observations",
        "collision resistance of the hash functions and unforgeability of Poly1305 tags (used by the distinctness and tamper laws)",
        "TLC; Codec.tla cross-checked against Python's binascii/base64/codecs on every vector of this run",
        "canonical text renderer and LeafAnswer projection of the harness; harness built with features repl, hostname, crypto-full",
    ]
    return rep.finish()


def python_crosscheck(codec):
    """sanity of layer A against Python's own codecs (mismatch = tool error, not a violation)"""
    import base64
    import binascii
    for v in codec:
        k, inp = v["k"], v["inp"]
        exp = None
        if k == "hexenc":
            exp = (True, list(binascii.hexlify(bytes(inp)))) if all(0 <= b <= 255 for b in inp) else (False, [])
        elif k == "hexdec":
            try:
                s = bytes(inp).decode("ascii")
                if any(c not in "0123456789abcdefABCDEF" for c in s) or len(s) % 2:
                    raise ValueError
                exp = (True, list(binascii.unhexlify(s)))
            except (ValueError, UnicodeDecodeError):
                exp = (False, [])
        elif k == "b64enc":
            if all(0 <= b <= 255 for b in inp):
                e = base64.urlsafe_b64encode(bytes(inp)) if v["url"] else base64.b64encode(bytes(inp))
                if not v["pad"]:
                    e = e.rstrip(b"=")
                exp = (True, list(e))
            else:
                exp = (False, [])
        elif k == "b64dec":
            exp = (False, [])
            try:
                s = bytes(inp)
                body = s.rstrip(b"=")
                alpha = b"ABCDEFGHIJKLMNOPQRSTUVWXYZabcdefghijklmnopqrstuvwxyz0123456789" + (b"-_" if v["url"] else b"+/")
                if all(c in alpha for c in body) and len(body) % 4 != 1:
                    raw = base64.b64decode(body + b"=" * (-len(body) % 4), altchars=b"-_" if v["url"] else b"+/")
                    e = base64.urlsafe_b64encode(raw) if v["url"] else base64.b64encode(raw)
                    if not v["pad"]:
                        e = e.rstrip(b"=")
                    if e == s:
                        exp = (True, list(raw))
            except (ValueError, binascii.Error):
                pass
        elif k == "u8enc":
            exp = (True, list("".join(chr(c) for c in inp).encode("utf8")))
        elif k == "u8dec":
            try:
                exp = (True, [ord(c) for c in bytes(inp).decode("utf8")])
            except UnicodeDecodeError:
                exp = (False, [])
        if exp is not None and (exp[0] != v["ok"] or (exp[0] and exp[1] != v["out"])):
            raise common.ToolError("oracle self-check: %s %r spec=%s/%r python=%s/%r" % (k, inp, v["ok"], v["out"], exp[0], exp[1]))


def replay(path):
    d = json.load(open(path))
    det = d["detail"]
    if det.get("mode") == "codec":
        v = det["vector"]
        steps = [{"consult": PROG}] + [{"q": q, "max": 2} for q in codec_query(v)]
        r = run_jobs([{"id": 0, "steps": steps, "timeout": 120}], workers=1)
        out = [got_text(describe(x)) for x in r[0].get("res", [{}])[1:]]
        print(json.dumps({"signature": d["signature"], "queries": codec_query(v),
                          "expected": v["out"] if v["ok"] else "rejected (%s)" % v["why"], "observed": out}, indent=1))
        return 0
    if det.get("mode") == "crypto" and "trace_prefix" in det:
        p = os.path.join(common.WORK, "c37", "replay-%d.ndjson" % os.getpid())
        os.makedirs(os.path.dirname(p), exist_ok=True)
        evs = det["trace_prefix"]
        with open(p, "w") as f:
            for i, e in enumerate(evs):
                e = dict(e)
                e["id"] = i
                f.write(json.dumps(e) + "\n")
        res = run_tlc("Trace_C37", "Trace_C37.cfg", workers=1, dfs=True, env_extra={"TRACE": p}, timeout=600)
        rej = [x["reject"] for x in res.printed() if isinstance(x, dict) and "reject" in x]
        print(json.dumps({"signature": d["signature"], "call": det.get("call"), "observed": det.get("got"),
                          "recorded_event": det["event"], "events_rejected_by_Trace_C37_on_the_recorded_prefix": rej}, indent=1))
        os.remove(p)
        return 0
    print(json.dumps(d, indent=1)[:4000])
    return 0
