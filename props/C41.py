"""C41 - JSON text and JSON terms convert faithfully both ways (library(serialization/json), json_chars//1)."""
import json
import os
import re
from fractions import Fraction

from lib import common, terms
from lib.common import Report, run_tlc, tlc_ok, run_jobs

PROP = "C41"

META = {
    "level": "model_checking",
    "text": "The JSON grammar (json.org McKeeman form / RFC 8259, incl. \\uXXXX surrogate pairs) is specified in TLA+ "
            "(spec/JsonSpec.tla) as a recursive-descent function from code-point sequences to the term form documented in "
            "json.pl, with exact number values (BigInt: integer vs float, value M/2^K, decimal fractions rounded to the nearest "
            "binary64). TLC enumerates JSON values of depth "
            "<= 2 with <= 2 (quick) / 3 (thorough) members written with whitespace in every slot of the grammar and every "
            "escape spelling, strings over a character vocabulary with one spelling per character, a number-spelling "
            "catalogue in several contexts, an invalid-JSON catalogue and all single-character mutants of valid base texts; "
            "TLC checks Parse(Write(tree, style)) = Sem(tree) and Parse(Gen(v)) = v inside the specification. Every text "
            "is replayed through phrase(json_chars(T), Cs) (parsing, and with T given); every value is handed to the "
            "generating mode and the text the implementation produces is judged by the specification's parser "
            "(Trace_C41, impl->spec) and re-parsed by the implementation. Bounded-exhaustive conformance, not proof.",
    "note": "Numbers: integers (any size, with exponents) are specified exactly; numerals with a fraction or a negative "
            "exponent denote the binary64 nearest to the decimal value (round to nearest, ties to even, computed with BigInt "
            "in the specification); results outside the normal binary64 range (subnormal, overflow) are only checked for "
            "validity and number type. The sign of a zero is not asserted. Of the generating mode only the first answer is "
            "examined. Trusted: TLC, BigInt.tla, the canonical-text renderer and LeafAnswer projection of the harness; the "
            "specification's verdicts are cross-checked against Python's json module and float() on every run (mismatch = "
            "tool error).",
    "technique": "TLA+ functional specification of the JSON grammar enumerated by TLC; spec->impl replay of texts, "
                 "impl->spec validation of generated texts",
}

PROG = r"""
:- use_module(library(serialization/json)).
:- use_module(library(dcgs)).
:- use_module(library(lists)).
pj(Codes, R) :-
    maplist(char_code, Cs, Codes),
    catch(( findall(T, phrase(json_chars(T), Cs), Ts), R = ok(Ts) ), error(E, _), R = err(E)).
cj(Codes, T, R) :-
    maplist(char_code, Cs, Codes),
    catch(( phrase(json_chars(T), Cs) -> R = yes ; R = no ), error(E, _), R = err(E)).
gj(T, R) :-
    catch(( phrase(json_chars(T), Cs) -> G = ok(Cs) ; G = nogen ), error(E, _), G = err(E)),
    (   G = ok(Cs1) ->
        maplist(char_code, Cs1, Codes),
        catch(( findall(T2, phrase(json_chars(T2), Cs1), T2s), R = ok(Codes, T2s) ), error(E2, _), R = reparse_err(Codes, E2))
    ;   R = G
    ).
"""


def txt(cps):
    return "".join(chr(c) for c in cps)


def show_text(cps):
    return json.dumps(txt(cps), ensure_ascii=True)


# ----------------------------------------------------------------------------------------------
# spec term -> expectation / Prolog text
# ----------------------------------------------------------------------------------------------

def num_value(n):
    return Fraction(int(n["m"]) * (-1 if n["neg"] else 1), 1 << int(n["e2"]))


def term_text(t):
    """canonical Prolog text of a spec term; None if the term holds a number the spec does not fix completely"""
    k = t["t"]
    if k == "a":
        return terms.quote_atom(t["n"])
    if k == "c":
        args = [term_text(x) for x in t["a"]]
        if any(a is None for a in args):
            return None
        return terms.quote_atom(t["n"]) + "(" + ",".join(args) + ")"
    if k == "l":
        items = [term_text(x) for x in t["a"]]
        if any(a is None for a in items):
            return None
        return "[" + ",".join(items) + "]"
    if k == "s":
        return "[" + ",".join(terms.quote_atom(chr(c)) for c in t["s"]) + "]"
    if k == "num":
        n = t["num"]
        if not n["exact"] or n["kind"] not in ("int", "float"):
            return None
        v = num_value(n)
        if n["kind"] == "int":
            if v.denominator != 1:
                raise common.ToolError("spec int with denominator: %r" % (n,))
            return terms.text(('i', int(v)))
        f = float(v)
        if Fraction(f) != v:
            raise common.ToolError("spec float value is not a binary64: %r" % (n,))
        return terms.text(('f', terms.float_bits(f)))
    raise ValueError(t)


def list_items(g):
    """canonical list chain -> python list, or None when it is not a proper list"""
    out = []
    while g[0] == 'c' and g[1] == '.' and len(g[2]) == 2:
        out.append(g[2][0])
        g = g[2][1]
    return out if g == terms.NIL else None


def match(t, g, ulps=0):
    """does the canonical term g (from the harness) realise the spec term t.
    ulps > 0 is used only to *label* a mismatch (floats within that many units in the last place), never to accept."""
    k = t["t"]
    if k == "a":
        return g == ('a', t["n"])
    if k == "c":
        return (g[0] == 'c' and g[1] == t["n"] and len(g[2]) == len(t["a"])
                and all(match(x, y, ulps) for x, y in zip(t["a"], g[2])))
    if k == "l":
        items = list_items(g)
        return items is not None and len(items) == len(t["a"]) and all(match(x, y, ulps) for x, y in zip(t["a"], items))
    if k == "s":
        items = list_items(g)
        return items is not None and items == [('a', chr(c)) for c in t["s"]]
    if k == "num":
        n = t["num"]
        if g[0] == 'i':
            if n["kind"] == "float":
                return False
            return (not n["exact"]) or Fraction(g[1]) == num_value(n)
        if g[0] == 'f':
            if n["kind"] == "int":
                return False
            x = terms.bits_float(g[1])
            if x != x or x in (float("inf"), float("-inf")):
                return False
            if (not n["exact"]) or Fraction(x) == num_value(n):            # the sign of a zero is not asserted
                return True
            if ulps and n["kind"] != "int":
                want = terms.float_bits(float(num_value(n)))
                return (want >> 63) == (g[1] >> 63) and abs(want - g[1]) <= ulps
            return False
        return False
    raise ValueError(t)


def has_rnd(t):
    """the specification had to round some numeral of the text (it is not a binary64 itself)"""
    if t["t"] == "num":
        return bool(t["num"].get("rnd"))
    return any(has_rnd(x) for x in t.get("a", []))


NUMTOK = re.compile(r"-?[0-9]+(?:\.[0-9]+)?(?:[eE][-+]?[0-9]+)?")


def text_has_inexact_decimal(s):
    """label for round-trip signatures: some numeral of the generated text is not a binary64 itself"""
    for tok in NUMTOK.findall(s):
        if ("." in tok or "e" in tok or "E" in tok):
            try:
                if Fraction(tok) != Fraction(float(tok)):
                    return True
            except (ValueError, OverflowError):
                return True
    return False


def diff_kind(t, gs):
    """label of a mismatch between the spec term and the observed terms: 'ulp' when they agree except for floats
    that are within 4 units in the last place of the specified value, else 'other'"""
    if gs and all(match(t, g, ulps=4) for g in gs):
        return "ulp"
    return "other"


def skeleton(t, depth=0):
    k = t["t"]
    if k == "a":
        return t["n"]
    if k == "c":
        if t["n"] in ("string", "boolean"):
            return t["n"]
        return t["n"] + "(" + ",".join(skeleton(x, depth + 1) for x in t["a"]) + ")"
    if k == "l":
        return "[" + ",".join(sorted(set(skeleton(x, depth + 1) for x in t["a"]))) + "]/%d" % len(t["a"])
    if k == "s":
        return "s"
    if k == "num":
        return t["num"]["kind"] + ("" if t["num"]["exact"] else "~")
    return "?"


FEATS = [("ws", re.compile(r"[ \n\r\t]")), ("short", re.compile(r"\\[\"\\/bfnrt]")), ("ulow", re.compile(r"\\u[0-9a-f]*[a-f]")),
         ("uup", re.compile(r"\\u[0-9A-F]*[A-F]")), ("u", re.compile(r"\\u")), ("frac", re.compile(r"[0-9]\.[0-9]")),
         ("exp", re.compile(r"[0-9][eE][-+]?[0-9]")), ("nonascii", re.compile(r"[^\x00-\x7f]")),
         ("astral", re.compile(r"[\U00010000-\U0010ffff]")), ("ctl", re.compile(r"[\x00-\x1f]"))]


def features(s):
    return tuple(n for n, rx in FEATS if rx.search(s))


# ----------------------------------------------------------------------------------------------
# cross-check of the specification's verdicts with Python's json module (sanity of layer A)
# ----------------------------------------------------------------------------------------------

class _Const(Exception):
    pass


def _raise_const(x):
    raise _Const(x)


def py_match(t, p):
    k = t["t"]
    if k == "a":
        return p is None and t["n"] == "null"
    if k == "c":
        n = t["n"]
        if n == "boolean":
            return isinstance(p, bool) and t["a"][0]["n"] == ("true" if p else "false")
        if n == "string":
            return isinstance(p, str) and p == txt(t["a"][0]["s"])
        if n == "number":
            num = t["a"][0]["num"]
            if not (isinstance(p, tuple) and len(p) == 2 and p[0] == "dec"):
                return False
            if not num["exact"]:
                return True
            if num["kind"] == "int":
                return Fraction(p[1]) == num_value(num)
            f = float(p[1])                      # CPython's decimal -> binary64 conversion is correctly rounded
            return Fraction(f) == num_value(num) and bool(num["rnd"]) == (Fraction(p[1]) != Fraction(f))
        if n == "list":
            return isinstance(p, list) and len(p) == len(t["a"][0]["a"]) and all(
                py_match(x, y) for x, y in zip(t["a"][0]["a"], p))
        if n == "pairs":
            if not isinstance(p, tuple) or len(p) != len(t["a"][0]["a"]):
                return False
            for x, (key, val) in zip(t["a"][0]["a"], p):
                if key != txt(x["a"][0]["a"][0]["s"]) or not py_match(x["a"][1], val):
                    return False
            return True
    return False


def has_surrogate(p):
    if isinstance(p, str):
        return any(0xD800 <= ord(c) <= 0xDFFF for c in p)
    if isinstance(p, list):
        return any(has_surrogate(x) for x in p)
    if isinstance(p, tuple) and not (len(p) == 2 and p[0] == "dec"):
        return any(has_surrogate(k) or has_surrogate(v) for k, v in p)
    return False


def python_crosscheck(v):
    s = txt(v["text"])
    try:
        p = json.loads(s, object_pairs_hook=lambda ps: tuple(ps), parse_int=lambda x: ("dec", x),
                       parse_float=lambda x: ("dec", x), parse_constant=_raise_const)
        ok = True
    except (ValueError, _Const, RecursionError):
        ok = False
        p = None
    if ok and has_surrogate(p):
        ok = False      # Python keeps lone surrogates; they are not Unicode characters (RFC 8259 8.2)
    if ok != v["ok"]:
        raise common.ToolError("oracle self-check: spec says ok=%s, python json says %s for %s" % (v["ok"], ok, show_text(v["text"])))
    if ok and not py_match(v["term"], p):
        raise common.ToolError("oracle self-check: spec term differs from python json for %s" % show_text(v["text"]))


# ----------------------------------------------------------------------------------------------

def codes_text(cps):
    return "[" + ",".join(str(c) for c in cps) + "]"


def describe(ans):
    """harness answer of pj/cj/gj -> ('ok', [canonical terms]) | ('err', text) | ('yes',) | ('no',) | ('other', x)"""
    if "panic" in ans:
        return ("panic", ans["panic"])
    a = ans.get("a", [])
    if not a or not isinstance(a[0], dict):
        return ("other", json.dumps(a)[:200])
    if "b" in a[0] and "R" in a[0]["b"]:
        r = terms.from_h(a[0]["b"]["R"])
        if r == ('a', 'yes'):
            return ("yes",)
        if r == ('a', 'no'):
            return ("no",)
        if r == ('a', 'nogen'):
            return ("nogen",)
        if r[0] == 'c' and r[1] == 'ok' and len(r[2]) == 1:
            return ("ok", list_items(r[2][0]))
        if r[0] == 'c' and r[1] == 'err':
            return ("err", terms.show(r[2][0]))
        if r[0] == 'c' and r[1] == 'ok' and len(r[2]) == 2:
            codes = list_items(r[2][0])
            return ("gen", [c[1] for c in codes], list_items(r[2][1]))
        if r[0] == 'c' and r[1] == 'reparse_err':
            codes = list_items(r[2][0])
            return ("generr", [c[1] for c in codes], terms.show(r[2][1]))
    if "e" in a[0]:
        return ("err", terms.show(terms.from_h(a[0]["e"])))
    return ("other", json.dumps(a)[:200])


def got_text(d):
    if d[0] == "ok":
        if d[1] is None:
            return "ok(?)"
        return "terms(%s)" % ";".join(terms.show(x) for x in d[1]) if d[1] else "fail"
    if d[0] == "err":
        return "err(%s)" % d[1]
    return "%s(%s)" % (d[0], ",".join(str(x) for x in d[1:]))


def build_jobs(pvecs, gvecs, B=120):
    jobs = []
    for bi in range(0, len(pvecs), B):
        steps = [{"consult": PROG}]
        for v in pvecs[bi:bi + B]:
            steps.append({"q": "pj(%s, R)." % codes_text(v["text"]), "max": 2})
            tt = term_text(v["term"]) if v["ok"] else None
            if tt is not None:
                steps.append({"q": "cj(%s, %s, R)." % (codes_text(v["text"]), tt), "max": 2})
        jobs.append({"id": "p%d" % bi, "steps": steps, "timeout": 240})
    for bi in range(0, len(gvecs), B):
        steps = [{"consult": PROG}]
        for v in gvecs[bi:bi + B]:
            steps.append({"q": "gj(%s, R)." % term_text(v["term"]), "max": 1})
        jobs.append({"id": "g%d" % bi, "steps": steps, "timeout": 240})
    return jobs


def judge_parse(rep, v, d, mode, hint=""):
    """mode 'parse': d from pj; mode 'check': d from cj. Returns "" when conforming, else a label of the mismatch:
    'ulp' (the observed term differs from the specified one only in floats within 4 units in the last place),
    'other'. A check-mode failure inherits the label of the parse-mode mismatch of the same text (hint)."""
    exp = "term" if v["ok"] else "reject"
    label = ""
    if mode == "parse":
        if v["ok"]:
            good = d[0] == "ok" and d[1] and all(match(v["term"], g) for g in d[1])
            if not good:
                label = diff_kind(v["term"], d[1]) if d[0] == "ok" else "other"
        else:
            good = (d[0] == "ok" and d[1] == []) or d[0] == "err"
            label = "other"
    else:
        good = d[0] == "yes"
        label = hint or "other"
    if good:
        return ""
    sig = "%s surpair=%d rnd=%d expect=%s diff=%s got=%s text=%s" % (
        mode, 1 if v["sp"] else 0, 1 if (v["ok"] and has_rnd(v["term"])) else 0, exp, label, got_text(d), show_text(v["text"]))
    rep.violation(sig, {"mode": mode, "vector": v, "got": got_text(d),
                        "expected": term_text_loose(v["term"]) if v["ok"] else "rejection (failure or error)"})
    return label


def term_text_loose(t):
    k = t["t"]
    if k == "num":
        n = t["num"]
        if not n["exact"]:
            return "<%s, value not fixed>" % n["kind"]
        return "<%s %s%s/2^%d%s>" % (n["kind"], "-" if n["neg"] else "", n["m"], n["e2"], ", nearest binary64" if n.get("rnd") else "")
    if k == "a":
        return terms.quote_atom(t["n"])
    if k == "c":
        return terms.quote_atom(t["n"]) + "(" + ",".join(term_text_loose(x) for x in t["a"]) + ")"
    if k == "l":
        return "[" + ",".join(term_text_loose(x) for x in t["a"]) + "]"
    if k == "s":
        return json.dumps(txt(t["s"]))
    return "?"


def run_trace(rep, events, tier):
    """impl -> spec: the specification parses the texts the implementation generated"""
    d = os.path.join(common.WORK, "c41")
    os.makedirs(d, exist_ok=True)
    path = os.path.join(d, "gen-%s-%d.ndjson" % (tier, os.getpid()))
    with open(path, "w") as f:
        for e in events:
            f.write(json.dumps(e) + "\n")
    res = tlc_ok(run_tlc("Trace_C41", "Trace_C41.cfg", workers=1, dfs=True, env_extra={"TRACE": path}, timeout=3600),
                 "Trace_C41")
    rep.add_tlc(res)
    rejected = set()
    for x in res.printed():
        if isinstance(x, dict) and "reject" in x:
            rejected.add(x["reject"])
    if res.distinct != len(events) + 1:
        raise common.ToolError("Trace_C41 judged %d of %d records" % (res.distinct - 1, len(events)))
    try:
        os.remove(path)
    except OSError:
        pass
    return rejected


def execute(rep, pvecs, gvecs, tier):
    jobs = build_jobs(pvecs, gvecs)
    results = run_jobs(jobs, workers=8, job_timeout=240)
    B = 120
    events = []
    gen_by_id = {}
    for job in jobs:
        r = results.get(job["id"], {"crash": "missing"})
        kind, bi = job["id"][0], int(job["id"][1:])
        if "crash" in r:
            rep.violation("batch %s crashed: %s" % (job["id"], r["crash"]), {"job": job["id"], "result": r})
            continue
        rs = r["res"][1:]
        k = 0
        if kind == "p":
            for v in pvecs[bi:bi + B]:
                d = describe(rs[k]); k += 1
                s = txt(v["text"])
                cls = (v["g"], v["ok"], skeleton(v["term"]) if v["ok"] else "reject", features(s))
                rep.case(("parse",) + cls)
                lab = judge_parse(rep, v, d, "parse")
                if v["ok"] and term_text(v["term"]) is not None:
                    d2 = describe(rs[k]); k += 1
                    rep.case(("check",) + cls)
                    judge_parse(rep, v, d2, "check", hint=lab)
        else:
            for v in gvecs[bi:bi + B]:
                d = describe(rs[k]); k += 1
                tt = term_text(v["term"])
                rep.case(("gen", skeleton(v["term"]), features(txt(v["text"]))))
                if d[0] == "gen":
                    codes, t2s = d[1], d[2]
                    eid = len(events)
                    events.append({"id": eid, "text": codes, "v": v["v"]})
                    gen_by_id[eid] = (v, codes)
                    if not (t2s and all(match(v["term"], g) for g in t2s)):
                        rep.violation("roundtrip rnd=%d diff=%s term=%s text=%s reparsed=%s" % (
                                          1 if text_has_inexact_decimal(txt(codes)) else 0,
                                          diff_kind(v["term"], t2s), tt, show_text(codes), got_text(("ok", t2s))),
                                      {"mode": "gen", "vector": v, "generated": txt(codes)})
                elif d[0] == "generr":
                    eid = len(events)
                    events.append({"id": eid, "text": d[1], "v": v["v"]})
                    gen_by_id[eid] = (v, d[1])
                    rep.violation("roundtrip diff=error term=%s text=%s reparsed=err(%s)" % (tt, show_text(d[1]), d[2]),
                                  {"mode": "gen", "vector": v, "generated": txt(d[1])})
                else:
                    rep.violation("gen got=%s term=%s" % (got_text(d), tt), {"mode": "gen", "vector": v})
    if events:
        rejected = run_trace(rep, events, tier)
        for eid in sorted(rejected):
            v, codes = gen_by_id[eid]
            rep.violation("gentext term=%s text=%s is not JSON for the term (Trace_C41)" % (term_text(v["term"]), show_text(codes)),
                          {"mode": "gen", "vector": v, "generated": txt(codes)})
    return len(events)


def run(tier):
    rep = Report(PROP, tier, META["level"])
    rep.rule = ("TLC enumerates (a) syntax trees of depth <= 2 with <= %d members over a leaf vocabulary, written with 9 "
                "whitespace styles and 4 escape spellings, (b) string contents of length <= 2%s with one spelling per "
                "character (raw, short escape, \\u lower/upper, surrogate pairs), (c) a catalogue of number spellings in 6 "
                "contexts, (d) an invalid-JSON catalogue, (e) all single deletions/insertions/replacements/truncations "
                "of valid base texts, (f) values for the generating mode. One case = one (mode, text) or (gen, value); "
                "distinct = distinct (mode, group, accepted?, term skeleton, lexical features of the text)"
                % (2 if tier == "quick" else 3, "" if tier == "quick" else " (3 over a small vocabulary)"))
    res, vecs = common.generate("MC_C41", "MC_C41_%s.cfg" % tier, workers=8 if tier == "quick" else 12, timeout=3600)
    rep.add_tlc(res)
    if not vecs:
        raise common.ToolError("no vectors generated")
    ptexts = {}
    gvals = {}
    for v in vecs:
        if v["g"] == "gen":
            gvals.setdefault(json.dumps(v["term"], sort_keys=True), v)
        else:
            ptexts.setdefault(tuple(v["text"]), v)
    pvecs = [ptexts[k] for k in sorted(ptexts)]
    gvecs = [gvals[k] for k in sorted(gvals)]
    for v in pvecs:
        python_crosscheck(v)
    nev = execute(rep, pvecs, gvecs, tier)
    step = max(1, len(pvecs) // 4)
    for v in pvecs[::step][:4]:
        rep.sample({"text": txt(v["text"]), "expected": term_text_loose(v["term"]) if v["ok"] else "rejected"})
    if gvecs:
        rep.sample({"generate": term_text(gvecs[len(gvecs) // 2]["term"])})
    rep.exhaustive = True
    rep.traces = len(pvecs) + nev
    rep.assumptions = [
        "TLC and BigInt.tla; JsonSpec's verdicts were cross-checked against Python's json module on every text of this run",
        "canonical text renderer and LeafAnswer projection of the harness",
        "numbers: integers exact; fractions/negative exponents denote the nearest binary64 (normal range; subnormal/overflow "
        "results are only checked for validity and number type); the sign of zero is not asserted",
        "generated text: only the first answer of phrase(json_chars(T), Cs) is examined",
    ]
    return rep.finish()


def replay(path):
    d = json.load(open(path))
    det = d["detail"]
    v = det["vector"]
    steps = [{"consult": PROG}]
    if det.get("mode") == "gen":
        steps.append({"q": "gj(%s, R)." % term_text(v["term"]), "max": 1})
    else:
        steps.append({"q": "pj(%s, R)." % codes_text(v["text"]), "max": 2})
        tt = term_text(v["term"]) if v["ok"] else None
        if tt is not None:
            steps.append({"q": "cj(%s, %s, R)." % (codes_text(v["text"]), tt), "max": 2})
    r = run_jobs([{"id": 0, "steps": steps, "timeout": 120}], workers=1)
    out = [got_text(describe(x)) if isinstance(x, dict) and ("a" in x or "panic" in x) else x for x in r[0].get("res", [r[0]])[1:]]
    print(json.dumps({"signature": d["signature"], "text": txt(v["text"]),
                      "expected": det.get("expected", term_text_loose(v["term"])), "observed": out}, indent=1, ensure_ascii=False))
    return 0
