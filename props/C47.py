"""C47 - Parsing a file lazily equals parsing its contents."""
import hashlib
import json
import os
import shutil

from lib import common, terms
from lib.common import Report, run_tlc, tlc_ok, run_jobs

PROP = "C47"

META = {
    "level": "model_checking",
    "text": "spec/LazyList.tla models library(pio)'s lazy list (phrase_from_file/2,3): stream position, materialised prefix, a "
            "frozen tail that remembers its stream position; a wake-up repositions the stream and reads K more characters; "
            "backtracking shrinks the list back to the choice point and re-uses the remembered position. Grammars are small "
            "nondeterministic recognisers with ordered alternatives (consume all; one answer per newline; look k characters "
            "ahead then backtrack; read to the end then fail into an earlier alternative; ..., needle, ...) run depth-first "
            "with findall semantics. With K in {2, 3} TLC runs every grammar on every content up to 3K+1 characters over "
            "{a, e-acute, newline}, one state per wake-up/backtrack/step, and checks at every step that materialised prefix "
            "++ rest of the stream = content and at the end that the answers equal the closed-form answers on the complete "
            "list (layer A), also in their run-length encoded form. The same closed forms then give the expected answers for "
            "files around the real chunk size (4096 characters x j + {-2..2}, j <= 3) with multi-byte characters and newlines "
            "placed on the chunk boundaries; the driver writes the files, runs phrase_from_file/2,3 with the catalogue grammars "
            "(as DCGs) and compares all answers with the closed forms and with phrase/2 on the character list read "
            "independently with get_char/2.",
    "note": "Trusted: TLC, the harness, Python file I/O, the closed forms being the meaning of the five catalogue DCGs (checked "
            "against the recogniser machine for all small contents). The catalogue stands for 'any grammar'; grammars from the "
            "C39 space are not replayed here. phrase_from_stream/2 on non-repositionable streams (the bb_put buffer path of "
            "pio.pl) is not exercised: phrase_from_file always opens with reposition(true).",
    "technique": "TLA+ state machine of the lazy list and recogniser model-checked by TLC (scaled-down chunk size); closed-form "
                 "answers from the specification replayed on files around the real chunk boundaries, plus a differential "
                 "against phrase/2",
}

PRELUDE = r"""
:- use_module(library(pio)).
:- use_module(library(dcgs)).
:- use_module(library(lists)).
g_all(Cs) --> seq(Cs).
g_line(L) --> seq(L), "\n", ... .
la(0) --> [].
la(N) --> { N > 0 }, [_], { N1 is N - 1 }, la(N1).
g_la(K, Cs) --> ( la(K), { false } | [] ), seq(Cs).
g_ef(C) --> ( seq(_), { false } | [C], ... ).
g_needle(B) --> seq(B), "\xe9\a", ... .
c47_chars(File, Cs) :-
    open(File, read, S, []),
    c47_get(S, Cs),
    close(S).
c47_get(S, Cs) :-
    get_char(S, C),
    (   C == end_of_file -> Cs = []
    ;   Cs = [C|Cs1], c47_get(S, Cs1)
    ).
"""


def pstr(s):
    return '"' + s.replace("\\", "\\\\").replace('"', '\\"') + '"'


def goal(g):
    n = g["name"]
    if n == "all":
        return "g_all(X__)"
    if n == "line":
        return "g_line(X__)"
    if n == "la":
        return "g_la(%d, X__)" % g["k"]
    if n == "ef":
        return "g_ef(X__)"
    if n == "needle":
        return "g_needle(X__)"
    raise common.ToolError("unknown grammar %r" % (g,))


def expand(runs):
    return "".join(chr(r["c"]) * r["len"] for r in runs)


def expected_answers(vec, content):
    """closed-form answers of the specification, rendered as the bindings of X"""
    g = vec["g"]["name"]
    out = []
    for a in vec["answers"]:
        mark = a[0]
        if g == "ef":
            out.append(content[0])
        else:
            out.append(content[:mark])
    return out


def answer_texts(out):
    """harness query result (findall over X__) -> list of strings, or ('panic'|'err'|'other', text)"""
    if out is None:
        return ("other", "no result")
    if "panic" in out:
        return ("panic", out["panic"])
    a = out.get("a", [])
    if not a:
        return ("other", "no answer")
    if isinstance(a[0], dict) and "b" in a[0]:
        b = a[0]["b"]
        if "E__" in b:
            return ("err", terms.show(terms.from_h(b["E__"])))
        xs = b.get("Xs__")
        if xs is None:
            return ("other", json.dumps(out)[:200])
        res = []
        items = xs.get("l") if "l" in xs else None
        if items is None:
            if xs.get("a") == "[]":
                items = []
            elif "s" in xs:           # a list of one-character atoms shown as a string
                items = [{"a": ch} for ch in xs["s"]]
            else:
                return ("other", json.dumps(xs)[:200])
        for it in items:
            if "s" in it:
                res.append(it["s"])
            elif "a" in it:
                res.append("" if it["a"] == "[]" else it["a"])
            elif "l" in it:
                res.append("".join(x.get("a", "?") for x in it["l"]))
            else:
                res.append(json.dumps(it)[:50])
        return res
    return ("other", json.dumps(out)[:200])


def run(tier):
    rep = Report(PROP, tier, META["level"])
    rep.rule = ("lazy-list model: K in {2} (quick) / {2,3} (thorough), all contents of <= 2K+1 / 3K+1 characters over {a, e-acute, "
                "newline}, 7-8 grammars, every step a TLC state. conformance: files of Chunk*j + d characters (Chunk = 4096; quick "
                "j <= 2, d in -1..1; thorough j <= 3, d in -2..2) filled with 'a' with a multi-byte character or newline at "
                "Chunk*jb + r and optionally a newline at the end or the same character twice, x the catalogue grammars (look-ahead "
                "1, Chunk, Chunk+1, ...); distinct = (grammar, special character, position relative to the boundary, second special, j, d)")
    lazy = tlc_ok(run_tlc("MC_C47", "MC_C47_%s.cfg" % tier, workers=8, timeout=3000), "C47 lazy-list model")
    rep.add_tlc(lazy)
    res, vecs = common.generate("MC_C47", "MC_C47_conf_%s.cfg" % tier, workers=8, timeout=1800)
    rep.add_tlc(res)
    if not vecs:
        raise common.ToolError("no vectors generated")
    return replay_vectors(rep, vecs)


def replay_vectors(rep, vecs, finish=True):
    wdir = os.path.join(common.WORK, "c47-%d" % os.getpid())
    shutil.rmtree(wdir, ignore_errors=True)
    os.makedirs(wdir)
    try:
        files = {}
        for v in vecs:
            content = expand(v["runs"])
            if len(content) != v["n"]:
                raise common.ToolError("run-length expansion does not have the announced length")
            key = hashlib.sha1(content.encode("utf-8")).hexdigest()[:16]
            if key not in files:
                path = os.path.join(wdir, "f_%s.txt" % key)
                with open(path, "w", encoding="utf-8", newline="") as f:
                    f.write(content)
                files[key] = (path, content)
            v["_key"] = key
        # group by file: the independent character list is read once per file
        by_file = {}
        for i, v in enumerate(vecs):
            by_file.setdefault(v["_key"], []).append(i)
        jobs, plan = [], {}
        keys = sorted(by_file)
        PER = 6
        for bi in range(0, len(keys), PER):
            steps = [{"consult": PRELUDE}]
            layout = []
            for key in keys[bi:bi + PER]:
                path, content = files[key]
                for i in by_file[key]:
                    g = goal(vecs[i]["g"])
                    opts = "" if i % 2 == 0 else ", [type(text)]"
                    layout.append((i, len(steps)))
                    steps.append({"q": "catch(findall(X__, phrase_from_file(%s, %s%s), Xs__), error(E__,_), true)." % (
                        g, pstr(path), opts), "max": 1})
                    steps.append({"q": "c47_chars(%s, Cs__), catch(findall(X__, phrase(%s, Cs__), Xs__), error(E__,_), true), "
                                       "length(Cs__, N__)." % (pstr(path), g), "max": 1})
            jid = "b%d" % bi
            jobs.append({"id": jid, "steps": steps, "timeout": 900, "fresh": True})
            plan[jid] = layout
        results = run_jobs(jobs, workers=8, job_timeout=900)
        for job in jobs:
            r = results.get(job["id"], {"crash": "missing"})
            if "crash" in r:
                i0 = plan[job["id"]][0][0]
                rep.violation("crash %s batch-with g=%s n=%d" % (r["crash"], vecs[i0]["g"]["name"], vecs[i0]["n"]),
                              {"vector": strip(vecs[i0]), "got": r["crash"]})
                continue
            rr = r["res"]
            for (i, off) in plan[job["id"]]:
                v = vecs[i]
                path, content = files[v["_key"]]
                lazy_out, full_out = (rr[off] if off < len(rr) else None), (rr[off + 1] if off + 1 < len(rr) else None)
                got = answer_texts(lazy_out)
                ref = answer_texts(full_out)
                exp = expected_answers(v, content)
                cls = classify(v)
                rep.case(cls)
                sig_id = "g=%s%s %s" % (v["g"]["name"], v["g"]["k"] or "", " ".join("%s=%s" % kv for kv in cls[1:]))
                if isinstance(got, tuple):
                    rep.violation("phrase_from_file %s:%s %s" % (got[0], got[1][:100], sig_id), {"vector": strip(v), "got": got[1]})
                    continue
                if isinstance(ref, tuple):
                    raise common.ToolError("reference phrase/2 run failed: %s %s" % (ref, sig_id))
                if ref != exp:
                    # the closed form (layer A) disagrees with phrase/2 on the full list: the oracle itself is wrong
                    raise common.ToolError("closed-form answers differ from phrase/2 on the complete list: %s exp=%s ref=%s" % (
                        sig_id, [len(x) for x in exp], [len(x) for x in ref]))
                if got != exp:
                    rep.violation("answers-differ %s expected_lengths=%s got_lengths=%s" % (
                        sig_id, [len(x) for x in exp][:6], [len(x) for x in got][:6]),
                        {"vector": strip(v), "expected_lengths": [len(x) for x in exp], "got_lengths": [len(x) for x in got],
                         "first_difference": first_diff(exp, got)})
    finally:
        shutil.rmtree(wdir, ignore_errors=True)
    if not finish:
        return rep
    rep.traces = len(vecs)
    for v in vecs[:: max(1, len(vecs) // 5)]:
        rep.sample({"g": v["g"], "runs": v["runs"], "answers": v["answers"]})
    rep.exhaustive = True
    rep.assumptions = ["TLC; spec/LazyList.tla (the recogniser machine agrees with the closed forms on all small contents)",
                       "the DCG prelude is the catalogue of the specification (seq//1 and ...//0 of library(dcgs))",
                       "the harness's LeafAnswer projection; Python file I/O"]
    return rep.finish()


def strip(v):
    return {k: x for k, x in v.items() if not k.startswith("_")}


def classify(v):
    runs = v["runs"]
    n = v["n"]
    specials = []
    pos = 0
    for r in runs:
        if r["c"] != 97:
            specials.append((pos + 1, r["c"], r["len"]))
        pos += r["len"]
    j = round(n / 4096)
    d = n - 4096 * j
    first = specials[0] if specials else (0, 0, 0)
    jb = round(first[0] / 4096)
    rel = first[0] - 4096 * jb
    second = "none"
    if first[2] == 2:
        second = "twice"
    elif len(specials) > 1 or (first[1] == 10 and first[2] == 1 and False):
        second = "nl_at_end"
    return ("%s%s" % (v["g"]["name"], v["g"]["k"] or ""), ("j", j), ("d", d), ("jb", jb), ("r", rel), ("c", first[1]), ("second", second))


def first_diff(exp, got):
    for k, (a, b) in enumerate(zip(exp, got)):
        if a != b:
            m = next((i for i, (x, y) in enumerate(zip(a, b)) if x != y), min(len(a), len(b)))
            return {"answer": k, "at": m, "expected": a[max(0, m - 3):m + 3], "got": b[max(0, m - 3):m + 3]}
    return {"answers": [len(exp), len(got)]}


def replay(path):
    d = json.load(open(path))
    v = d["detail"]["vector"]
    rep = Report(PROP, "replay", META["level"])
    rep.known = []
    replay_vectors(rep, [v], finish=False)
    print(json.dumps({"vector": v, "violations": [(s, {k: x for k, x in dt.items() if k != "vector"}) for s, dt in rep.violations]},
                     indent=1, ensure_ascii=False)[:3000])
    return 0
