"""C01 - Integer arithmetic is exact at every magnitude."""
import json
from lib import common, terms
from lib.common import Report, run_tlc, tlc_ok, run_jobs

PROP = "C01"

META = {
    "level": "model_checking",
    "text": "The integer fragment of is/2 is specified exactly in TLA+ (BigInt/ArithInt, sanity-checked by TLC against native "
            "arithmetic and algebraic identities). TLC enumerates every (operator, x, y) over a boundary set straddling the "
            "2^31/2^55/2^56/2^62/2^63/2^64/2^70 representation boundaries in both signs, shift counts up to 2^64 and exponents; "
            "every case is replayed against the real machine in three evaluation contexts. Bounded-exhaustive conformance, not proof.",
    "note": "Trusted: TLC, BigInt.tla (validated in the same run; results cross-checked against Python integers), the canonical "
            "text renderer and the LeafAnswer projection of the harness. Operands are bounded by 2^128; larger bignums exercise dashu only.",
    "technique": "TLA+ value-level specification (BigInt) enumerated by TLC; vectors replayed into the real evaluator",
}


def pyval(op, x, y):
    """independent cross-check of the TLA+ oracle with Python integers (sanity of layer A; a mismatch is a tool error)"""
    if op == "+": return x + y
    if op == "-": return x - y
    if op == "*": return x * y
    if op == "//":
        q = abs(x) // abs(y)
        return q if (x < 0) == (y < 0) else -q
    if op == "div": return x // y
    if op == "mod": return x % y
    if op == "rem":
        r = abs(x) % abs(y)
        return -r if x < 0 else r
    if op == "gcd":
        import math
        return math.gcd(x, y)
    if op == "^": return x ** y if y >= 0 else None
    if op == ">>": return x >> y if y >= 0 else x << -y
    if op == "<<": return x << y if y >= 0 else x >> -y
    if op == "/\\": return x & y
    if op == "\\/": return x | y
    if op == "xor": return x ^ y
    if op == "min": return min(x, y)
    if op == "max": return max(x, y)
    return None


def pyun(op, x):
    return {"-": -x, "+": x, "abs": abs(x), "sign": (x > 0) - (x < 0), "\\": ~x}[op]


def lit(n):
    return str(n) if n >= 0 else "(%d)" % n


def expr(v):
    x, y = int(v["x"]), int(v["y"])
    if v["kind"] == "bin":
        return "%s(%s,%s)" % (terms.quote_atom(v["op"]), lit(x), lit(y))
    return "%s(%s)" % (terms.quote_atom(v["op"]), lit(x))


def expected(v):
    if v["ok"]:
        return ("val", int(v["v"]))
    if v["e"] == "zero_divisor":
        return ("err", ('c', 'evaluation_error', (('a', 'zero_divisor'),)))
    if v["e"] == "undefined":
        return ("err", ('c', 'evaluation_error', (('a', 'undefined'),)))
    if v["e"] == "type_float":
        return ("err", ('c', 'type_error', (('a', 'float'), ('i', int(v["c"])))))
    raise ValueError(v)


def run(tier):
    rep = Report(PROP, tier, "model_checking")
    rep.rule = ("TLC enumerates (operator, x, y) over the boundary set (2^31, 2^55, 2^56, 2^62..2^64, 2^70 neighbours, "
                "small values, both signs), shift counts and exponents; each case is evaluated by the BigInt "
                "specification and replayed in three contexts (compiled clause body, query, run-time expression "
                "walk). distinct = distinct (op, size class of x, size class of y, context)")
    san = tlc_ok(run_tlc("MC_BigInt", "MC_BigInt_%s.cfg" % tier, workers=8, timeout=1800), "BigInt sanity")
    rep.add_tlc(san)
    res = tlc_ok(run_tlc("MC_C01", "MC_C01_%s.cfg" % tier, workers=8 if tier == "quick" else 14,
                         timeout=3600), "C01 generation")
    rep.add_tlc(res)
    seen = {}
    for v in res.printed():
        seen[(v["kind"], v["op"], v["x"], v["y"])] = v
    vecs = [seen[k] for k in sorted(seen)]
    if not vecs:
        raise common.ToolError("no vectors generated")
    # oracle self-check against Python integers
    for v in vecs:
        x, y = int(v["x"]), int(v["y"])
        if v["ok"]:
            if v["kind"] == "bin":
                if v["op"] in (">>", "<<") and abs(y) > 400:
                    pv = (0 if x >= 0 else -1)
                else:
                    pv = pyval(v["op"], x, y)
            else:
                pv = pyun(v["op"], x)
            if pv is not None and pv != int(v["v"]):
                raise common.ToolError("oracle self-check failed: %r python=%s" % (v, pv))
    # jobs: batches of 150 cases; one consulted program with a clause per case
    B = 150
    ctxs = ["clause", "query", "walk"]

    def cls(n):
        a = abs(n)
        for b in (0, 1, 31, 55, 56, 62, 63, 64, 70):
            if a < (1 << b):
                return b
        return 128

    pending, rounds, clause_only = list(vecs), 0, False
    while pending and rounds < 12:
        rounds += 1
        B = 150 if rounds == 1 else 4        # after a panic: small batches, so that one panicking case costs few followers
        jobs = []
        for bi in range(0, len(pending), B):
            batch = pending[bi:bi + B]
            prog = []
            steps = []
            for j, v in enumerate(batch):
                e = expr(v)
                prog.append("c%d(X) :- X is %s." % (j, e))
            steps.append({"consult": "\n".join(prog) + "\n"})
            for j, v in enumerate(batch):
                e = expr(v)
                steps.append({"q": "catch(c%d(X), error(E,_), true)." % j, "max": 2})
                steps.append({"q": "catch(X is %s, error(E,_), true)." % e, "max": 2})
                steps.append({"q": "T = %s, catch(X is T, error(E,_), true)." % e, "max": 2})
            jobs.append({"id": bi, "steps": steps, "timeout": 120, "fresh": True})
        results = run_jobs(jobs, workers=8, job_timeout=120)
        redo = []
        for job in jobs:
            bi = job["id"]
            batch = pending[bi:bi + B]
            r = results.get(bi, {"crash": "missing"})
            if "crash" in r:
                rep.violation("batch %d crashed: %s" % (bi, r["crash"]), {"job": job, "result": r})
                continue
            rs = r["res"][1:]
            lost = False      # a panic makes the harness start a new machine: the consulted clauses of this batch are gone
            for j, v in enumerate(batch):
                exp = expected(v)
                for k, ctx in enumerate(ctxs):
                    out = rs[3 * j + k]
                    if ctx == "clause" and lost:
                        redo.append(v)
                        continue
                    if clause_only and ctx != "clause":
                        continue
                    rep.case((v["kind"], v["op"], cls(int(v["x"])), cls(int(v["y"])), ctx))
                    got = None
                    if "panic" in out:
                        got = ("panic", out["panic"])
                        lost = True
                    else:
                        a = out["a"]
                        if len(a) >= 1 and isinstance(a[0], dict) and "b" in a[0]:
                            b = a[0]["b"]
                            if "E" in b and "X" not in b:
                                got = ("err", terms.from_h(b["E"]))
                            elif "X" in b and "i" in b["X"] and "E" not in b:
                                got = ("val", int(b["X"]["i"]))
                            else:
                                got = ("other", b)
                        else:
                            got = ("other", a)
                    if got != exp:
                        kind = "negshift" if (v["op"] in (">>", "<<") and int(v["x"]) < 0) else "general"
                        sig = "%s expr=%s ctx=%s expected=%s got=%s" % (kind, expr(v), ctx, exp, got)
                        rep.violation(sig, {"vector": v, "context": ctx, "expected": exp, "got": got,
                                            "query": job["steps"][1 + 3 * j + k] if k else prog_line(batch, j)})
        pending, clause_only = redo, True
    if pending:
        raise common.ToolError("%d clause-context cases could not be run after %d rounds" % (len(pending), rounds))
    for v in vecs[:: max(1, len(vecs) // 5)]:
        rep.sample({"expr": expr(v), "expected": expected(v)})
    rep.exhaustive = True
    rep.assumptions = ["TLC and the BigInt module (sanity theorems checked in this run; results cross-checked with Python integers)",
                       "canonical text renderer and LeafAnswer projection of the harness"]
    rep.traces = len(vecs)  # spec behaviours (one-step) replayed into the implementation
    return rep.finish()


def prog_line(batch, j):
    return "c%d(X) :- X is %s." % (j, expr(batch[j]))


def replay(path):
    d = json.load(open(path))
    v = d["detail"]["vector"]
    e = expr(v)
    jobs = [{"id": 0, "steps": [{"consult": "c0(X) :- X is %s.\n" % e},
                                 {"q": "catch(c0(X), error(E,_), true)."},
                                 {"q": "catch(X is %s, error(E,_), true)." % e},
                                 {"q": "T = %s, catch(X is T, error(E,_), true)." % e}]}]
    r = run_jobs(jobs, workers=1)
    print(json.dumps({"expr": e, "expected": expected(v), "result": r[0]}, indent=1, default=str))
    return 0
