"""C43 - op/3 and current_op/3 maintain a consistent operator table."""
import json

from lib import common, terms
from lib.common import Report, run_tlc, tlc_ok, run_jobs

PROP = "C43"

META = {
    "level": "model_checking",
    "text": "The operator table is specified in TLA+ (spec/OpTable.tla) as a state machine: state = function from (name, class) "
            "to (priority, specifier); op/3 with the admissibility rules and error terms of ISO 8.14.3 (+Cor.2: bar, [] and {}), "
            "current_op/3 as the set of solutions in every instantiation pattern, and the reading of probe sentences under a "
            "table (operator class, associativity, argument priority 999). TLC explores the tables reachable from the predefined "
            "table within a bound and applies EVERY call of the universe (8 names x 9 priorities x 9 specifiers, unbound and "
            "ill-typed arguments, lists of names) in every explored state, checking consistency invariants of the table; "
            "thorough adds random histories of 20 calls. Every transition is replayed on the real machine: the outcome "
            "(success / error Formal), the table slice read back with current_op/3, current_op/3 in all instantiation patterns "
            "and the probe sentences read with read_term_from_chars/3 are compared with the specification after every call.",
    "note": "Trusted: TLC, the harness, the canonical text renderer. The initial table of the real machine is read first and its "
            "slice must equal the specification's predefined table (ISO table 7 must be contained in it). Universe of 8 names; "
            "module-local operator tables, operators exported by modules and the effect of op/3 directives while loading are "
            "not covered. Where ISO fixes no precedence among applicable errors any of them is accepted; for a list of names "
            "whose application stops at an infix/postfix conflict both 'nothing applied' and 'applied up to the conflict' are "
            "accepted.",
    "technique": "TLA+ state-machine specification explored by TLC (bounded BFS, every call in every state, + simulation); "
                 "transitions replayed into the real machine",
}

ERRV = "E__"
CHUNK = 150


# ------------------------------------------------------------------------------------------------
# rendering
# ------------------------------------------------------------------------------------------------

def qa(n):
    return terms.quote_atom(n)


def entry_txt(e):
    return "'op'(%d,%s,%s)" % (e[0], qa(e[1]), qa(e[2]))


def tab_txt(tab):
    return "[" + ",".join(entry_txt(e) for e in tab) + "]"


def tab_key(tab):
    return tuple(sorted((int(e[0]), e[1], e[2]) for e in tab))


def tab_show(tab):
    return ";".join("%d:%s:%s" % e for e in tab_key(tab))


def helpers(names):
    return ("""
:- use_module(library(lists)).
:- use_module(library(charsio)).
c43_u([%s]).
c43_slice(L) :- c43_u(U), findall(op(P,T,N), (current_op(P,T,N), memberchk(N,U)), L).
c43_rm([]).
c43_rm([op(_,T,N)|Os]) :- ( N == (',') -> true ; catch(op(0,T,N), _, catch(op(0,T,[N]), _, true)) ), c43_rm(Os).
c43_add([]).
c43_add([op(P,T,N)|Os]) :- ( N == (',') -> true ; catch(op(P,T,N), _, true) ), c43_add(Os).
c43_same(L1, L2) :- sort(L1, S), sort(L2, S).
c43_sync(Target, R) :-
    c43_slice(L),
    (  c43_same(L, Target) -> R = same
    ;  c43_rm(L), c43_add(Target), c43_slice(L2),
       ( c43_same(L2, Target) -> R = resync(L) ; R = stuck(L, L2) )
    ).
c43_probes(Texts, Rs) :-
    findall(R, ( member(Cs, Texts),
                 catch(( read_term_from_chars(Cs, T, []), R = ok(T) ), error(E, _), R = err(E)) ), Rs).
c43_pats(Qs, As) :-
    c43_u(U),
    findall(A, ( member(q(P,T,N), Qs), findall(op(P,T,N), (current_op(P,T,N), memberchk(N,U)), A) ), As).
""" % ",".join(names))


def q_op(act):
    return "catch(op(%s),error(%s,_),true)." % (act, ERRV)


def q_sync(tab):
    return "c43_sync(%s,R)." % tab_txt(tab)


def probe_text(toks):
    return " ".join(toks).replace("f (", "f(") + " ."


def q_probes(probes):
    return "catch(c43_probes([%s],Rs),error(%s,_),true)." % (",".join('"%s"' % probe_text(p["toks"] if isinstance(p, dict) else p)
                                                                       for p in probes), ERRV)


def pat_txt(q):
    return "q(%s,%s,%s)" % ("_" if q[0] == -1 else str(q[0]), "_" if q[1] == "_" else qa(q[1]),
                           "_" if q[2] == "_" else qa(q[2]))


def q_pats(qs):
    return "catch(c43_pats([%s],As),error(%s,_),true)." % (",".join(pat_txt(q) for q in qs), ERRV)


def anon(t):
    if t[0] == 'v':
        return ('v', '_')
    if t[0] == 'c':
        return ('c', t[1], tuple(anon(x) for x in t[2]))
    return t


def ctext(t):
    return terms.text(anon(t))


def list_items(t):
    out = []
    while t[0] == 'c' and t[1] == '.' and len(t[2]) == 2:
        out.append(t[2][0])
        t = t[2][1]
    return out


def ops_of(t):
    """canonical list of op(P,T,N) -> sorted tuple of (p, s, n); None if malformed"""
    res = []
    for x in list_items(t):
        if x[0] == 'c' and x[1] == 'op' and len(x[2]) == 3 and x[2][0][0] == 'i' and x[2][1][0] == 'a' and x[2][2][0] == 'a':
            res.append((x[2][0][1], x[2][1][1], x[2][2][1]))
        else:
            return None
    return tuple(sorted(res))


def first_binding(out, var):
    """-> ('val', canonical term) | ('nobind',) | ('fail',) | ('err', text) | ('panic', msg) | ('other', x)"""
    if "panic" in out:
        return ("panic", out["panic"])
    a = out.get("a", [])
    if not a:
        return ("other", "no answer")
    a0 = a[0]
    if a0 == "F":
        return ("fail",)
    if a0 == "T":
        return ("nobind",)
    if isinstance(a0, dict):
        if "b" in a0:
            if ERRV in a0["b"]:
                return ("err", ctext(terms.from_h(a0["b"][ERRV])))
            if var in a0["b"]:
                return ("val", terms.from_h(a0["b"][var]))
            return ("nobind",)
        if "e" in a0:
            return ("err", "uncaught " + ctext(terms.from_h(a0["e"])))
        if "x" in a0:
            return ("err", "ball " + ctext(terms.from_h(a0["x"])))
    return ("other", a0)


def outcome(out):
    r = first_binding(out, None)
    if r[0] == "nobind":
        return "success"
    if r[0] == "err":
        return r[1]
    if r[0] == "fail":
        return "failure"
    if r[0] == "panic":
        return "panic " + r[1]
    return "other %r" % (r[1:],)


# ------------------------------------------------------------------------------------------------
# evaluation of observations
# ------------------------------------------------------------------------------------------------

def mode_of(q):
    return "P%sT%sN%s" % ("-" if q[0] == -1 else "+", "-" if q[1] == "_" else "+", "-" if q[2] == "_" else "+")


def defs_of(tab, n):
    return "[" + ",".join("%d:%s" % (e[0], e[1]) for e in tab_key(tab) if e[2] == n) + "]"


def check_probes(rep, ctx, tab, probes, names, reads, out, detail):
    """probes: token lists; names: operator name of each; reads: expected canonical text / '' / '?'"""
    r = first_binding(out, "Rs")
    if r[0] != "val":
        rep.violation("read probes %s table=%s: %r" % (ctx, tab_show(tab), r), detail)
        return
    got = list_items(r[1])
    if len(got) != len(probes):
        rep.violation("read probes %s table=%s: %d results for %d sentences" % (ctx, tab_show(tab), len(got), len(probes)), detail)
        return
    for toks, n, exp, g in zip(probes, names, reads, got):
        if exp == "?":
            continue
        rep.evaluations += 1
        if g[0] == 'c' and g[1] == 'ok' and len(g[2]) == 1:
            gt = ctext(g[2][0])
        elif g[0] == 'c' and g[1] == 'err' and len(g[2]) == 1:
            e = g[2][0]
            gt = "syntax_error" if (e[0] == 'c' and e[1] == 'syntax_error') else "error " + ctext(e)
        else:
            gt = "other " + ctext(g)
        et = exp if exp else "syntax_error"
        if gt != et:
            d = dict(detail)
            d.update({"sentence": probe_text(toks), "expected": et, "got": gt})
            rep.violation("read text=<%s> n=%s defs=%s expected=%s got=%s" % (" ".join(toks), n, defs_of(tab, n), et, gt), d)


def check_pats(rep, ctx, tab, qs, ans, out, detail):
    r = first_binding(out, "As")
    if r[0] != "val":
        rep.violation("current_op patterns %s table=%s: %r" % (ctx, tab_show(tab), r), detail)
        return
    got = list_items(r[1])
    if len(got) != len(qs):
        rep.violation("current_op patterns %s table=%s: %d results for %d patterns" % (ctx, tab_show(tab), len(got), len(qs)), detail)
        return
    for q, exp, g in zip(qs, ans, got):
        rep.evaluations += 1
        e = tab_key(exp)
        gg = ops_of(g)
        if gg is None or gg != e:
            # the answers are compared as sets, but a duplicate solution is a mismatch too (gg is a sorted tuple)
            d = dict(detail)
            d.update({"pattern": q, "expected": e, "got": gg if gg is not None else ctext(g)})
            rep.violation("current_op mode=%s q=%s expected=[%s] got=[%s]" % (
                mode_of(q), pat_txt(q), tab_show(exp), ";".join("%d:%s:%s" % x for x in gg) if gg is not None else "malformed"), d)


def act_class(v, changed):
    act = v["act"]
    p, _, rest = act.partition(",")
    s, _, n = rest.partition(",")
    try:
        pi = int(p.strip("()"))
        pk = "neg" if pi < 0 else "zero" if pi == 0 else "low" if pi <= 1000 else "high" if pi <= 1200 else "over"
    except ValueError:
        pk = p
    exp = "ok" if not v["errs"] else "|".join(sorted(e.split("(")[0] + ("" if "(" not in e else "(" + e.split("(")[1].split(",")[0])
                                                     for e in v["errs"]))
    return (pk, s, n, exp, changed, len(v["adm"]))


class Plan:
    """steps of one job plus the decoding plan"""

    def __init__(self, jid, names):
        self.job = {"id": jid, "fresh": True, "timeout": 180, "steps": [{"consult": helpers(names)}]}
        self.plan = [("consult",)]

    def add(self, q, tag):
        self.job["steps"].append({"q": q, "max": 1})
        self.plan.append(tag)
        return len(self.plan) - 1


def eval_step(rep, v, st, outs, idx, where, detail, st_probes=None):
    """Evaluate one call. idx: dict of step indices (op, slice, probes, pats). Returns (conformant, alt index or None,
    observed table key)."""
    changed = any(not a["same"] for a in v["alts"])
    rep.case(act_class(v, changed))
    got = outcome(outs[idx["op"]])
    ok_outcome = (got == "success") if not v["errs"] else (got in v["errs"])
    sl = first_binding(outs[idx["slice"]], "L")
    obs_tab = ops_of(sl[1]) if sl[0] == "val" else None
    adm = [tab_key(t) for t in v["adm"]]
    exp_txt = "success" if not v["errs"] else "[" + ",".join(v["errs"]) + "]"
    if not ok_outcome:
        rep.violation("op act=%s expected=%s got=%s table=%s" % (v["act"], exp_txt, got, tab_show(v["tab"])),
                      dict(detail, expected=exp_txt, got=got, observed_table=obs_tab))
        return False, None, obs_tab
    if obs_tab is None or obs_tab not in adm:
        rep.violation("table act=%s outcome=%s from=%s expected=%s got=%s" % (
            v["act"], got, tab_show(v["tab"]), " or ".join(tab_show(t) for t in v["adm"]),
            ";".join("%d:%s:%s" % x for x in obs_tab) if obs_tab is not None else repr(sl)),
            dict(detail, observed_table=obs_tab))
        return False, None, obs_tab
    # which described alternative is it
    j = None
    for k, a in enumerate(v["alts"]):
        if tab_key(a["obs"]["tab"]) == obs_tab:
            j = k
    if j is None:
        return True, None, obs_tab          # admissible, but not the branch this behaviour follows
    a = v["alts"][j]
    if v["probes"] or v["qs"]:
        # the vector describes the observations in each of its next tables
        if idx.get("probes") is not None:
            check_probes(rep, where, a["obs"]["tab"], v["probes"], probe_names(v["probes"]), a["obs"]["reads"],
                         outs[idx["probes"]], detail)
        if idx.get("pats") is not None:
            check_pats(rep, where, a["obs"]["tab"], v["qs"], a["obs"]["ans"], outs[idx["pats"]], detail)
    elif a["same"] and st_probes is not None and idx.get("probes") is not None:
        # the table is unchanged: the observations of the state (for the names the call mentions) still apply
        pr, pn, rd = st_probes
        check_probes(rep, where, v["tab"], pr, pn, rd, outs[idx["probes"]], detail)
    return True, j, obs_tab


def probe_names(probes):
    """the operator name of a probe sentence: the token that is not one of the fixed tokens"""
    fixed = {"a", "b", "c", "f", "(", ")"}
    return [[t for t in toks if t not in fixed][0] for toks in probes]


def state_probe_sel(st, ns):
    sel = [k for k, n in enumerate(st["pn"]) if n in ns]
    return ([st["probes"][k] for k in sel], [st["pn"][k] for k in sel], [st["obs"]["reads"][k] for k in sel])


# ------------------------------------------------------------------------------------------------
# the tour of one state
# ------------------------------------------------------------------------------------------------

def build_tour(jid, names, st, trs, first):
    pl = Plan(jid, names)
    for e in st["reach"]:
        pl.add(q_op("%d,%s,%s" % (e[0], qa(e[1]), qa(e[2]))), ("reach", e))
    pl.add(q_sync(st["tab"]), ("entered",))
    if first:
        pl.add(q_probes(st["probes"]), ("st_probes",))
        for k in range(0, len(st["qs"]), 60):
            pl.add(q_pats(st["qs"][k:k + 60]), ("st_pats", k))
    for ti, v in enumerate(trs):
        idx = {}
        pl.add(q_sync(st["tab"]), ("sync", ti))
        idx["op"] = pl.add(q_op(v["act"]), ("op", ti))
        idx["slice"] = pl.add("c43_slice(L).", ("slice", ti))
        if v["probes"] or v["qs"]:
            if v["probes"]:
                idx["probes"] = pl.add(q_probes(v["probes"]), ("probes", ti))
            if v["qs"]:
                idx["pats"] = pl.add(q_pats(v["qs"]), ("pats", ti))
        else:
            pr = state_probe_sel(st, set(v["ns"]))
            if pr[0]:
                idx["probes"] = pl.add(q_probes(pr[0]), ("probes", ti))
        if len(v["alts"]) == 1:
            for e in v["alts"][0]["undo"]:
                pl.add(q_op("%d,%s,%s" % (e[0], qa(e[1]), qa(e[2]))), ("undo", ti, e))
        v["_idx"] = idx
    pl.add(q_sync(st["tab"]), ("sync", len(trs)))
    return pl


def eval_tour(rep, pl, st, trs, first, result):
    """returns the list of transitions that could not be evaluated (state lost) for a re-run"""
    where = "state=" + tab_show(st["tab"])
    if "crash" in result:
        rep.violation("crash %s: %s" % (where, result["crash"]), {"state": st["tab"], "reach": st["reach"], "result": result})
        return []
    outs = result["res"]
    sync_at = {}
    undo_fail = {}
    for k, tag in enumerate(pl.plan):
        if tag[0] == "reach":
            got = outcome(outs[k])
            if got != "success":
                rep.violation("reach %s call=%s got=%s" % (where, tag[1], got), {"state": st["tab"], "reach": st["reach"]})
                return []
        elif tag[0] == "entered":
            r = first_binding(outs[k], "R")
            if not (r[0] == "val" and r[1] == ('a', 'same')):
                rep.violation("reach %s: table after the calls %s is %s" % (where, st["reach"], ctext(r[1]) if r[0] == "val" else r),
                              {"state": st["tab"], "reach": st["reach"]})
                return []
        elif tag[0] == "st_probes":
            check_probes(rep, where, st["tab"], st["probes"], st["pn"], st["obs"]["reads"], outs[k],
                         {"state": st["tab"], "reach": st["reach"]})
        elif tag[0] == "st_pats":
            o = tag[1]
            check_pats(rep, where, st["tab"], st["qs"][o:o + 60], st["obs"]["ans"][o:o + 60], outs[k],
                       {"state": st["tab"], "reach": st["reach"]})
        elif tag[0] == "sync":
            sync_at[tag[1]] = first_binding(outs[k], "R")
        elif tag[0] == "undo":
            got = outcome(outs[k])
            if got != "success":
                undo_fail[tag[1]] = (tag[2], got)
    lost = []
    for ti, v in enumerate(trs):
        pre = sync_at.get(ti)
        if not (pre and pre[0] == "val"):
            lost.append(v)
            continue
        if pre[1][0] == 'c' and pre[1][1] == 'stuck':
            lost.append(v)
            continue
        detail = {"state": st["tab"], "reach": st["reach"], "vector": {k: x for k, x in v.items() if k != "_idx"}}
        ok, j, obs_tab = eval_step(rep, v, st, outs, v["_idx"], where, detail, state_probe_sel(st, set(v["ns"])))
        # did the state survive (spec: Fix(next, state) leads back)
        post = sync_at.get(ti + 1)
        if ok and len(v["alts"]) == 1 and post and post[0] == "val" and post[1] != ('a', 'same'):
            rep.violation("undo act=%s from=%s: calls %s did not restore the state (%s)" % (
                v["act"], tab_show(st["tab"]), v["alts"][0]["undo"], undo_fail.get(ti, ctext(post[1]))), detail)
    return lost


# ------------------------------------------------------------------------------------------------
# walks
# ------------------------------------------------------------------------------------------------

def build_walk(jid, names, steps):
    pl = Plan(jid, names)
    for si, v in enumerate(steps):
        idx = {}
        idx["op"] = pl.add(q_op(v["act"]), ("op", si))
        idx["slice"] = pl.add("c43_slice(L).", ("slice", si))
        if v["probes"]:
            idx["probes"] = pl.add(q_probes(v["probes"]), ("probes", si))
        if v["qs"]:
            idx["pats"] = pl.add(q_pats(v["qs"]), ("pats", si))
        v["_idx"] = idx
    return pl


def eval_walk(rep, pl, steps, result, wid):
    if "crash" in result:
        rep.violation("crash walk: %s" % result["crash"], {"walk": [s["act"] for s in steps], "result": result})
        return 0
    outs = result["res"]
    done = 0
    for si, v in enumerate(steps):
        detail = {"walk": [{k: x for k, x in s.items() if k != "_idx"} for s in steps[:si + 1]]}
        ok, j, obs_tab = eval_step(rep, v, None, outs, v["_idx"], "walk step %d" % si, detail)
        if not ok:
            break
        done += 1
        if j is None:
            break      # the implementation took the other admissible branch; the sibling behaviour covers it
    return done


# ------------------------------------------------------------------------------------------------

def load_vectors(res):
    init, states, trs, walks = None, {}, {}, []
    for v in res.printed():
        k = v.get("kind")
        if k == "init":
            init = v
        elif k == "st":
            states[tab_key(v["tab"])] = v
        elif k == "tr":
            trs.setdefault(tab_key(v["v"]["tab"]), {})[v["v"]["act"]] = v["v"]
        elif k == "walk":
            walks.append(v["steps"])
    return init, states, trs, walks


def check_init(rep, init):
    names = init["names"]
    pl = Plan("init", names)
    pl.add("findall(op(P,T,N),current_op(P,T,N),L).", ("all",))
    pl.add("c43_slice(L).", ("slice",))
    r = run_jobs([pl.job], workers=1, job_timeout=120)["init"]
    if "crash" in r:
        raise common.ToolError("cannot read the initial operator table: %r" % (r,))
    full = first_binding(r["res"][1], "L")
    sl = first_binding(r["res"][2], "L")
    if full[0] != "val" or sl[0] != "val":
        rep.violation("init: cannot enumerate the initial table: %r %r" % (full[:1], sl[:1]), {"result": r})
        return False
    fullk, slk = ops_of(full[1]), ops_of(sl[1])
    rep.case(("init",))
    good = True
    if slk != tab_key(init["tab"]):
        rep.violation("init slice expected=%s got=%s" % (tab_show(init["tab"]), slk), {"expected": init["tab"], "got": slk})
        good = False
    missing = [e for e in tab_key(init["iso"]) if e not in set(fullk or ())]
    for e in missing:
        rep.violation("init predefined operator missing: %d:%s:%s" % e, {"entry": e})
    if fullk is not None and len(set(fullk)) != len(fullk):
        rep.violation("init: current_op/3 enumerates an operator twice", {"got": fullk})
    rep.extra["initial_table_size"] = len(fullk or ())
    return good


def run_bfs(rep, init, states, trs):
    names = init["names"]
    pending = []
    for key in sorted(states):
        st = states[key]
        tl = [trs[key][a] for a in sorted(trs.get(key, {}))]
        for c in range(0, max(1, len(tl)), CHUNK):
            pending.append((st, tl[c:c + CHUNK], c == 0))
    n_tr = 0
    for attempt in range(2):
        if not pending:
            break
        plans = []
        for i, (st, tl, first) in enumerate(pending):
            plans.append(build_tour("t%d_%d" % (attempt, i), names, st, tl, first))
        results = run_jobs([p.job for p in plans], workers=8, job_timeout=180)
        nxt = []
        for p, (st, tl, first) in zip(plans, pending):
            lost = eval_tour(rep, p, st, tl, first, results.get(p.job["id"], {"crash": "missing"}))
            n_tr += len(tl) - len(lost)
            if lost:
                if attempt == 0:
                    for c in range(0, len(lost), 25):
                        nxt.append((st, lost[c:c + 25], False))
                else:
                    rep.violation("state lost: %d calls could not be evaluated in state %s" % (len(lost), tab_show(st["tab"])),
                                  {"state": st["tab"], "reach": st["reach"], "calls": [v["act"] for v in lost[:20]]})
        pending = nxt
    return n_tr


def run(tier):
    rep = Report(PROP, tier, META["level"])
    rep.rule = ("TLC explores the operator tables that differ from the predefined table in at most Depth keys and applies every "
                "call of the universe in every such state (one vector per transition: outcome, admissible next tables, "
                "current_op/3 patterns, probe sentences); thorough adds a wider state set and random histories of 20 calls. "
                "distinct = (class of priority argument, specifier argument, name argument, expected outcome class, table changed, "
                "number of admissible next tables)")
    res = tlc_ok(run_tlc("MC_C43", "MC_C43_%s.cfg" % tier, workers=8, timeout=3000), "C43 bfs")
    rep.add_tlc(res)
    rep.extra["tlc_wall_s"] = round(res.wall, 1)
    init, states, trs, _ = load_vectors(res)
    if tier == "thorough":
        res2 = tlc_ok(run_tlc("MC_C43", "MC_C43_wide.cfg", workers=8, timeout=3000), "C43 bfs wide")
        rep.add_tlc(res2)
        _, states2, trs2, _ = load_vectors(res2)
        for k, s in states2.items():
            if k not in states:
                states[k] = s
                trs[k] = trs2.get(k, {})
    if init is None or not states or not trs:
        raise common.ToolError("no vectors generated")
    if sum(len(x) for x in trs.values()) != sum(len(trs.get(k, {})) for k in states):
        raise common.ToolError("transition vectors without a state vector")
    if not check_init(rep, init):
        return rep.finish()
    n_tr = run_bfs(rep, init, states, trs)
    rep.extra["states_explored"] = len(states)
    rep.extra["transitions_replayed"] = n_tr
    rep.traces = n_tr
    if tier == "thorough":
        nw = 1500
        outs = common.simulate_parallel("MC_C43", "MC_C43_walk.cfg", procs=4, num=nw // 4, depth=21, timeout=3000)
        walks = []
        for o in outs:
            tlc_ok(o, "C43 walk")
            rep.add_tlc(o)
            walks += load_vectors(o)[3]
        if not walks:
            raise common.ToolError("no walks generated")
        plans = [build_walk("w%d" % i, init["names"], w) for i, w in enumerate(walks)]
        results = run_jobs([p.job for p in plans], workers=8, job_timeout=180)
        steps_done = 0
        for i, (p, w) in enumerate(zip(plans, walks)):
            steps_done += eval_walk(rep, p, w, results.get(p.job["id"], {"crash": "missing"}), i)
        rep.extra["random_histories"] = len(walks)
        rep.extra["random_history_steps_replayed"] = steps_done
        rep.traces += len(walks)
    for key in sorted(states)[:: max(1, len(states) // 3)]:
        rep.sample({"state": tab_show(states[key]["tab"]), "reach": states[key]["reach"], "calls": len(trs.get(key, {}))})
    rep.exhaustive = True
    rep.assumptions = ["TLC and spec/OpTable.tla (consistency and frame invariants checked in the same run)",
                       "the harness answer projection and the canonical text renderer",
                       "the state of a tour is re-established with op/3 itself (spec operator Fix) and verified by reading the table back"]
    return rep.finish()


def replay(path):
    d = json.load(open(path))
    det = d["detail"]
    names = ["[]", "'-'", "'+'", "'|'", "','", "{}", "'foo'", "'bar'"]
    pl = Plan("replay", names)
    if "walk" in det:
        for s in det["walk"]:
            pl.add(q_op(s["act"]), ("op",))
            pl.add("c43_slice(L).", ("slice",))
        if det.get("sentence"):
            pl.add(q_probes([det["sentence"][:-2].split(" ")]), ("probe",))
    else:
        for e in det.get("reach", []):
            pl.add(q_op("%d,%s,%s" % (e[0], qa(e[1]), qa(e[2]))), ("reach",))
        pl.add("c43_slice(L).", ("slice",))
        v = det.get("vector")
        if v:
            pl.add(q_op(v["act"]), ("op",))
            pl.add("c43_slice(L).", ("slice",))
            if v["probes"]:
                pl.add(q_probes(v["probes"]), ("probes",))
            if v["qs"]:
                pl.add(q_pats(v["qs"]), ("pats",))
        if det.get("sentence"):
            pl.add(q_probes([det["sentence"][:-2].split(" ")]), ("probe",))
        if det.get("pattern"):
            pl.add(q_pats([det["pattern"]]), ("pattern",))
    r = run_jobs([pl.job], workers=1, job_timeout=120)["replay"]
    print("signature:", d["signature"])
    for s, o in zip(pl.job["steps"][1:], r.get("res", [])[1:]):
        print(s["q"][:300])
        print("   ->", json.dumps(o)[:600])
    return 0
