"""C08 - Static, dynamic and meta-called code give the same answers."""
import json
from lib import common, terms
from lib.common import Report, run_jobs, generate, tlc_ok
from lib.prolog_replay import Prog, features, clause_text, rename_goal

PROP = "C08"
META = {
    "level": "model_checking",
    "text": "The program space of C07 (spec/MC_C08.tla EXTENDS MC_C07: every 1- and 2-clause program of the clause grammar, plus "
            "randomly constructed deeper programs) is run by the abstract ISO machine spec/Prolog.tla in every loading mode: static, "
            "dynamic with the clauses added by assertz/1 in the query, meta-interpreted through clause/2 by a vanilla meta-interpreter "
            "with ISO cut barriers that is itself a program executed by the abstract machine, query goal inside call/1 and call/N, and "
            "every clause body wrapped in call/1. TLC checks (invariant Agree) that all modes give the same answer sequence and ball, "
            "except the call/1-wrapped bodies when a body contains a cut that belongs to the clause (documented opacity of call/N); "
            "there the expected answers are the ones computed for the wrapped program. Every finished program is replayed against the "
            "real system in the modes static consult, consult in discontiguous interleaved pieces, assertz, meta-interpreter (its text "
            "is printed by the spec), call/1, call/N and call-wrapped bodies, and each answer sequence is compared with the spec.",
    "note": "Trusted: TLC; spec/Prolog.tla as the reading of ISO 7.7/7.8; the renderer and LeafAnswer projection. The discontiguous mode "
            "is the static mode by definition of the abstract database (clauses of a predicate in source order). Error balls are compared "
            "on the Formal of error/2 only. Programs whose reference run diverges, creates cyclic terms or exceeds the step bound are not "
            "emitted; a mode whose run exceeds its own bound in the spec is skipped for that program (counted in coverage.skipped_modes).",
    "technique": "TLA+ abstract machine explored by TLC in several loading modes; behaviours replayed into the real engine (spec -> impl)",
}

HELPERS = """:- use_module(library(iso_ext)).
:- dynamic(user_pred/1).
q(a). q(b).
t(1). t(2). t(3).
r(a,1). r(b,2). r(c,3).
u(X,Y) :- q(X), r(X,Y).
app([],X,X).
app([H|T],Y,[H|R]) :- app(T,Y,R).
len([],0).
len([H|T],N) :- len(T,M), N is M+1.
"""
KEYS = [("p", 1), ("p2", 2)]
MAXANS = 12
TMO_MS = 8000


def mi_text(clauses):
    return "\n".join(clause_text(terms.from_tla(c["h"]), terms.from_tla(c["b"])) for c in clauses) + "\n"


def tla_c(name, args):
    return {"t": "c", "n": name, "i": 0, "a": list(args)}


def prefix_vars(t, p):
    if t["t"] == "v":
        d = dict(t)
        d["n"] = p + terms.name_of(t["n"])
        return d
    if t["t"] == "c":
        d = dict(t)
        d["a"] = [prefix_vars(x, p) for x in t["a"]]
        return d
    return t


def conj_of(gs):
    return gs[0] if len(gs) == 1 else tla_c(",", [gs[0], conj_of(gs[1:])])


TRUE = {"t": "a", "n": "true", "i": 0, "a": []}


class Case:
    """one vector prepared for replay in every mode: a consult text and one query per mode"""

    def __init__(self, vec, uniq):
        self.vec = vec
        self.text = ""
        self.modes = []      # (mode, Prog, query text)
        base = {k: vec.get(k, []) for k in ("prog", "q", "qv", "ans", "status", "ball", "balts", "dynkeys")}
        alt = {a["mode"]: a["o"] for a in vec["alt"]}
        self.alt = alt
        has_p2 = any(terms.name_of(c["h"]["n"]) == "p2" for c in vec["prog"]) or bool(vec["dynkeys"])

        def expect(v, mode):
            if mode in alt:
                v["ans"], v["status"], v["ball"], v["balts"] = alt[mode]["ans"], alt[mode]["status"], alt[mode]["ball"], alt[mode].get("balts", [])
            return v

        def dyn_decl(pr):
            return "".join(":- dynamic(%s/%d).\n" % (terms.quote_atom(pr.mapping[k]), k[1]) for k in KEYS)

        # S: static consult (reference)
        prS = Prog(dict(base), uniq + "S", KEYS)
        self.text += prS.text
        self.modes.append(("S", prS, prS.qtext))
        # D: discontiguous pieces: clauses of p/1, p2/2 and a filler predicate interleaved
        prD = Prog(dict(base), uniq + "D", KEYS)
        lines = [ln for ln in prD.text.split("\n") if ln and not ln.startswith(":- dynamic")]
        decl = [ln for ln in prD.text.split("\n") if ln.startswith(":- dynamic")]
        filler = "dd_%sD" % uniq
        dtext = "\n".join(decl) + ("\n" if decl else "")
        dtext += ":- discontiguous(%s/1).\n" % terms.quote_atom(prD.mapping[("p", 1)])
        if has_p2:
            dtext += ":- discontiguous(%s/2).\n" % terms.quote_atom(prD.mapping[("p2", 2)])
        dtext += ":- discontiguous(%s/1).\n" % filler
        pcl = [ln for ln in lines if ln.startswith(terms.quote_atom(prD.mapping[("p", 1)]))]
        p2cl = [ln for ln in lines if not ln.startswith(terms.quote_atom(prD.mapping[("p", 1)]))]
        k = 0
        while pcl or p2cl:
            if pcl:
                dtext += pcl.pop(0) + "\n"
            k += 1
            dtext += "%s(%d).\n" % (filler, k)
            if p2cl:
                dtext += p2cl.pop(0) + "\n"
        self.text += dtext
        self.modes.append(("D", prD, prD.qtext))
        todo = set(vec["modes"])
        # A: dynamic, clauses added by assertz/1 goals in front of the query goal (variables renamed apart, as in the spec)
        if "A" in todo:
            goals = []
            for j, c in enumerate(vec["prog"]):
                cl = c["h"] if c["b"] == TRUE else tla_c(":-", [c["h"], c["b"]])
                goals.append(tla_c("assertz", [prefix_vars(cl, "_C%d" % (j + 1))]))
            vA = expect(dict(base), "A")
            vA["prog"] = []
            vA["dynkeys"] = []
            vA["q"] = conj_of(goals + [vec["q"]])
            prA = Prog(vA, uniq + "A", KEYS)
            self.text += dyn_decl(prA)
            self.modes.append(("A", prA, prA.qtext))
        # M: dynamic clauses run by the meta-interpreter through clause/2
        if "M" in todo:
            vM = expect(dict(base), "M")
            vM["dynkeys"] = []
            prM = Prog(vM, uniq + "M", KEYS)
            self.text += dyn_decl(prM) + prM.text
            self.text += ":- initialization(assertz(user_pred(%s(_)))).\n:- initialization(assertz(user_pred(%s(_,_)))).\n" % (
                terms.quote_atom(prM.mapping[("p", 1)]), terms.quote_atom(prM.mapping[("p2", 2)]))
            self.modes.append(("M", prM, terms.text(('c', 'solve', (prM.q,))) + "."))
        # MA: the meta-interpreter over the clauses that mode A added with assertz/1 (same session, after the A query)
        if "M" in todo and "A" in todo:
            vMA = expect(dict(base), "M")
            vMA["prog"] = []
            vMA["dynkeys"] = []
            prMA = Prog(vMA, uniq + "A", KEYS)
            self.text += ":- initialization(assertz(user_pred(%s(_)))).\n:- initialization(assertz(user_pred(%s(_,_)))).\n" % (
                terms.quote_atom(prMA.mapping[("p", 1)]), terms.quote_atom(prMA.mapping[("p2", 2)]))
            self.modes.append(("MA", prMA, terms.text(('c', 'solve', (prMA.q,))) + "."))
        # Q, N: the query goal of the static program inside call/1, call/N
        if "Q" in todo:
            prQ = Prog(expect(dict(base), "Q"), uniq + "S", KEYS)
            self.modes.append(("Q", prQ, terms.text(('c', 'call', (prQ.q,))) + "."))
        if "N" in todo:
            prN = Prog(expect(dict(base), "N"), uniq + "S", KEYS)
            g = prN.q
            self.modes.append(("N", prN, terms.text(('c', 'call', (('a', g[1]),) + tuple(g[2]))) + "."))
        # B: every clause body inside call/1
        if "B" in todo:
            vB = expect(dict(base), "B")
            vB["prog"] = [{"h": c["h"], "b": tla_c("call", [c["b"]])} for c in vec["prog"]]
            prB = Prog(vB, uniq + "B", KEYS)
            self.text += prB.text
            self.modes.append(("B", prB, prB.qtext))

    def steps(self):
        return [{"consult": self.text}] + [{"q": q, "max": MAXANS + 1, "tmo_ms": TMO_MS} for (_, _, q) in self.modes]

    def isolated_jobs(self, head, key):
        """one fresh session per mode (used when a batch was disturbed by a panic, a timeout or a crash)"""
        jobs = []
        qA = [q for (m, _, q) in self.modes if m == "A"]
        for (m, _, q) in self.modes:
            pre = [{"q": qA[0], "max": MAXANS + 1, "tmo_ms": TMO_MS}] if m == "MA" and qA else []
            jobs.append({"id": "%s-%s" % (key, m), "fresh": True, "timeout": 60,
                         "steps": head + [{"consult": self.text}] + pre + [{"q": q, "max": MAXANS + 1, "tmo_ms": TMO_MS}]})
        return jobs

    def judge(self, raw):
        """raw: one harness result per mode (query result, {"panic":..} or {"crash":..}).
        Returns a list of (mode, violation text or None, tag).  What C08 asserts is agreement with the static code:
        where the static run matches the specification every mode is compared with the specification's expectation for it;
        where the static run itself differs from the specification (that is C07's assertion, not C08's) the modes that
        must agree with static code are compared with the observed static answers instead."""
        out = []
        prS, rS = self.modes[0][1], raw[0]
        dS = hard(rS) or cmp_spec(prS, rS)
        okS = dS is None
        for (mode, pr, _), r in zip(self.modes, raw):
            h = hard(r)
            if h:
                out.append((mode, h, "hard"))
            elif mode == "S":
                out.append((mode, None, "ok" if okS else "static_differs_from_spec"))
            elif okS or hard(rS):
                d = cmp_spec(pr, r)
                out.append((mode, d, "ok"))
            elif mode in self.alt:
                d = cmp_spec(pr, r)
                out.append((mode, None, "ok" if d is None else "inconclusive"))
            else:
                same = same_real(prS, rS, pr, r)
                out.append((mode, None if same else "differs from static code: static gave %s, this mode gave %s (spec: %s)" % (
                    brief(prS, rS), brief(pr, r), dS), "follows_static" if same else "differs"))
        return out

    def cls(self):
        fs = set()
        for c in self.vec["prog"]:
            features(terms.from_tla(c["b"]), fs)
            features(terms.from_tla(c["h"]), fs)
        features(terms.from_tla(self.vec["q"]), fs)
        return ",".join(sorted(fs)) + "|" + self.vec["status"]

    def shape(self):
        """syntactic tags of the program used in violation signatures"""
        tags = []
        if any(cut_in_meta_arg(terms.from_tla(c["b"]), False) for c in self.vec["prog"]):
            tags.append("cut-in-meta-arg")
        if any(is_nonnumeric_lhs(terms.from_tla(c["b"])) for c in self.vec["prog"]):
            tags.append("is-nonnumeric-lhs")
        if any(cut_in_ite_cond(terms.from_tla(c["b"])) for c in self.vec["prog"]):
            tags.append("cut-in-ite-cond")
        if any(typetest_singleton_var(terms.from_tla(c["h"]), terms.from_tla(c["b"])) for c in self.vec["prog"]):
            tags.append("typetest-singleton-var")
        return ",".join(tags) or "-"


OPAQUE = {("call", 1): (0,), ("\\+", 1): (0,), ("once", 1): (0,), ("ignore", 1): (0,), ("findall", 3): (1,),
          ("forall", 2): (0, 1), ("catch", 3): (0, 2)}


def cut_in_meta_arg(t, inside):
    if t == ('a', '!'):
        return inside
    if t[0] != 'c':
        return False
    k = (t[1], len(t[2]))
    if k in ((",", 2), (";", 2), ("->", 2)):
        return any(cut_in_meta_arg(x, inside) for x in t[2])
    if k in OPAQUE:
        return any(cut_in_meta_arg(t[2][i], True) for i in OPAQUE[k])
    return False


def tcut(t):
    """a cut reachable through ',', ';' and the branches of '->' (TCut of MC_C08)"""
    if t == ('a', '!'):
        return True
    if t[0] == 'c' and len(t[2]) == 2 and t[1] in (',', ';'):
        return tcut(t[2][0]) or tcut(t[2][1])
    if t[0] == 'c' and len(t[2]) == 2 and t[1] == '->':
        return tcut(t[2][1])
    return False


def cut_in_ite_cond(t):
    """some if-then-else (C -> T ; E) whose condition C contains a cut that belongs to the condition"""
    if t[0] != 'c':
        return False
    if t[1] == ';' and len(t[2]) == 2 and t[2][0][0] == 'c' and t[2][0][1] == '->' and len(t[2][0][2]) == 2 and tcut(t[2][0][2][0]):
        return True
    return any(cut_in_ite_cond(x) for x in t[2])


TYPETESTS = ("var", "nonvar", "atom", "integer", "atomic", "compound", "callable", "number", "is_list")


def count_var(t, name):
    if t[0] == 'v':
        return 1 if t[1] == name else 0
    if t[0] == 'c':
        return sum(count_var(x, name) for x in t[2])
    return 0


def typetest_singleton_var(h, b):
    """some type-test goal of the clause (var(Z), atom(Z), ...) is applied to a variable that occurs nowhere else in the clause"""
    whole = ('c', 'cl', (h, b))

    def walk(t):
        if t[0] != 'c':
            return False
        if t[1] in TYPETESTS and len(t[2]) == 1 and t[2][0][0] == 'v' and count_var(whole, t[2][0][1]) == 1:
            return True
        return any(walk(x) for x in t[2])
    return walk(b)


def is_nonnumeric_lhs(t):
    """some is/2 goal whose left operand is an atom or a compound term"""
    if t[0] != 'c':
        return False
    if t[1] == 'is' and len(t[2]) == 2 and t[2][0][0] in ('a', 'c'):
        return True
    return any(is_nonnumeric_lhs(x) for x in t[2])


def hard(r):
    """a panic or crash of the code under test: a violation in whatever mode it happens"""
    if "crash" in r:
        return "crash(%s) (abort, runaway or memory exhaustion)" % r["crash"]
    if "panic" in r:
        return "panic: " + r["panic"]
    return None


def cmp_spec(pr, r):
    if r.get("tmo"):
        return "timeout (no termination within %d ms; the spec terminates)" % TMO_MS
    return pr.compare(r, MAXANS)


def real_outcome(pr, r):
    """(answers, terminator) of a real run with predicate names mapped back; terminator: None | 'F' | ball"""
    from lib.prolog_replay import unrename_term
    answers, term = [], None
    for a in r["a"]:
        if a == "F":
            term = "F"
            break
        if isinstance(a, dict) and ("e" in a or "x" in a):
            b = unrename_term(terms.from_h(a.get("e") or a.get("x")), pr.inv)
            if b[0] == 'c' and b[1] == 'error' and len(b[2]) == 2:
                b = ('c', 'error', (b[2][0], ('a', '$ctx')))
            term = b
            break
        answers.append(pr.got_answer(a))
    return answers[:MAXANS], (term if len(answers) <= MAXANS else None)


def same_real(pr1, r1, pr2, r2):
    if r1.get("tmo") or r2.get("tmo"):
        return bool(r1.get("tmo")) and bool(r2.get("tmo"))
    a1, t1 = real_outcome(pr1, r1)
    a2, t2 = real_outcome(pr2, r2)
    if len(a1) != len(a2) or not all(x is not None and y is not None and terms.variant(x, y) for x, y in zip(a1, a2)):
        return False
    if isinstance(t1, tuple) or isinstance(t2, tuple):
        if not (isinstance(t1, tuple) and isinstance(t2, tuple)):
            return False
        if terms.variant(t1, t2):
            return True
        # several erroneous subterms in one arithmetic expression: which error is raised is not specified (see Prolog.tla ArithErrs)
        alts = [terms.from_tla(x) for x in [pr1.vec["ball"]] + list(pr1.vec.get("balts", []))]
        alts = [x[2][0] for x in alts if x[0] == 'c' and x[1] == 'error' and len(x[2]) == 2]

        def adm(t):
            return t[0] == 'c' and t[1] == 'error' and any(terms.variant(t[2][0], f) for f in alts)
        return adm(t1) and adm(t2)
    return True      # None / 'F': whether the last answer leaves a choice point is not specified


def brief(pr, r):
    if r.get("tmo"):
        return "no termination within %d ms" % TMO_MS
    a, t = real_outcome(pr, r)
    return "[%s]%s" % ("; ".join(terms.show(x) if x else "?" for x in a),
                       "" if t is None else (" then false" if t == "F" else " then ball " + terms.show(t)))


def signature(case, mode, d, q):
    return "mode=%s shape=%s program=%s query=%s: %s" % (
        mode, case.shape(), " ".join(clause_text(terms.from_tla(c["h"]), terms.from_tla(c["b"])) for c in case.vec["prog"]), q, d)


def check_vectors(rep, vecs, MI, binary=None):
    head = [{"consult": HELPERS}, {"consult": MI}]
    B = 60
    jobs, cases = [], {}
    for bi in range(0, len(vecs), B):
        steps = list(head)
        for j, v in enumerate(vecs[bi:bi + B]):
            cs = Case(v, "%d" % j)
            cases[(bi, j)] = (cs, len(steps))
            steps += cs.steps()
        jobs.append({"id": bi, "steps": steps, "timeout": 240, "fresh": True})
    results = run_jobs(jobs, workers=8, job_timeout=240, binary=binary)
    tags = {}
    examples = []

    def record(cs, raw):
        for (mode, d, tag), (_, pr, q) in zip(cs.judge(raw), cs.modes):
            rep.case(mode + "|" + cs.cls())
            tags[tag] = tags.get(tag, 0) + 1
            if tag == "static_differs_from_spec" and len(examples) < 25:
                examples.append({"program": cs.modes[0][1].text.strip(), "query": q, "spec_vs_static": cmp_spec(pr, raw[0])})
            if d:
                rep.violation(signature(cs, mode, d, q),
                              {"vector": cs.vec, "mode": mode, "diff": d, "query": q, "text": cs.text, "mi": MI})

    rerun = []
    for job in jobs:
        bi = job["id"]
        r = results.get(bi, {"crash": "missing"})
        n = len([1 for k in cases if k[0] == bi])
        if "crash" in r:
            rerun += [(bi, j) for j in range(n)]
            continue
        poisoned = False
        for j in range(n):
            cs, off = cases[(bi, j)]
            rs = r["res"][off: off + 1 + len(cs.modes)]
            if poisoned or len(rs) < 1 + len(cs.modes) or any(("panic" in x or x.get("tmo")) for x in rs):
                poisoned = True      # the Machine is rebuilt after a panic/timeout: helpers are gone for the rest of the batch
                rerun.append((bi, j))
                continue
            record(cs, rs[1:])
    if rerun:
        single = []
        for k in rerun:
            single += cases[k][0].isolated_jobs(head, "%d-%d" % k)
        rs2 = run_jobs(single, workers=8, job_timeout=60, binary=binary)
        for k in rerun:
            cs = cases[k][0]
            raw = []
            for (m, _, _) in cs.modes:
                x = rs2.get("%d-%d-%s" % (k[0], k[1], m), {"crash": "missing"})
                if "crash" in x:
                    raw.append(x)
                elif "panic" in x["res"][2]:
                    raw.append({"panic": "consult: " + x["res"][2]["panic"]})
                elif m == "MA" and len(x["res"]) >= 5 and ("panic" in x["res"][-2] or x["res"][-2].get("tmo")):
                    raw.append(x["res"][-2])      # the assertz query did not finish: the session was rebuilt, MA could not run
                else:
                    raw.append(x["res"][-1])
            record(cs, raw)
    rep.extra["verdict_tags"] = tags
    rep.extra["static_differs_from_spec_examples"] = examples


def run(tier):
    rep = Report(PROP, tier, "model_checking")
    quick = tier == "quick"
    rep.rule = ("the program space of C07 (exhaustive: every 1- and 2-clause definition of p/1 of the grammar of MC_C07 in both clause "
                "orders, thorough: the full body grammar with the three second clauses of the quick tier; simulation: random programs of "
                "1-4+0-3 clauses), each replayed in the modes S static, D discontiguous pieces, "
                "A assertz, M meta-interpreter over clause/2, Q call/1, N call/N, B call-wrapped bodies; an evaluation is one "
                "(program, mode) replay; distinct = mode x set of control constructs/builtins used x outcome kind")
    res, vecs0 = generate("MC_C08", "MC_C08_exh_%s.cfg" % tier, workers=8, timeout=20000)
    rep.add_tlc(res)
    mi = [v for v in vecs0 if v.get("kind") == "mi"]
    if len(mi) != 1:
        raise common.ToolError("meta-interpreter vector missing")
    MI = mi_text(mi[0]["clauses"])
    vecs = [v for v in vecs0 if v.get("kind") != "mi"]
    sims = common.simulate_parallel("MC_C08", "MC_C08_sim_%s.cfg" % tier, procs=6 if quick else 8,
                                    num=150 if quick else 1200, depth=4, timeout=20000)
    seen = set(json.dumps(v, sort_keys=True) for v in vecs)
    for sim in sims:
        tlc_ok(sim, "C08 simulation")
        rep.add_tlc(sim)
        for v in sim.printed():
            k = json.dumps(v, sort_keys=True)
            if k not in seen:
                seen.add(k)
                vecs.append(v)
    if not vecs:
        raise common.ToolError("no vectors")
    # sanity of the generated space (vacuity guards)
    if not any(v["alt"] for v in vecs) or not any(v["tcut"] and not v["alt"] for v in vecs):
        raise common.ToolError("the generated space does not exercise the call/1 cut opacity")
    for v in vecs:
        for a in v["alt"]:
            if a["mode"] != "B" or not v["tcut"]:
                raise common.ToolError("spec: modes disagree outside the documented exception: %s" % json.dumps(v)[:400])

    check_vectors(rep, vecs, MI)
    skipped = 0
    altB = 0
    for v in vecs:
        skipped += len(v["unfinished"])
        altB += 1 if v["alt"] else 0
    step = max(1, len(vecs) // 5)
    for v in vecs[::step]:
        cs = Case(v, "0")
        rep.sample({"consulted": cs.text, "queries": {m: q for (m, _, q) in cs.modes},
                    "expected_answers": [terms.show(a) for a in cs.modes[0][1].expected_answers()], "status": v["status"],
                    "modes_with_computed_exception": [a["mode"] for a in v["alt"]]})
    rep.traces = rep.evaluations
    rep.exhaustive = False
    rep.extra["programs"] = len(vecs)
    rep.extra["skipped_modes"] = skipped
    rep.extra["programs_with_transparent_cut"] = sum(1 for v in vecs if v["tcut"])
    rep.extra["programs_where_call_wrapped_bodies_differ_in_the_spec"] = altB
    rep.extra["exhaustive_part"] = "all programs of the small-scope grammar (MC_C08 Mode=exh = the space of MC_C07) were enumerated and replayed in every mode"
    rep.assumptions = ["TLC", "spec/Prolog.tla as the reading of ISO 7.7/7.8", "canonical renderer and LeafAnswer projection",
                       "the meta-interpreter of MC_C08 (its agreement with direct execution is model-checked in layer A)"]
    return rep.finish()


def replay(path):
    d = json.load(open(path))
    det = d["detail"]
    cs = Case(det["vector"], "0")
    head = [{"consult": HELPERS}, {"consult": det["mi"]}]
    rs = run_jobs(cs.isolated_jobs(head, "r"), workers=4, job_timeout=60)
    print(cs.text)
    raw = []
    for (m, pr, q) in cs.modes:
        x = rs.get("r-%s" % m, {"crash": "missing"})
        raw.append(x if "crash" in x else x["res"][-1])
        print(m, q, "=>", json.dumps(raw[-1])[:500])
    for (m, dd, tag) in cs.judge(raw):
        print("  ", m, tag, dd or "")
    return 0
