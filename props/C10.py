"""C10 - Unification computes most general unifiers."""
import json
import os

from lib import common, terms
from lib.common import Report, run_jobs, generate
from props.C13 import Builder, Names, kind_of

PROP = "C10"
META = {
    "level": "model_checking",
    "text": "Unification is specified in TLA+ (spec/UnifySpec.tla on top of Terms.tla) in its three readings: finite trees with "
            "occurs check (unify_with_occurs_check/2, occurs_check=true), rational trees (occurs_check=false, cyclic results "
            "observed inside Prolog) and occurs_check=error (representation_error(term) on a cyclic binding). TLC checks on "
            "every generated pair soundness, idempotence, agreement of the readings on finite results and most-generality "
            "against brute force over a ground Herbrand universe, and prints per flag value and predicate (=, call(=), "
            "unify_with_occurs_check, \\=) the admissible outcomes and the resulting instance; every pair is replayed against "
            "the real machine and compared up to variable renaming together with an untouched witness variable.",
    "note": "Trusted: TLC; UnifySpec.tla/Terms.tla as the reading of the property; the renderer of build trees and the "
            "findall/3 read-back. Under occurs_check=error a pair that contains both a clash and a cyclic binding may fail or "
            "raise (visiting order unspecified). Attributed variables are out of scope (C26). Bounded conformance, not proof.",
    "technique": "TLA+ specification of unification with TLC-checked mgu theorems; TLC-enumerated pairs replayed into the real machine",
}

HELPER = r"""
c10mem(X, [X|_]).
c10mem(X, [_|T]) :- c10mem(X, T).
c10(S, T, W, res(A, B, C)) :- c10m(false, S, T, W, A), c10m(true, S, T, W, B), c10m(error, S, T, W, C).
c10m(M, S, T, W, m(A, B, C, D)) :-
    c10o(M, eq, S, T, W, A), c10o(M, ceq, S, T, W, B), c10o(M, uwoc, S, T, W, C), c10o(M, neq, S, T, W, D).
% one observation: the pair is pristine again afterwards (findall/3 undoes the bindings)
c10o(M, P, S, T, W, R) :- findall(R0, c10f(M, P, S, T, W, R0), Rs), ( Rs = [R] -> true ; R = bad(Rs) ).
c10f(M, P, S, T, W, R) :-
    set_prolog_flag(occurs_check, M),
    ( catch(c10g(P, S, T), Ball, true) ->
        ( nonvar(Ball) -> R0 = ball(Ball) ; R0 = yes )
    ;   R0 = no ),
    set_prolog_flag(occurs_check, false),
    c10r(R0, P, S, T, W, R).
c10g(eq, S, T) :- S = T.
c10g(ceq, S, T) :- call(=, S, T).
c10g(uwoc, S, T) :- unify_with_occurs_check(S, T).
c10g(neq, S, T) :- S \= T.
c10r(no, _, _, _, _, fail).
c10r(ball(B), _, _, _, _, R) :- ( B = error(E, _) -> R = err(E) ; R = ball(B) ).
c10r(yes, neq, S, T, W, nok(ES, ET, W)) :- !, c10e(8, S, ES), c10e(8, T, ET).
c10r(yes, _, S, T, W, ok(I, ES, W)) :- ( S == T -> I = 1 ; I = 0 ), c10e(8, S, ES).
% Results travel in a plain, depth-bounded encoding: '$e'(Name, [EncodedArgs]) for every compound, '$deep' below
% depth 8.  (a) The answer projection of the embedding API is not reliable for partial lists and partial strings
% inside answers (C28's subject).  (b) A result that reaches '$deep' is an infinite (cyclic) term: every finite
% instance of the model is shallower (checked by the driver).  acyclic_term/1 is deliberately NOT used: on this
% tree it damages strings nested in the inspected term (S = f("bcd"), acyclic_term(S), S = f(B), B = [A|_] panics).
c10e(_, T, E) :- var(T), !, E = T.
c10e(_, T, E) :- atomic(T), !, E = T.
c10e(D, _, E) :- D =< 0, !, E = '$deep'.
c10e(D, T, '$e'(F, Es)) :- T =.. [F|As], D1 is D - 1, c10es(As, D1, Es).
c10es([], _, []).
c10es([A|As], D, [E|Es]) :- c10e(D, A, E), c10es(As, D, Es).
"""


def decode(t):
    """inverse of c10e on canonical tuples"""
    if t[0] == 'c':
        if t[1] == '$e' and len(t[2]) == 2 and t[2][0][0] == 'a':
            args = []
            cur = t[2][1]
            while cur[0] == 'c' and cur[1] == '.' and len(cur[2]) == 2:
                args.append(decode(cur[2][0]))
                cur = cur[2][1]
            return ('c', t[2][0][1], tuple(args))
        return ('c', t[1], tuple(decode(x) for x in t[2]))
    return t

def has_deep(t):
    if t == ('a', '$deep'):
        return True
    return t[0] == 'c' and any(has_deep(x) for x in t[2])


def depth(t):
    return 1 + max([depth(x) for x in t[2]] or [0]) if t[0] == 'c' else 0


PRED_KEYS = {"=": 0, "call=": 1, "uwoc": 2, "\\=": 3}


def canon_names(t, names):
    """alias -> text in atom/functor names of a canonical term"""
    if t[0] == 'a':
        return ('a', names(t[1]))
    if t[0] == 'c':
        return ('c', names(t[1]), tuple(canon_names(x, names) for x in t[2]))
    return t


def items_of(ps):
    if isinstance(ps, dict):
        return sorted(((int(k), v) for k, v in ps.items()))
    return list(enumerate(ps, 1))


def classify(got):
    """canonical result term -> (outcome, payload)"""
    if got == ('a', 'fail'):
        return "fail", None
    if got[0] == 'c':
        n, args = got[1], got[2]
        if n == 'err' and len(args) == 1:
            if args[0] == ('c', 'representation_error', (('a', 'term'),)):
                return "error", None
            return "othererror", args[0]
        if n == 'ok' and len(args) == 3:
            d = decode(args[1])
            if has_deep(d):
                return "okcyc", (args[0], args[2])
            return "ok", (args[0], d, args[2])
        if n == 'nok' and len(args) == 3:
            return "nok", (decode(args[0]), decode(args[1]), args[2])
    return "other", got


def run(tier):
    rep = Report(PROP, tier, "model_checking")
    quick = tier == "quick"
    rep.rule = ("universe of build trees of depth <= 2 over X,Y,Z (with sharing), atoms, small/big integers (literal and "
                "computed), float, rational, strings vs lists vs partial lists vs partial strings, f/1, g/2; quick: all ordered "
                "pairs; thorough: larger grammar-generated universe, pairs selected by a seeded hash (about 1 in 4) plus the "
                "diagonal; each pair under occurs_check = false|true|error through =, call(=), unify_with_occurs_check, \\=. "
                "distinct = (kind of left, kind of right, admissible outcomes per mode)")
    res, vecs = generate("MC_C10", "MC_C10_%s.cfg" % tier, workers=8 if quick else 12, timeout=3300,
                         env_extra={"C10_SEED": common.seed()})
    rep.add_tlc(res)
    tab = [v for v in vecs if v.get("k") == "tab"]
    rows = sorted([v for v in vecs if v.get("k") == "row"], key=lambda r: r["i"])
    if len(tab) != 1 or len(rows) != tab[0]["n"]:
        raise common.ToolError("MC_C10 printed an incomplete universe (%d rows)" % len(rows))
    tab = tab[0]
    if tab["seed"] != common.seed():
        raise common.ToolError("seed was not passed to TLC")
    names = Names(tab["names"])
    modes, preds = tab["modes"], tab["preds"]
    if modes != ["false", "true", "error"] or [PRED_KEYS.get(p) for p in preds] != [0, 1, 2, 3]:
        raise common.ToolError("mode/predicate table mismatch")
    # jobs: a disjunction of pairs per query; every pair builds its own copies of both terms
    pairs = []
    for r in rows:
        for j, p in items_of(r["ps"]):
            pairs.append((r["i"], j, p))
    if not pairs:
        raise common.ToolError("no pairs")
    B = 40
    jobs, meta = [], {}
    for b0 in range(0, len(pairs), B):
        goals, items = [], []
        for k, (i, j, p) in enumerate(pairs[b0:b0 + B]):
            bl = Builder(names, "L%d_" % k)
            br = Builder(names, "R%d_" % k)
            bl.bind("S%d" % k, rows[i - 1]["b"])
            br.bind("T%d" % k, rows[j - 1]["b"])
            goals += bl.goals + br.goals
            items.append("p(%d,S%d,T%d)" % (k, k, k))
        # the pairs are visited by backtracking over one list (large disjunctions compile in exponential time);
        # bindings made by one pair are undone before the next one is visited
        q = "findall(K-A, (%s, c10mem(p(K,S,T), [%s]), c10(S, T, W, A)), Out)." % (", ".join(goals), ",".join(items))
        jid = "b%d" % b0
        jobs.append({"id": jid, "fresh": True, "timeout": 120,
                     "steps": [{"consult": ":- use_module(library(iso_ext)).\n" + HELPER}, {"q": q, "max": 2},
                               {"q": "current_prolog_flag(occurs_check, F).", "max": 2}]})
        meta[jid] = pairs[b0:b0 + B]
    results = run_jobs(jobs, workers=8, job_timeout=120)
    kinds = [kind_of(r["b"]) for r in rows]
    shown = 0
    for job in jobs:
        jid = job["id"]
        ps = meta[jid]
        r = results.get(jid, {"crash": "missing"})
        detail = {"query": job["steps"][1]["q"]}
        if "crash" in r:
            rep.violation("batch %s crashed: %s" % (jid, r["crash"]), dict(detail, result=r))
            continue
        out = r["res"][1]
        if "panic" in out or not out.get("a") or not isinstance(out["a"][0], dict) or "b" not in out["a"][0]:
            rep.violation("batch %s: no answer: %s" % (jid, json.dumps(out)[:300]), dict(detail, result=out))
            continue
        fl = r["res"][2]
        if fl.get("a", [None])[0] != {"b": {"F": {"a": "false"}}}:
            raise common.ToolError("flag not reset after batch %s: %s" % (jid, fl))
        lst = terms.from_h(out["a"][0]["b"]["Out"])
        got = {}
        cur = lst
        while cur[0] == 'c' and cur[1] == '.':
            it = cur[2][0]
            cur = cur[2][1]
            if it[0] == 'c' and it[1] == '-' and it[2][0][0] == 'i':
                got[it[2][0][1]] = it[2][1]
        for k, (i, j, p) in enumerate(ps):
            lt = text_of(rows[i - 1], names)
            rt = text_of(rows[j - 1], names, "R")
            g = got.get(k)
            if g is None or g[0] != 'c' or g[1] != 'res' or len(g[2]) != 3:
                rep.violation("pair %s = %s: no result (%s)" % (lt, rt, terms.show(g) if g else "prefix failed"),
                              dict(detail, i=i, j=j))
                continue
            s_t = canon_names(terms.from_tla(rows[i - 1]["tm"]), names)
            t_t = canon_names(terms.from_tla(rows[j - 1]["tm"]), names)
            has_inst = not (p["inst"]["t"] == "a" and p["inst"]["n"] == "-")
            inst = canon_names(terms.from_tla(p["inst"]), names) if has_inst else ('a', '-')
            if any("ok" in adm for am in p["exp"] for adm in am) and not has_inst:
                raise common.ToolError("outcome ok without an instance in the vector (%d,%d)" % (i, j))
            if max(depth(inst), depth(s_t), depth(t_t)) >= 8:
                raise common.ToolError("instance deeper than the read-back bound: %s" % terms.show(inst))
            W = ('v', '_Witness')
            rep.case((kinds[i - 1], kinds[j - 1], json.dumps(p["exp"])))
            if shown < 5 and (len(pairs) < 50 or (b0_of(jid) // B) % max(1, len(jobs) // 5) == 0) and k == 0:
                rep.sample({"s": lt, "t": rt, "expected": dict(zip(modes, p["exp"]))})
                shown += 1
            for mi, mode in enumerate(modes):
                gm = g[2][mi]
                if gm[0] != 'c' or gm[1] != 'm' or len(gm[2]) != 4:
                    rep.violation("pair %s = %s mode %s: malformed %s" % (lt, rt, mode, terms.show(gm)), dict(detail, i=i, j=j))
                    continue
                for pi, pred in enumerate(preds):
                    adm = p["exp"][mi][pi]
                    oc, pay = classify(gm[2][pi])
                    bad = None
                    if oc not in adm:
                        bad = "outcome %s, admissible %s" % (oc if pay is None or oc in ("ok", "okcyc", "nok") else "%s(%s)" % (oc, terms.show(pay)), "|".join(adm))
                    elif oc == "ok":
                        if pay[0] != ('i', 1):
                            bad = "succeeded but S \\== T afterwards"
                        elif not terms.variant(('c', 'p', (inst, W)), ('c', 'p', (pay[1], pay[2]))):
                            bad = "instance %s (witness %s), expected %s" % (terms.show(pay[1]), terms.show(pay[2]), terms.show(inst))
                    elif oc == "okcyc":
                        if pay[0] != ('i', 1):
                            bad = "succeeded (cyclic) but S \\== T afterwards"
                        elif pay[1][0] != 'v':
                            bad = "witness bound to %s" % terms.show(pay[1])
                    elif oc == "nok":
                        if not terms.variant(('c', 'p', (s_t, t_t, W)), ('c', 'p', pay)):
                            bad = "\\= succeeded but left %s" % terms.show(('c', 'p', pay))
                    if bad:
                        sig = "%s %s %s occurs_check=%s: %s" % (lt, pred, rt, mode, bad)
                        rep.violation(sig, dict(detail, i=i, j=j, mode=mode, pred=pred, admissible=adm, got=terms.show(gm[2][pi])))
    rep.traces = len(pairs)
    rep.extra["universe"] = len(rows)
    rep.extra["pairs"] = len(pairs)
    rep.exhaustive = quick
    rep.assumptions = ["TLC; UnifySpec.tla (mgu theorems checked on every generated pair in this run)",
                       "renderer of build trees, findall/3 read-back and LeafAnswer projection of the harness",
                       "occurs_check=error with both a clash and a cyclic binding present: either failure or the error is accepted"]
    return rep.finish()


def b0_of(jid):
    return int(jid[1:])


def text_of(row, names, tag="L"):
    b = Builder(names, tag)
    e = b.render(row["b"])
    return ("(" + ", ".join(b.goals) + ", " + e + ")") if b.goals else e


def replay(path):
    d = json.load(open(path))
    det = d["detail"]
    q = det.get("query")
    if not q:
        print(json.dumps(det)[:2000])
        return 0
    r = run_jobs([{"id": 0, "fresh": True, "steps": [{"consult": ":- use_module(library(iso_ext)).\n" + HELPER}, {"q": q, "max": 2}]}], workers=1)
    print(d["signature"])
    print(json.dumps(r[0])[:3000])
    return 0
