"""C33 - Heap writes never exceed the reserved capacity."""
import json
import subprocess
from lib import common
from lib.common import Report, generate, build_harness

PROP = "C33"
META = {
    "level": "model_checking",
    "text": "spec/Heap.tla transcribes every write site of heap.rs as <guard with growth loop, write extent, new length> over "
            "scaled-down capacities (32..256 bytes, thorough 64..512); TLC checks the invariant 'write end <= capacity' in every "
            "reachable state for all fill levels, string lengths 0..18 (34) and NUL patterns, and prints every transition. Each "
            "transition is replayed on a real stand-alone Heap at that fill level and capacity (verif-hooks HeapProbe) with growth "
            "beyond the model's maximum failed by the injector; resulting length, capacity and the canary guard region behind the "
            "capacity must match.",
    "note": "Trusted: TLC; the transcription of the guards in Heap.tla (kept honest by the replay: a guard that differs from the code "
            "shows as a length/capacity mismatch); the guard region detects writes up to 64 bytes past the capacity. This is capacity "
            "arithmetic only, not general memory safety; write sites reached only through the full Machine are covered indirectly by "
            "the guard check being active in every harness run.",
    "technique": "TLA+ implementation-shaped model checked exhaustively by TLC; every transition replayed on the real Heap with a canary guard",
}


def run(tier):
    rep = Report(PROP, tier, "model_checking")
    rep.rule = ("every transition (state x operation) of the exhaustive state graph of MC_C33: operations push_cell, reserve+k writes, "
                "allocate_pstr/cstr over strings with NULs, append, copy_slice_to_end, copy_pstr_within, truncate; "
                "distinct = (operation, free space relative to demand: exact fit / one cell short / ample / needs growth / growth fails)")
    res, vecs = generate("MC_C33", "MC_C33_%s.cfg" % tier, workers=4, timeout=1800)
    rep.add_tlc(res)
    maxcap = 256 if tier == "quick" else 512
    binary, degraded = build_harness(True)
    if degraded:
        raise common.ToolError("C33 needs the verif-hooks build of the harness (HeapProbe); the hook build failed")
    inp = "\n".join(json.dumps({"len": v["len"], "cap": v["cap"], "op": v["op"], "maxcap": maxcap}) for v in vecs) + "\n"
    p = subprocess.run([binary, "heapops"], input=inp, stdout=subprocess.PIPE, stderr=subprocess.PIPE, text=True, timeout=900)
    outs = [json.loads(l) for l in p.stdout.splitlines() if l.strip()]
    if len(outs) != len(vecs):
        # the process died: the transition after the last answered one is the culprit
        culprit = vecs[len(outs)] if len(outs) < len(vecs) else None
        rep.violation("heapops process died (rc=%s) at transition %s" % (p.returncode, json.dumps(culprit)),
                      {"vector": culprit, "stderr": p.stderr[-2000:]})
    skipped = 0
    for v, o in zip(vecs, outs):
        if "skipped" in o:
            skipped += 1
            continue
        demand = v["len2"] - v["len"]
        free = v["cap"] - v["len"]
        cls = (v["op"]["name"], "fail" if not v["op"]["ok"] else "grow" if v["cap2"] != v["cap"] else
               "exact" if free == demand else "tight" if free - demand <= 8 else "ample")
        rep.case(cls)
        sig = None
        if "panic" in o:
            sig = "panic %s" % o["panic"]
        elif not o["guard"]:
            sig = "guard region behind the capacity was overwritten"
        elif o["ok"] != v["op"]["ok"]:
            sig = "success flag: expected %s got %s" % (v["op"]["ok"], o["ok"])
        elif o["len"] != v["len2"] or o["cap"] != v["cap2"]:
            sig = "expected len=%d cap=%d got len=%d cap=%d" % (v["len2"], v["cap2"], o["len"], o["cap"])
        elif o["len"] > o["cap"]:
            sig = "byte_len %d exceeds byte_cap %d" % (o["len"], o["cap"])
        elif o.get("copy_ok") is False:
            sig = "copied string reads back differently"
        if sig:
            rep.violation("%s arg=%s at len=%d cap=%d: %s" % (v["op"]["name"], json.dumps(v["op"]["arg"]), v["len"], v["cap"], sig),
                          {"vector": v, "got": o})
    rep.extra["transitions_skipped"] = skipped
    for v in vecs[:: max(1, len(vecs) // 5)]:
        rep.sample(v)
    rep.traces = len(vecs) - skipped
    rep.exhaustive = True
    rep.assumptions = ["TLC", "Heap.tla transcription of heap.rs guards", "64-byte canary region behind byte_cap (verif-hooks)"]
    return rep.finish()


def replay(path):
    d = json.load(open(path))
    v = d["detail"]["vector"]
    binary, _ = build_harness(True)
    p = subprocess.run([binary, "heapops"], input=json.dumps({"len": v["len"], "cap": v["cap"], "op": v["op"], "maxcap": 512}) + "\n",
                       stdout=subprocess.PIPE, text=True, timeout=60)
    print("transition", json.dumps(v))
    print("real heap ", p.stdout.strip())
    return 0
