"""C27 - clp(Z) labeling is sound and complete on finite domains."""
import itertools
import json
from lib import common, terms
from lib.common import Report, run_jobs

PROP = "C27"

META = {
    "level": "model_checking",
    "text": "Clpz.tla gives the integer meaning of systems of clp(Z) constraints: #= #\\= #< #=< #> #>= over + - * // div mod rem "
            "abs sign min max ^ and constants, all_distinct/all_different, sum/3, reified in/2, Boolean variables and the "
            "connectives #\\ #\\/ #/\\ #\\ (xor) #<==> #==> #<==; Solutions(system, domains) is the set comprehension over all "
            "assignments. TLC draws systems of <= 2 (quick) / <= 3 (thorough) constraints over <= 3 variables with domains inside "
            "-3..4 (some with holes) from a template grammar (expression depth <= 2, connective depth <= 2) and prints each with "
            "its solutions in lexicographic order, the truth value of every constraint on every assignment, and per-variable "
            "projections. Each system is replayed against library(clpz): label/1 after posting domains then constraints and after "
            "posting the constraints on wide domains (-12..12) that are narrowed afterwards (exact answer sequence), labeling/2 "
            "with one of the 30 selection/order/branching combinations (same multiset), labeling/2 with min/max(Expr) (same multiset, objective monotone), every constraint "
            "posted on every ground instance (succeeds iff it holds), and propagation only (fd_dom/fd_inf/fd_sup keep every "
            "value that occurs in a solution; posting fails only if there is no solution). Sampled bounded conformance, not proof.",
    "note": "Trusted: TLC, the functional-notation renderer, findall/3, member/2. Partial operations: a constraint with a zero "
            "divisor or a non-integer power does not hold and reifies to 0 (comments above parse_clpz/parse_reified in clpz.pl). "
            "The specification's truth values are cross-checked against an independent Python evaluator in every run. "
            "Not covered: global constraints other than all_distinct/all_different/sum, bitwise operators, domains outside -3..4.",
    "technique": "TLA+ set-comprehension semantics evaluated by TLC on grammar-sampled systems; vectors replayed into the real propagators and labeling",
}

SETUP = ":- use_module(library(clpz)).\n:- use_module(library(lists)).\n:- use_module(library(iso_ext)).\n"
BATCH = 40
JOB_TIMEOUT = 900
SINGLE_TIMEOUT = 240
WIDE_LIMIT = 10000000   # inferences; a normal query needs ~10^5


# ------------------------------------------------------------------------------------------
# rendering (functional notation: parses without the operator declarations of clpz)
# ------------------------------------------------------------------------------------------

def lit(n):
    return str(n) if n >= 0 else "(%d)" % n


def vname(i):
    return "X%d" % i


def etext(e):
    k = e["k"]
    if k == "int":
        return lit(int(e["i"]))
    if k == "var":
        return vname(e["i"])
    if k == "un":
        return "%s(%s)" % (terms.quote_atom(e["op"]), etext(e["l"]))
    if k == "bin":
        return "%s(%s,%s)" % (terms.quote_atom(e["op"]), etext(e["l"]), etext(e["r"]))
    raise ValueError(e)


def domtext(vals):
    """sorted list of integers -> clpz domain expression (union of intervals)"""
    vals = sorted(vals)
    ivs = []
    for x in vals:
        if ivs and ivs[-1][1] == x - 1:
            ivs[-1][1] = x
        else:
            ivs.append([x, x])
    parts = ["'..'(%s,%s)" % (lit(a), lit(b)) for a, b in ivs]
    t = parts[0]
    for p in parts[1:]:
        t = "'\\\\/'(%s,%s)" % (t, p)
    return t


def ctext(c):
    k = c["k"]
    if k == "rel":
        return "%s(%s,%s)" % (terms.quote_atom(c["op"]), etext(c["l"]), etext(c["r"]))
    if k == "in":
        return "in(%s,%s)" % (vname(c["i"]), domtext(c["d"]))
    if k == "bvar":
        return vname(c["i"])
    if k == "bint":
        return str(int(c["i"]))
    if k == "not":
        return "'#\\\\'(%s)" % ctext(c["l"])
    if k == "conn":
        return "%s(%s,%s)" % (terms.quote_atom(c["op"]), ctext(c["l"]), ctext(c["r"]))
    if k == "distinct":
        return "%s([%s])" % (c["op"], ",".join(etext(x) for x in c["xs"]))
    if k == "sum":
        return "sum([%s],%s,%s)" % (",".join(etext(x) for x in c["xs"]), terms.quote_atom(c["op"]), etext(c["r"]))
    raise ValueError(c)


def vs_text(v):
    return "[%s]" % ",".join(vname(i) for i in range(1, v["nv"] + 1))


def doms_text(v):
    return ", ".join("in(%s,%s)" % (vname(i + 1), domtext(d)) for i, d in enumerate(v["dom"]))


def cons_text(v):
    return ", ".join(ctext(c) for c in v["sys"])


def wrap(body):
    return "catch((%s), error(E,_), true)." % body


def queries(v):
    """list of (kind, query text)"""
    vs, doms, cons = vs_text(v), doms_text(v), cons_text(v)
    qs = [("label", wrap("Vs = %s, findall(Vs, (%s, %s, label(Vs)), L)" % (vs, doms, cons))),
          # constraints posted while the domains are still wide (propagators start from other bounds), then narrowed.
          # Wide but finite: the property quantifies over bounded domains (over unbounded domains posting e.g.
          # X #>= 3^X does not return: each propagation step exponentiates the previous bound).  Bounds propagation of
          # rem/mod over a wide range steps value by value (X in -60..60, X^3 rem -6 #> 3 needs ~10^8 inferences), so this
          # variant runs under a deterministic inference limit; exceeding it is "inconclusive", not a verdict.
          ("label_wide_first", wrap("Vs = %s, call_with_inference_limit(findall(Vs, (ins(Vs,'..'((-12),12)), %s, %s, label(Vs)), L), "
                                    "%d, R)" % (vs, cons, doms, WIDE_LIMIT))),
          ("labeling", wrap("Vs = %s, findall(Vs, (%s, %s, labeling([%s], Vs)), L)" % (vs, doms, cons, ",".join(v["opts"]))))]
    if v["objdef"]:
        qs.append(("optim", wrap("Vs = %s, findall(Vs, (%s, %s, labeling([%s(%s)], Vs)), L)" % (
            vs, doms, cons, v["obj"]["dir"], etext(v["obj"]["e"])))))
    members = ", ".join("member(%s,[%s])" % (vname(i + 1), ",".join(lit(x) for x in d)) for i, d in enumerate(v["dom"]))
    for j, c in enumerate(v["sys"]):
        qs.append(("ground%d" % j, wrap("Vs = %s, findall(r(Vs,R), (%s, catch((%s -> R = t ; R = f), error(Er,_), R = e(Er))), L)" % (
            vs, members, ctext(c)))))
    probes = ", ".join("fd_dom(%s,D%d), fd_inf(%s,I%d), fd_sup(%s,S%d)" % (vname(i), i, vname(i), i, vname(i), i)
                       for i in range(1, v["nv"] + 1))
    ps = ",".join("p(D%d,I%d,S%d)" % (i, i, i) for i in range(1, v["nv"] + 1))
    qs.append(("propagate", wrap("findall([%s], (%s, %s, %s), L)" % (ps, doms, cons, probes))))
    return qs


# ------------------------------------------------------------------------------------------
# independent evaluator: sanity of the specification's truth values (mismatch = tool error)
# ------------------------------------------------------------------------------------------

def tdiv(x, y):
    q = abs(x) // abs(y)
    return q if (x < 0) == (y < 0) else -q


def pyeval(e, a):
    k = e["k"]
    if k == "int":
        return int(e["i"])
    if k == "var":
        return a[e["i"] - 1]
    if k == "un":
        x = pyeval(e["l"], a)
        if x is None:
            return None
        return {"-": -x, "abs": abs(x), "sign": (x > 0) - (x < 0)}[e["op"]]
    x, y = pyeval(e["l"], a), pyeval(e["r"], a)
    if x is None or y is None:
        return None
    op = e["op"]
    if op in ("//", "div", "mod", "rem") and y == 0:
        return None
    if op == "^":
        if y >= 0:
            return x ** y
        return {1: 1, -1: (1 if y % 2 == 0 else -1)}.get(x)
    return {"+": lambda: x + y, "-": lambda: x - y, "*": lambda: x * y, "min": lambda: min(x, y),
            "max": lambda: max(x, y), "//": lambda: tdiv(x, y), "div": lambda: x // y, "mod": lambda: x % y,
            "rem": lambda: x - y * tdiv(x, y)}[op]()


REL = {"#=": lambda x, y: x == y, "#\\=": lambda x, y: x != y, "#<": lambda x, y: x < y, "#=<": lambda x, y: x <= y,
       "#>": lambda x, y: x > y, "#>=": lambda x, y: x >= y}


def pytruth(c, a):
    """(truth, boolean-positions-ok)"""
    k = c["k"]
    if k == "rel":
        x, y = pyeval(c["l"], a), pyeval(c["r"], a)
        return (x is not None and y is not None and REL[c["op"]](x, y)), True
    if k == "in":
        return a[c["i"] - 1] in c["d"], True
    if k == "bvar":
        return a[c["i"] - 1] == 1, a[c["i"] - 1] in (0, 1)
    if k == "bint":
        return int(c["i"]) == 1, True
    if k == "not":
        t, ok = pytruth(c["l"], a)
        return (not t), ok
    if k == "conn":
        (p, ok1), (q, ok2) = pytruth(c["l"], a), pytruth(c["r"], a)
        t = {"#\\/": p or q, "#/\\": p and q, "#\\": p != q, "#<==>": p == q, "#==>": (not p) or q,
             "#<==": (not q) or p}[c["op"]]
        return t, ok1 and ok2
    if k == "distinct":
        xs = [pyeval(x, a) for x in c["xs"]]
        return len(set(xs)) == len(xs), True
    if k == "sum":
        y = pyeval(c["r"], a)
        return (y is not None and REL[c["op"]](sum(pyeval(x, a) for x in c["xs"]), y)), True
    raise ValueError(c)


def assignments(v):
    return [tuple(a) for a in itertools.product(*v["dom"])]


def pycheck(v):
    asg = assignments(v)
    if len(asg) != v["nassign"]:
        raise common.ToolError("assignment count mismatch in case %s" % v["n"])
    for j, c in enumerate(v["sys"]):
        mine = []
        for a in asg:
            t, ok = pytruth(c, a)
            mine.append(1 if (t and ok) else 0)
        if mine != v["masks"][j]:
            raise common.ToolError("specification self-check failed: case %s constraint %s python=%r spec=%r" % (
                v["n"], ctext(c), mine, v["masks"][j]))
    sols = [a for i, a in enumerate(asg) if all(m[i] == 1 for m in v["masks"])]
    if sols != [tuple(s) for s in v["sols"]]:
        raise common.ToolError("specification self-check failed: solutions of case %s" % v["n"])


# ------------------------------------------------------------------------------------------
# observation
# ------------------------------------------------------------------------------------------

def pylist(t):
    out = []
    while t[0] == 'c' and t[1] == '.' and len(t[2]) == 2:
        out.append(t[2][0])
        t = t[2][1]
    return out if t == terms.NIL else None


def tuples_of(t):
    xs = pylist(t)
    if xs is None:
        return None
    out = []
    for x in xs:
        ys = pylist(x)
        if ys is None or any(y[0] != 'i' for y in ys):
            return None
        out.append(tuple(y[1] for y in ys))
    return out


def domset(t):
    """clpz domain term (finite) -> set of integers; None if not finite/recognised"""
    if t[0] == 'i':
        return {t[1]}
    if t[0] == 'c' and t[1] == '..' and len(t[2]) == 2 and t[2][0][0] == 'i' and t[2][1][0] == 'i':
        return set(range(t[2][0][1], t[2][1][1] + 1))
    if t[0] == 'c' and t[1] == '\\/' and len(t[2]) == 2:
        a, b = domset(t[2][0]), domset(t[2][1])
        return None if a is None or b is None else a | b
    return None


def answer(out):
    """harness result -> (bindings dict of canonical terms, None) or (None, description)"""
    if "panic" in out:
        return None, "panic: %s" % out["panic"]
    a = out.get("a")
    if not a or len(a) != 1 or not isinstance(a[0], dict) or "b" not in a[0]:
        return None, "answers: %s" % json.dumps(a)[:300]
    b = {k: terms.from_h(x) for k, x in a[0]["b"].items()}
    if "E" in b and b["E"][0] != 'v':
        return None, "error: %s" % terms.text(b["E"])
    if "L" not in b:
        return None, "no L: %s" % json.dumps(a)[:300]
    return b, None


INCONCLUSIVE = "inconclusive"


def judge_case(v, kind, out):
    """returns None if the observation agrees with the specification, else a short description"""
    b, why = answer(out)
    sols = [tuple(s) for s in v["sols"]]
    if b is None and kind == "label_wide_first" and out.get("a") and isinstance(out["a"][0], dict) and \
            out["a"][0].get("b", {}).get("R") == {"a": "inference_limit_exceeded"}:
        return INCONCLUSIVE
    if b is None:
        if (why.startswith("error: 'domain_error'('clpz_reifiable_expression'") and "bvar" in v["kinds"] and not sols
                and not kind.startswith("ground")):
            # posting met an integer other than 0/1 in a Boolean position: error in place of failure (see Clpz.tla, BoolOK)
            return None
        return why
    if kind == "propagate":
        ls = pylist(b["L"])
        if ls is None:
            return "malformed answer"
        if not ls:
            return None if not sols else "posting failed although %d solutions exist" % len(sols)
        for entry in ls:
            ps = pylist(entry)
            if ps is None or len(ps) != v["nv"]:
                return "malformed answer"
            for i, p in enumerate(ps):
                d, lo, hi = p[2]
                ds = domset(d)
                need = set(v["proj"][i])
                if ds is None:
                    return "X%d: domain not finite: %s" % (i + 1, terms.text(d))
                if not need <= ds:
                    return "X%d: fd_dom %s lost %s" % (i + 1, terms.text(d), sorted(need - ds))
                if not ds <= set(v["dom"][i]):
                    return "X%d: fd_dom %s outside the posted domain" % (i + 1, terms.text(d))
                if lo[0] != 'i' or hi[0] != 'i' or (need and (lo[1] > min(need) or hi[1] < max(need))):
                    return "X%d: fd_inf/fd_sup %s..%s cut off %s" % (i + 1, terms.text(lo), terms.text(hi), sorted(need))
                if ds and (lo[1] != min(ds) or hi[1] != max(ds)):
                    return "X%d: fd_inf/fd_sup %s..%s disagree with fd_dom %s" % (i + 1, terms.text(lo), terms.text(hi), terms.text(d))
        return None
    if kind.startswith("ground"):
        j = int(kind[6:])
        asg = assignments(v)
        ls = pylist(b["L"])
        if ls is None or len(ls) != len(asg):
            return "malformed answer (%s entries for %d ground instances)" % (None if ls is None else len(ls), len(asg))
        for a, m, bm, entry in zip(asg, v["masks"][j], v["bmasks"][j], ls):
            if entry[0] != 'c' or entry[1] != 'r' or tuples_of(terms.mk_list([entry[2][0]])) != [a]:
                return "malformed answer"
            r = entry[2][1]
            if r == ('a', 't'):
                ok = m == 1
            elif r == ('a', 'f'):
                ok = m == 0
            else:
                # an integer other than 0/1 in a Boolean position: domain error accepted in place of failure
                ok = (bm == 0 and r[0] == 'c' and r[1] == 'e' and r[2][0][0] == 'c' and r[2][0][1] == 'domain_error'
                      and r[2][0][2][0] == ('a', 'clpz_reifiable_expression'))
            if not ok:
                return "ground instance %s: expected %s got %s" % (list(a), "true" if m == 1 else "false", terms.text(r))
        return None
    got = tuples_of(b["L"])
    if got is None:
        return "malformed answer"
    if kind in ("label", "label_wide_first"):
        if got != sols:
            if sorted(got) == sols:
                return "order not lexicographic"
            return "missing=%s extra=%s dup=%s" % (sorted(set(sols) - set(got))[:4], sorted(set(got) - set(sols))[:4],
                                                    len(got) != len(set(got)))
        return None
    if sorted(got) != sols:
        return "missing=%s extra=%s dup=%s" % (sorted(set(sols) - set(got))[:4], sorted(set(got) - set(sols))[:4],
                                                len(got) != len(set(got)))
    if kind == "optim":
        val = {tuple(s): o for s, o in zip(v["sols"], v["objv"])}
        seq = [val[g] for g in got]
        mono = all(x <= y for x, y in zip(seq, seq[1:])) if v["obj"]["dir"] == "min" else \
            all(x >= y for x, y in zip(seq, seq[1:]))
        if not mono:
            return "objective not monotone: %s" % seq[:12]
    return None


def nclass(n):
    return 0 if n == 0 else 1 if n == 1 else 2 if n <= 8 else 3


def cover_class(v, kind):
    k = "ground" if kind.startswith("ground") else kind
    return (k, v["nv"], len(v["sys"]), tuple(sorted(v["kinds"])), v["partial"], nclass(len(v["sols"])),
            tuple(v["opts"]) if k == "labeling" else ())


def build_jobs(vecs):
    jobs = []
    for bi in range(0, len(vecs), BATCH):
        steps = [{"consult": SETUP}]
        index = []
        for vi, v in enumerate(vecs[bi:bi + BATCH]):
            for kind, q in queries(v):
                steps.append({"q": q, "max": 2})
                index.append((bi + vi, kind))
        jobs.append({"id": bi, "steps": steps, "timeout": JOB_TIMEOUT, "index": index})
    return jobs


def run(tier):
    rep = Report(PROP, tier, "model_checking")
    rep.rule = ("case n = the constraint system drawn from the template grammar by the Lehmer stream of (VERIF_SEED, n): 1..3 "
                "variables with interval domains inside -3..4 (one third with a hole), 1..MaxC constraints (relations of "
                "expression depth <= 2, reified formulas of connective depth <= 2 over relations of depth <= 1, Boolean "
                "variables, in/2, all_distinct/all_different, sum/3); labeling options cycle through the 30 combinations; "
                "distinct = distinct (observation kind, #vars, #constraints, set of functors, partial operations?, "
                "solution-count class, labeling options)")
    res, vecs = common.generate("MC_C27", "MC_C27_%s.cfg" % tier, workers=8 if tier == "quick" else 12,
                                timeout=3600, env_extra={"VERIF_SEED": common.seed()}, key=lambda v: v["n"])
    rep.add_tlc(res)
    if not vecs:
        raise common.ToolError("no vectors generated")
    vecs.sort(key=lambda v: v["n"])
    for v in vecs:
        pycheck(v)
    jobs = build_jobs(vecs)
    results = run_jobs([{k: j[k] for k in ("id", "steps", "timeout")} for j in jobs],
                       workers=8 if tier == "quick" else 12, job_timeout=JOB_TIMEOUT)
    nq = 0
    inconclusive = 0
    for job in jobs:
        r = results.get(job["id"], {"crash": "missing"})
        if "crash" in r:
            # isolate: every query of the batch in its own machine; one that alone stalls or kills the worker is a finding
            singles = [{"id": k, "steps": [{"consult": SETUP}, job["steps"][1 + k]], "timeout": SINGLE_TIMEOUT}
                       for k in range(len(job["index"]))]
            sres = run_jobs(singles, workers=8, job_timeout=SINGLE_TIMEOUT)
            outs = []
            for k in range(len(job["index"])):
                x = sres.get(k, {"crash": "missing"})
                outs.append({"panic": "worker %s (query alone, limit %ds)" % (x["crash"], SINGLE_TIMEOUT)} if "crash" in x
                            else x["res"][1])
        else:
            outs = r["res"][1:]
        for (vi, kind), out, step in zip(job["index"], outs, job["steps"][1:]):
            v = vecs[vi]
            nq += 1
            bad = judge_case(v, kind, out)
            if bad == INCONCLUSIVE:
                inconclusive += 1
                continue
            rep.case(cover_class(v, kind))
            if bad:
                k = "ground" if kind.startswith("ground") else kind
                what = ctext(v["sys"][int(kind[6:])]) if k == "ground" else "%s ; %s" % (doms_text(v), cons_text(v))
                extra = " opts=%s" % ",".join(v["opts"]) if k == "labeling" else ""
                if "bvar" in v["kinds"]:
                    extra += " bvar"
                rep.violation("%s%s %s :: %s" % (k, extra, what, bad),
                              {"vector": v, "kind": kind, "query": step["q"], "why": bad})
    for v in vecs[:: max(1, len(vecs) // 5)]:
        rep.sample({"post": "%s, %s" % (doms_text(v), cons_text(v)), "solutions": len(v["sols"]), "assignments": v["nassign"]})
    rep.traces = len(vecs)
    rep.extra["queries"] = nq
    rep.extra["wide_first_inference_limit_exceeded"] = inconclusive
    rep.extra["systems_with_solutions"] = sum(1 for v in vecs if v["sols"])
    rep.extra["systems_with_partial_operations"] = sum(1 for v in vecs if v["partial"])
    rep.exhaustive = False
    rep.assumptions = ["TLC and Clpz.tla (sanity invariant checked in the same run; truth values cross-checked with Python)",
                       "functional-notation renderer, findall/3, member/2 and the LeafAnswer projection of the harness",
                       "a constraint whose expression has no value (zero divisor, non-integer power) does not hold / reifies to 0"]
    return rep.finish()


def replay(path):
    d = json.load(open(path))
    v = d["detail"]["vector"]
    qs = queries(v)
    jobs = [{"id": 0, "steps": [{"consult": SETUP}] + [{"q": q, "max": 2} for _, q in qs], "timeout": JOB_TIMEOUT}]
    r = run_jobs(jobs, workers=1, job_timeout=JOB_TIMEOUT)[0]
    if "crash" in r:
        print(json.dumps(r))
        return 0
    for (kind, q), out in zip(qs, r["res"][1:]):
        print(json.dumps({"kind": kind, "query": q, "verdict": judge_case(v, kind, out) or "agrees",
                          "result": out}, default=str)[:3000])
    print(json.dumps({"expected_solutions": v["sols"]})[:3000])
    return 0
