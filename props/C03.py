"""C03 - Arithmetic does not depend on how the expression reaches is/2.

spec -> impl: MC_C03 (TLC) enumerates expression trees over every evaluable functor of either evaluator and diffs the
two dispatch tables (extracted from the sources at check time).  impl -> spec: every tree is placed in every evaluation
context of the real machine; what the machine answered is logged as an ndjson trace that Trace_C03 (TLC) validates
against ArithCtx: the integer fragment has an exact oracle (ArithInt/BigInt), everything else is an unlogged value that
TLC infers from the first observation and that every other context has to reproduce (floats by bits, errors by Formal
and culprit)."""
import json
import os
import re
import time

from lib import common, terms
from lib.common import Report, run_tlc, tlc_ok, run_jobs

PROP = "C03"

META = {
    "level": "model_checking",
    "text": "ArithCtx.tla states that every evaluation context (compiled clause body, expression passed in a variable, "
            "operand of =:= on either side, findall, asserted-then-called clause, call/1, catch/3, nested under +/1, compiled "
            "operator over run-time operands) delivers Eval(e). TLC enumerates all expression trees in the stated bounds over "
            "every evaluable functor found in either evaluator's dispatch table (extracted from the sources at check time and "
            "diffed by the spec), checks the context layer on each tree, and validates the recorded answers of the real machine "
            "as a trace: exact BigInt oracle for the integer fragment, TLC-inferred unlogged value elsewhere. Bounded-exhaustive "
            "conformance within the enumerated trees, not proof.",
    "note": "Trusted: TLC, BigInt/ArithInt (validated by C01), the text scan of the two Rust match statements, the canonical "
            "text renderer, the LeafAnswer projection of the harness, Scryer's reader for the rendered literals (floats are "
            "rendered as shortest round-trip decimals). Values of float functions are not judged (C02), only their equality "
            "across contexts. Load-time errors of compiled contexts are read back from the loader's printed message.",
    "technique": "TLA+ specification + TLC enumeration of expression trees; trace validation (Trace_C03) of recorded evaluations "
                 "with an unlogged variable inferred by TLC",
}

WORK = os.path.join(common.WORK, "c03")
VALUE_CTX = ["inline", "var", "findall", "assert", "call", "catch", "nested", "mixed"]
TEST_CTX = ["cmp_l", "cmp_r"]


# ---------------------------------------------------------------------------------------------
# dispatch tables of the two evaluators (plain text scan of the sources)
# ---------------------------------------------------------------------------------------------

ATOM_ARM = re.compile(r'atom!\("((?:[^"\\]|\\.)*)"\)\s*=>')
ATOM_ANY = re.compile(r'atom!\("((?:[^"\\]|\\.)*)"\)')


def _unrust(s):
    return s.replace("\\\\", "\\").replace('\\"', '"')


def _segment(src, start_pat, end_pats):
    m = re.search(start_pat, src)
    if not m:
        return None
    a = m.start()
    b = len(src)
    for ep in end_pats:
        m2 = re.compile(ep).search(src, m.end())
        if m2:
            b = min(b, m2.start())
    return src[a:b]


def extract_tables():
    """functor tables of the compiled evaluator (arithmetic.rs) and of the run-time walker (arithmetic_ops.rs)"""
    out = {"extracted": False, "cu": [], "cb": [], "cn": [], "ru": [], "rb": [], "rn": [],
           "unary": [], "binary": [], "nullary": []}
    try:
        a = open(os.path.join(common.REPO, "src", "arithmetic.rs")).read()
        r = open(os.path.join(common.REPO, "src", "machine", "arithmetic_ops.rs")).read()
        cu = _segment(a, r"fn get_unary_instr\b", [r"\n    fn \w+", r"\n    pub(\(crate\))? fn \w+"])
        cb = _segment(a, r"fn get_binary_instr\b", [r"\n    fn \w+", r"\n    pub(\(crate\))? fn \w+"])
        cn = _segment(a, r"fn push_literal\b", [r"\nimpl\b", r"\nfn \w+", r"\npub(\(crate\))? fn \w+"])
        walker = _segment(r, r"fn arith_eval_by_metacall\b", [r"\n    (pub(\(crate\))? )?fn \w+", r"\n#\[cfg\(test\)\]"])
        if not (cu and cb and cn and walker):
            return out
        i2 = walker.find("arity == 2")
        i1 = walker.find("arity == 1")
        i0 = walker.find("arity == 0")
        if not (0 <= i2 < i1 < i0):
            return out
        iend = walker.find("evaluable_error", i0)
        iend = len(walker) if iend < 0 else iend
        out["cu"] = sorted(set(_unrust(x) for x in ATOM_ARM.findall(cu)))
        out["cb"] = sorted(set(_unrust(x) for x in ATOM_ARM.findall(cb)))
        out["cn"] = sorted(set(_unrust(x) for x in ATOM_ANY.findall(cn)))
        out["rb"] = sorted(set(_unrust(x) for x in ATOM_ARM.findall(walker[i2:i1])))
        out["ru"] = sorted(set(_unrust(x) for x in ATOM_ARM.findall(walker[i1:i0])))
        out["rn"] = sorted(set(_unrust(x) for x in ATOM_ARM.findall(walker[i0:iend])))
        if not all(out[k] for k in ("cu", "cb", "cn", "ru", "rb", "rn")):
            return out
        out["unary"] = sorted(set(out["cu"]) | set(out["ru"]))
        out["binary"] = sorted(set(out["cb"]) | set(out["rb"]))
        out["nullary"] = sorted(set(out["cn"]) | set(out["rn"]))
        out["extracted"] = True
    except OSError:
        pass
    return out


def make_cfg(static_cfg, tables_path, trace_path=None, tag=""):
    """copy spec/<static_cfg> to work/ with the per-run file names substituted"""
    txt = open(os.path.join(common.SPEC, static_cfg)).read()
    txt = re.sub(r'CONSTANT TablesPath = "[^"]*"', 'CONSTANT TablesPath = "%s"' % tables_path, txt)
    if trace_path:
        txt = re.sub(r'CONSTANT TracePath = "[^"]*"', 'CONSTANT TracePath = "%s"' % trace_path, txt)
    p = os.path.join(WORK, "%s-%s%d.cfg" % (os.path.splitext(static_cfg)[0], tag, os.getpid()))
    with open(p, "w") as f:
        f.write(txt)
    return p


# ---------------------------------------------------------------------------------------------
# rendering
# ---------------------------------------------------------------------------------------------

def big(v):
    n = 0
    for limb in reversed(v["m"]):
        n = n * 10000 + limb
    return -n if v["neg"] else n


def canon(e):
    """ArithCtx expression record -> canonical tuple of lib/terms"""
    t = e["t"]
    if t == "int":
        return ('i', big(e["v"]))
    if t == "flt":
        return ('f', int(e["n"], 16))
    if t == "atom":
        return ('a', e["n"])
    if t == "var":
        return ('v', '_')
    if t == "op":
        return ('c', e["n"], tuple(canon(x) for x in e["a"]))
    raise ValueError(e)


def etext(e):
    return terms.text(canon(e))


def obs_text(t):
    """canonical text of an observed error term (the rules of ArithCtx!ErrText: functional notation, no quotes, no
    blanks).  A float culprit is written by its bits, except that -0.0 is written as 0.0: Scryer interns floats by
    numeric equality (OrderedFloat), so which zero an error term shows depends on which zero the machine saw first,
    not on the expression (values, as opposed to culprits, are compared bit for bit)."""
    k = t[0]
    if k == 'a':
        return t[1]
    if k == 'i':
        return str(t[1])
    if k == 'f':
        return "%016x" % (0 if t[1] == 0x8000000000000000 else t[1])
    if k == 'r':
        return "%d/%d" % (t[1], t[2])
    if k == 'v':
        return "_"
    if k == 'c':
        return "%s(%s)" % (t[1], ",".join(obs_text(x) for x in t[2]))
    return repr(t)


def clauses(k, e):
    """context -> clause text for expression number k of a job"""
    E = etext(e)
    cl = {
        "inline": "i_%d(X) :- X is %s." % (k, E),
        "var": "v_%d(X) :- T = %s, X is T." % (k, E),
        "findall": "f_%d(X) :- findall(Y, Y is %s, L), L = [X]." % (k, E),
        "assert": "a_%d(X) :- assertz((d_%d(Y) :- Y is %s)), d_%d(X)." % (k, k, E, k),
        "call": "c_%d(X) :- G = (X is %s), call(G)." % (k, E),
        "nested": "n_%d(X) :- X is '+'(%s)." % (k, E),
        "cmp_l": "l_%d(V) :- %s =:= V." % (k, E),
        "cmp_r": "r_%d(V) :- V =:= %s." % (k, E),
    }
    if e["t"] == "op":
        f = terms.quote_atom(e["n"])
        if len(e["a"]) == 1:
            cl["mixed"] = "m_%d(X) :- A = %s, X is %s(A)." % (k, etext(e["a"][0]), f)
        else:
            cl["mixed"] = "m_%d(X) :- A = %s, B = %s, X is %s(A,B)." % (k, etext(e["a"][0]), etext(e["a"][1]), f)
    return cl


PRED = {"inline": "i", "var": "v", "findall": "f", "assert": "a", "call": "c", "nested": "n", "mixed": "m",
        "cmp_l": "l", "cmp_r": "r"}


def expr_steps(k, e, nested_ok=True):
    """harness steps for one expression and the plan to read them back: list of (ctx, consult index or None, query index).
    Each context is loaded and queried in turn, so that a panic in one context (the harness then continues on a new
    machine) does not take the clauses of the other contexts with it."""
    steps, plan = [], []
    cl = clauses(k, e)
    E = etext(e)
    for ctx in VALUE_CTX + TEST_CTX:
        if ctx == "catch":
            plan.append((ctx, None, len(steps)))
            steps.append({"q": "catch(X is %s, error(Err,_), true)." % E, "max": 2})
            continue
        if ctx not in cl or (ctx == "nested" and not nested_ok):
            continue
        li = len(steps)
        text = cl[ctx] + "\n"
        if ctx in TEST_CTX:
            # the probe number of the comparison is delivered by a compiled clause of its own
            text = "p%s_%d(X) :- X is %s.\n" % (PRED[ctx], k, E) + text
        steps.append({"consult": text})
        # a consult that ended with an error leaves the machine in a state in which the next *throwing* query
        # panics (raw_block.rs "Shrink cannot grow"; not C03's subject): a non-throwing query clears it
        steps.append({"q": "true.", "max": 1})
        plan.append((ctx, li, len(steps)))
        if ctx in TEST_CTX:
            steps.append({"q": "catch(p%s_%d(V), _, V = 0), catch((%s_%d(V) -> R = true ; R = false), error(Err,_), R = err)."
                               % (PRED[ctx], k, PRED[ctx], k), "max": 2})
        else:
            steps.append({"q": "catch(%s_%d(X), error(Err,_), true)." % (PRED[ctx], k), "max": 2})
    return steps, plan


def number_obs(t):
    c = terms.from_h(t)
    if c[0] == 'i':
        return ("int", str(c[1]))
    if c[0] == 'f':
        return ("float", "%016x" % c[1])
    if c[0] == 'r':
        return ("rat", "%d/%d" % (c[1], c[2]))
    return None


def read_value(out):
    """query result of a value context -> (kind, s)"""
    if "panic" in out:
        return ("other", "panic: " + out["panic"])
    a = out.get("a", [])
    if len(a) == 1 and isinstance(a[0], dict) and "b" in a[0]:
        b = a[0]["b"]
        if "X" in b and "Err" not in b:
            n = number_obs(b["X"])
            return n if n else ("other", "non-number " + obs_text(terms.from_h(b["X"])))
        if "Err" in b and "X" not in b:
            return ("err", obs_text(terms.from_h(b["Err"])))
    return ("other", json.dumps(a)[:200])


def read_test(out):
    """query result of a comparison context -> (probe kind, probe text, kind, s)"""
    if "panic" in out:
        return ("other", "", "other", "panic: " + out["panic"])
    a = out.get("a", [])
    if len(a) == 1 and isinstance(a[0], dict) and "b" in a[0]:
        b = a[0]["b"]
        p = number_obs(b["V"]) if "V" in b else None
        r = b.get("R", {}).get("a")
        if p and r in ("true", "false"):
            return (p[0], p[1], r, "")
        if p and r == "err" and "Err" in b:
            return (p[0], p[1], "err", obs_text(terms.from_h(b["Err"])))
    return ("other", "", "other", json.dumps(a)[:200])


LOAD_ERR = re.compile(r"(error\(.*\))\.\s*$", re.S)


def make_job(jid, ids, vecs, nested_ok):
    steps, plan = [], []
    for k, i in enumerate(ids):
        st, p = expr_steps(k, vecs[i]["e"], nested_ok)
        off = len(steps)
        steps += st
        plan.append((i, [(ctx, None if li is None else li + off, qi + off) for ctx, li, qi in p]))
    return {"id": jid, "steps": steps, "timeout": 300, "fresh": True}, plan


def collect(vecs, nested_ok, workers=8, per_job=40):
    """run every expression in every context; returns obs[id] = list of event dicts (without begin)"""
    jobs, plans = [], {}
    for bi in range(0, len(vecs), per_job):
        job, plan = make_job(len(jobs), list(range(bi, min(bi + per_job, len(vecs)))), vecs, nested_ok)
        jobs.append(job)
        plans[job["id"]] = plan
    results = run_jobs(jobs, workers=workers, job_timeout=300)
    # a worker that died or stalled took a whole batch with it: run the expressions of such a batch again, one per
    # job, to tell an abort/hang of the code under test (repeats, attributed to its expression) from a kill from outside
    crashed = [j for j in jobs if "crash" in results.get(j["id"], {"crash": "missing"})]
    if crashed:
        retry = []
        for j in crashed:
            for i, _ in plans.pop(j["id"]):
                job, plan = make_job(len(jobs) + len(retry), [i], vecs, nested_ok)
                retry.append(job)
                plans[job["id"]] = plan
        jobs = [j for j in jobs if j["id"] in plans] + retry
        results.update(run_jobs(retry, workers=workers, job_timeout=300))
    obs = {}
    load_msgs = {}     # printed loader message -> parsed Formal text (filled below)
    pending = []
    for job in jobs:
        r = results.get(job["id"], {"crash": "missing"})
        for eid, p in plans[job["id"]]:
            evs = []
            for ctx, li, qi in p:
                if "crash" in r:
                    got = ("other", "worker " + str(r["crash"]))
                    ev = {"ctx": ctx, "kind": got[0], "s": got[1]}
                    if ctx in TEST_CTX:
                        ev.update({"pk": "other", "ps": ""})
                    evs.append(ev)
                    continue
                res = r["res"]
                loadmsg = None
                if li is not None:
                    lo = res[li]
                    if "panic" in lo:
                        loadmsg = "panic: " + lo["panic"]
                    elif "error(" in lo.get("out", ""):
                        loadmsg = lo["out"].strip()
                if loadmsg is not None:
                    # the clause was rejected by the loader: the loader's message is the observation
                    ev = {"ctx": ctx, "kind": "load", "s": loadmsg}
                    if ctx in TEST_CTX:
                        ev.update({"pk": "other", "ps": ""})
                    load_msgs[loadmsg] = None
                    pending.append(ev)
                    evs.append(ev)
                    continue
                if ctx in TEST_CTX:
                    pk, ps, kind, s = read_test(res[qi])
                    evs.append({"ctx": ctx, "pk": pk, "ps": ps, "kind": kind, "s": s})
                else:
                    kind, s = read_value(res[qi])
                    evs.append({"ctx": ctx, "kind": kind, "s": s})
            obs[eid] = evs
    # the loader only prints its error; read the printed term back through the machine's own reader
    msgs = sorted(load_msgs)
    if msgs:
        steps = []
        for m in msgs:
            mm = LOAD_ERR.search(m)
            steps.append({"q": "T = %s." % mm.group(1) if mm else "T = unreadable.", "max": 1})
        jr = run_jobs([{"id": 0, "steps": steps, "timeout": 120, "fresh": True}], workers=1, job_timeout=120)[0]
        for m, out in zip(msgs, jr.get("res", [{}] * len(msgs))):
            formal = None
            a = out.get("a", []) if isinstance(out, dict) else []
            if len(a) == 1 and isinstance(a[0], dict) and "b" in a[0] and "T" in a[0]["b"]:
                t = terms.from_h(a[0]["b"]["T"])
                if t[0] == 'c' and t[1] == 'error' and len(t[2]) == 2:
                    formal = obs_text(t[2][0])
            load_msgs[m] = formal
    for ev in pending:
        formal = load_msgs.get(ev["s"])
        if formal is None:
            ev["kind"], ev["s"] = "other", "load message: " + ev["s"][:200]
        else:
            ev["kind"], ev["s"] = "err", formal
        ev["at_load"] = True
    return obs


# ---------------------------------------------------------------------------------------------
# trace validation
# ---------------------------------------------------------------------------------------------

def operand_outcomes(vecs, obs, index, i):
    """per operand of expression i: the distinct outcomes that operand gave on its own (value contexts)"""
    ops = []
    for x in vecs[i]["e"]["a"]:
        j = index.get(json.dumps(x, sort_keys=True))
        if j is None:
            raise common.ToolError("MC_C03 did not enumerate the operand %s of %s" % (etext(x), etext(vecs[i]["e"])))
        outs = sorted(set((ev["kind"], ev["s"]) for ev in obs[j] if ev["ctx"] not in TEST_CTX))
        ops.append([{"kind": k, "s": t} for k, t in outs])
    return ops


def write_trace(path, vecs, obs, ids, index):
    n = 0
    with open(path, "w") as f:
        for i in ids:
            f.write(json.dumps({"ev": "begin", "id": i, "e": vecs[i]["e"],
                                "ops": operand_outcomes(vecs, obs, index, i)}) + "\n")
            n += 1
            for ev in obs[i]:
                if ev["ctx"] in TEST_CTX:
                    rec = {"ev": "test", "id": i, "ctx": ev["ctx"], "pk": ev["pk"], "ps": ev["ps"],
                           "kind": ev["kind"], "s": ev["s"]}
                else:
                    rec = {"ev": "obs", "id": i, "ctx": ev["ctx"], "kind": ev["kind"], "s": ev["s"]}
                f.write(json.dumps(rec) + "\n")
                n += 1
        f.write(json.dumps({"ev": "end"}) + "\n")
        n += 1
    return n


def validate(rep, tables_path, vecs, obs, ids, tag, index, keep=False):
    """run Trace_C03 over the events of the expressions `ids`; returns (rejected ids, order-only ids, events)"""
    path = os.path.join(WORK, "trace-%s-%d.ndjson" % (tag, os.getpid()))
    n = write_trace(path, vecs, obs, ids, index)
    cfg = make_cfg("Trace_C03.cfg", tables_path, path, tag + "-")
    res = run_tlc("Trace_C03", cfg, workers=1, dfs=True, timeout=3600, tag="Trace_C03-%s" % tag)
    if res.violated == "postcondition" or (res.error and "ostcondition" in (res.out or "")):
        raise common.ToolError("Trace_C03 did not consume the whole trace %s\n%s" % (path, "\n".join(res.lines[-30:])))
    tlc_ok(res, "Trace_C03 " + tag)
    if rep is not None:
        rep.add_tlc(res)
    verdicts = [v for v in res.printed() if isinstance(v, dict) and v.get("kind") == "verdict"]
    if len(verdicts) != 1 or verdicts[0]["events"] != n:
        raise common.ToolError("Trace_C03 gave no verdict for %s (%d events)\n%s" % (path, n, "\n".join(res.lines[-30:])))
    if not keep:
        try:
            os.remove(path)
            os.remove(cfg)
        except OSError:
            pass
    return set(verdicts[0]["bad"]), set(verdicts[0]["order"]), n


def signature(kind, e, evs, oracle):
    """stable description of a disagreement: which contexts said what"""
    groups = {}
    for ev in evs:
        if ev["ctx"] in TEST_CTX:
            key = "%s[probe %s]%s" % (ev["kind"], ev["ps"], (":" + ev["s"]) if ev["s"] else "")
        else:
            key = "%s:%s" % (ev["kind"], ev["s"])
        groups.setdefault(key, []).append(ev["ctx"])
    parts = ["%s<-%s" % (k, "+".join(sorted(v))) for k, v in sorted(groups.items())]
    return ("%s :: %s :: expr=%s oracle=%s" % (kind, " | ".join(parts), etext(e), oracle))[:700]


def classify(e):
    def k(x):
        if x["t"] == "op":
            return "%s/%d" % (x["n"], len(x["a"]))
        if x["t"] == "int":
            n = abs(big(x["v"]))
            return "int<2^55" if n < (1 << 55) else "int>=2^55"
        return x["t"] if x["t"] != "atom" else "atom:" + x["n"]
    if e["t"] == "op":
        return (k(e),) + tuple(k(x) for x in e["a"])
    return (k(e),)


def run(tier):
    rep = Report(PROP, tier, META["level"])
    os.makedirs(WORK, exist_ok=True)
    rep.rule = ("TLC (MC_C03) enumerates expression trees: every evaluable functor of either dispatch table on every leaf "
                "(unary) / on leaf pairs (binary; stratified in quick, all in thorough), every (outer, inner) functor pair at "
                "depth 2 with the inner tree on either side, every third (outer, middle, inner) triple at depth 3 (thorough); "
                "leaves: small ints, 2^55 neighbours, bignums, a rational, floats, e/pi/epsilon, and the error leaves foo, _, "
                "foo(1). Each tree is evaluated in 10 contexts; one evaluation = one (tree, context). distinct = distinct "
                "(context, top functor/arity, kinds of the operands) classes")
    tables = extract_tables()
    tables_path = os.path.join(WORK, "tables-%d.json" % os.getpid())
    with open(tables_path, "w") as f:
        json.dump(tables, f)
    cfg = make_cfg("MC_C03_%s.cfg" % tier, tables_path)
    t0 = time.time()
    res = tlc_ok(run_tlc("MC_C03", cfg, workers=8 if tier == "quick" else 12, timeout=3600,
                         tag="MC_C03-%s" % tier), "C03 generation")
    rep.add_tlc(res)
    hdr, seen = None, {}
    for v in res.printed():
        if v.get("kind") == "tables":
            hdr = v
        elif v.get("kind") == "expr":
            seen.setdefault(json.dumps(v["e"], sort_keys=True), v)
    vecs = [seen[k] for k in sorted(seen)]
    if hdr is None or not vecs:
        raise common.ToolError("MC_C03 printed no vectors")
    # (1) the two dispatch tables
    for ar in ("unary", "binary", "nullary"):
        d = hdr[ar + "_diff"]
        for f in d["only_compiled"]:
            rep.violation("table %s functor %s known to the compiled evaluator only" % (ar, f),
                          {"kind": "table", "arity": ar, "functor": f, "side": "compiled", "tables": tables})
        for f in d["only_runtime"]:
            rep.violation("table %s functor %s known to the run-time evaluator only" % (ar, f),
                          {"kind": "table", "arity": ar, "functor": f, "side": "runtime", "tables": tables})
    rep.case(("tables", "extracted" if hdr["extracted"] else "not-extracted"))
    rep.extra["functor_tables"] = {"extracted": hdr["extracted"], "unary": hdr["nu"], "binary": hdr["nb"],
                                   "not_in_spec": hdr["not_in_spec"], "spec_only": hdr["spec_only"]}
    # (2) every tree in every context
    t1 = time.time()
    obs = collect(vecs, hdr["nested"], workers=8)
    t2 = time.time()
    ids = list(range(len(vecs)))
    index = {json.dumps(v["e"], sort_keys=True): i for i, v in enumerate(vecs)}
    bad, order = set(), set()
    events = 0
    CH = 1200    # expressions per trace file; up to 4 single-worker TLC validations run side by side
    from concurrent.futures import ThreadPoolExecutor
    with ThreadPoolExecutor(max_workers=4 if tier == "quick" else 6) as ex:
        futs = [ex.submit(validate, rep, tables_path, vecs, obs, ids[ci:ci + CH], "%s-%d" % (tier, ci), index)
                for ci in range(0, len(ids), CH)]
        for fu in futs:
            b, o, n = fu.result()
            bad |= b
            order |= o
            events += n
    for i in ids:
        cls = classify(vecs[i]["e"])
        for ev in obs[i]:
            rep.case((ev["ctx"],) + cls)
    for i in sorted(bad | order):
        # "errorder": Trace_C03 found that the contexts differ only in WHICH of the several errors of the expression
        # they report (every reported error is the error of an operand evaluated on its own); "mismatch": anything else
        sig = signature("mismatch" if i in bad else "errorder", vecs[i]["e"], obs[i], vecs[i]["oracle"])
        rep.violation(sig, {"kind": "expr", "vector": vecs[i], "text": etext(vecs[i]["e"]), "observations": obs[i],
                            "operands": [{"vector": {"e": x}, "text": etext(x)} for x in vecs[i]["e"]["a"]],
                            "tables": tables})
    for i in ids[:: max(1, len(ids) // 5)]:
        rep.sample({"expr": etext(vecs[i]["e"]), "oracle": vecs[i]["oracle"],
                    "observed": {ev["ctx"]: (ev["kind"] + ":" + ev["s"]) for ev in obs[i]}})
    rep.traces = len(ids)
    rep.extra["phase_wall_s"] = {"tlc_generate": round(t1 - t0, 1), "harness": round(t2 - t1, 1),
                                 "tlc_trace_validation": round(time.time() - t2, 1)}
    rep.extra["trace_events"] = events
    rep.extra["expressions"] = len(ids)
    rep.extra["by_oracle"] = {k: sum(1 for v in vecs if v["oracle"] == k) for k in ("int", "err", "unk")}
    rep.exhaustive = True
    rep.assumptions = ["TLC, BigInt/ArithInt (validated by MC_BigInt/C01)",
                       "text scan of get_unary_instr/get_binary_instr/push_literal/arith_eval_by_metacall"
                       + ("" if hdr["extracted"] else " FAILED: the specification's own functor table was used, tables not diffed"),
                       "canonical text renderer, Scryer's reader for the rendered literals, LeafAnswer projection",
                       "a clause rejected at load time is observed through the loader's printed error term",
                       "the sign of a zero float inside an error term is not compared (float interning makes it history dependent)"]
    try:
        os.remove(tables_path)
        os.remove(cfg)
    except OSError:
        pass
    return rep.finish()


def subterms(e, acc):
    key = json.dumps(e, sort_keys=True)
    if key not in acc:
        acc[key] = e
        for x in e["a"]:
            subterms(x, acc)
    return acc


def replay(path):
    d = json.load(open(path))
    det = d["detail"]
    if det.get("kind") == "table":
        t = extract_tables()
        print(json.dumps({"was": det, "now": {k: t[k] for k in ("cu", "ru", "cb", "rb", "cn", "rn")}}, indent=1))
        return 0
    os.makedirs(WORK, exist_ok=True)
    top = det["vector"]
    acc = subterms(top["e"], {})
    vecs = [top] + [{"e": acc[k], "oracle": "?"} for k in sorted(acc) if acc[k] != top["e"]]
    index = {json.dumps(v["e"], sort_keys=True): i for i, v in enumerate(vecs)}
    tables = extract_tables()
    tables_path = os.path.join(WORK, "tables-%d.json" % os.getpid())
    with open(tables_path, "w") as f:
        json.dump(tables, f)
    obs = collect(vecs, "+" in tables["unary"] or not tables["extracted"], workers=1)
    bad, order, _ = validate(None, tables_path, vecs, obs, list(range(len(vecs))), "replay", index, keep=True)
    print(json.dumps({"expr": etext(top["e"]), "oracle": top["oracle"], "observations": obs[0],
                      "operands": {etext(vecs[i]["e"]): sorted(set(ev["kind"] + ":" + ev["s"] for ev in obs[i]
                                                                   if ev["ctx"] not in TEST_CTX))
                                   for i in range(1, len(vecs))},
                      "rejected_by_Trace_C03": {"mismatch": sorted(etext(vecs[i]["e"]) for i in bad),
                                                "errorder": sorted(etext(vecs[i]["e"]) for i in order)}}, indent=1))
    return 1 if (bad or order) else 0
