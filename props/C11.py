"""C11 - Backtracking restores exactly the pre-goal state."""
import json
from lib import common, terms
from lib.common import Report, run_jobs, generate
from props import C12 as base      # shared glue: batch replay with a log predicate, log comparison, error-context normalisation

PROP = "C11"
META = {
    "level": "model_checking",
    "text": "Layer A (spec/Prolog.tla + spec/PrologExt.tla): a choice point, a catch/3 frame and the constructs built on them "
            "(\\+, if-then-else, findall/3, exhausted disjunctions and clauses) hold a snapshot of the store; the store contains "
            "variable bindings, backtrackable global variables (bb_b_put/2) and attributes (goals suspended by freeze/2, dif/2 "
            "constraints); bb_put/2 values live outside it. TLC enumerates every script  Pre, Construct(Seq), Post  where Seq is "
            "a sequence of up to 3 (thorough: 3 over the full 18-goal alphabet, 4 over a core) goals binding older (head) and newer "
            "(clause-local, freshly created) variables in both directions, inside structures and through a head unification, "
            "updating globals, posting freeze/dif, opening an inner choice point; Construct is one of 6 state-discarding contexts; "
            "Post inspects all variables and the global and then binds the variables to wake anything still attached. TLC checks "
            "for every script that the store after the construct equals the store before it (marker goals '$snap'/'$chk') and "
            "prints the expected log; each script is replayed on the real system and outcome and log are compared.",
    "note": "Trusted: TLC; the abstract machine; the renderer; log/1 = assertz(logged(T)). Not judged (not emitted by the spec): "
            "scripts that build cyclic terms; bb_put/2 on a key that currently holds a backtrackable value (the two clauses of the "
            "property conflict); orders the documents leave open (two suspended variables bound by one unification, merging two "
            "suspension lists, a suspended goal and a violated dif/2 on the same binding). Global values are ground or held by "
            "reference, so the copy cached by bb_get/2 is not observable. The implementation-level trail model (Wam, layer B) and "
            "the hook-based trace validation of trail events are not part of this round.",
    "technique": "TLA+ abstract machine explored by TLC; behaviours replayed into the real engine (spec -> impl)",
}

HELPERS = """:- use_module(library(iso_ext)).
:- use_module(library(lists)).
:- use_module(library(dif)).
:- use_module(library(freeze)).
:- dynamic(logged/1).
log(T) :- assertz(logged(T)).
'$snap'.
'$chk'.
eq(A, A).
new(f(_)).
t(A) :- ( A = 1 ; A = 2 ; A = 3 ).
"""
RENAME = [("p", 2), ("q", 0), ("r", 3)]
CONSTRUCTS = {1: "exhausted disjunction", 2: "double negation", 3: "failing if-then-else condition", 4: "findall",
              5: "catch recovery after throw", 6: "failing clause"}

_uniq = [0]


def make_prog(v, uniq):
    pr = base.make_prog(v, uniq, RENAME)
    # the global variable's key is made unique per script (bb_put/2 values outlive the script)
    _uniq[0] += 1
    key = "'kk_%s_%d'" % (uniq, _uniq[0])
    pr.text = pr.text.replace("'kk'", key)
    pr.qtext = pr.qtext.replace("'kk'", key)
    return pr


def script_text(v):
    return " ".join(terms.text(terms.from_tla(c["h"])) + " :- " + terms.text(terms.from_tla(c["b"])) + "." for c in v["prog"][1:])


def run(tier):
    rep = Report(PROP, tier, "model_checking")
    quick = tier == "quick"
    rep.rule = ("every script (pre-state) x (6 discarding constructs) x (goal sequence over the 18-goal alphabet of MC_C11): %s; "
                "distinct = pre-state x construct x multiset of goal kinds in the sequence"
                % ("pre-states {none, bb_put+freeze} with all sequences of length <= 2 and length 3 over 6 core goals; pre-state "
                   "{bb_b_put+dif+bound structure} with core pairs" if quick
                   else "pre-states {none, bb_put+freeze} with all sequences of length <= 3; pre-state {bb_b_put+dif+bound structure} "
                        "with length <= 2 and core triples; pre-state none with length 4 over 6 core goals"))
    res, vecs = generate("MC_C11", "MC_C11_%s.cfg" % tier, workers=base.cap(8 if quick else 14), timeout=3400,
                         key=lambda v: json.dumps(v["sc"]))
    rep.add_tlc(res)
    if not vecs:
        raise common.ToolError("no vectors")
    for pr, d, crashed in base.run_batches(vecs, HELPERS, make_prog, batch=120):
        v = pr.vec
        sc = v["sc"]
        rep.case((sc[0], sc[1], tuple(sorted(sc[2:]))))
        if d is None:
            continue
        bad = crashed or "panic" in d or "timeout" in d
        kind = "crash" if bad else ("log" if d.startswith("log") else "outcome")
        tag = " dif-on-frozen" if v.get("diffrz") else ""
        rep.violation("%s%s pre=%d construct=%d(%s) seq=%s script=%s: %s" % (kind, tag, sc[0], sc[1], CONSTRUCTS[sc[1]], sc[2:], script_text(v), d),
                      {"vector": v, "diff": d, "program": pr.text, "query": pr.qtext})
    for v in vecs[:: max(1, len(vecs) // 5)]:
        rep.sample({"script": script_text(v), "status": v["status"],
                    "expected_log": [terms.show(terms.from_tla(t)) for t in v["out"]]})
    rep.traces = len(vecs)
    rep.exhaustive = True
    rep.extra["store_equality_checked_by_TLC"] = "'$chk' after every construct except findall: store (bindings, backtrackable globals, attributes) = store at '$snap'"
    rep.assumptions = ["TLC", "spec/Prolog.tla + spec/PrologExt.tla (store-snapshot semantics of choice points and catch frames)",
                       "canonical renderer", "log/1 realised as assertz(logged(T))"]
    return rep.finish()


def replay(path):
    d = json.load(open(path))
    v = d["detail"]["vector"]
    pr = make_prog(v, "0")
    r = run_jobs([{"id": 0, "fresh": True, "timeout": 40, "steps": [
        {"consult": HELPERS}, {"consult": pr.text}, {"q": "retractall(logged(_)).", "max": 2},
        {"q": pr.qtext, "max": base.MAXANS + 2, "tmo_ms": base.TMO_MS}, {"q": "findall(T, logged(T), L).", "max": 2}]}],
        workers=1, job_timeout=40)[0]
    print(pr.text, pr.qtext)
    print("expected: status", v["status"], "ball", terms.show(terms.from_tla(v["ball"])))
    print("expected log", [terms.show(terms.from_tla(t)) for t in v["out"]])
    if "crash" in r:
        print("crash:", r["crash"])
        return 1
    print(json.dumps(r["res"][3:], indent=1)[:3000])
    dd = base.check_one(pr, r["res"][1:])
    print("diff:", dd)
    return 1 if dd else 0
