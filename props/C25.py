"""C25 - All-solutions predicates collect exactly the solutions."""
import json
from lib import common, terms
from lib.common import Report, run_jobs, generate, tlc_ok
from lib.prolog_replay import Prog, features, clause_text

PROP = "C25"
META = {
    "level": "model_checking",
    "text": "spec/AllSol.tla adds findall/4, bagof/3, setof/3 (free-variable analysis with ^, witness grouping, standard order, "
            "sort + dedup), countall/2 and call_nth/2 to the abstract ISO machine spec/Prolog.tla (findall/3 collector stack = model "
            "of the lifted heap, cleaned when a ball passes; forall/2). TLC enumerates queries: one all-solutions goal built from "
            "template x generator goal x result pattern (generators: helper predicates, disjunction, cut inside the generator, "
            "solutions leaving variables unbound, nested findall/bagof/countall, a ball or an evaluation error at the k-th "
            "solution, unbound and non-callable goals, V^Goal with full and partial quantification), each plain, inside catch/3 "
            "followed by another findall/3, and nested inside an outer findall/3; random deeper nestings by simulation. For every "
            "query the machine is run inside one TLC step; TLC checks the machine invariants at each machine step, that the "
            "collector stack is empty in every terminal state (also after exceptions and cuts) and that forall(C,A) behaves as "
            "\\+ (call(C), \\+ call(A)). Each finished behaviour (answer sequence, ball) is replayed against the real system; after "
            "a query that ends with an uncaught ball a fixed next query (findall, countall, setof) must give its specified answers.",
    "note": "Trusted: TLC; spec/Prolog.tla + spec/AllSol.tla as the reading of ISO 8.10 and of the library(iso_ext) doc comments; the "
            "renderer. Assumed where ISO says implementation dependent: the witness lists the free variables in order of first "
            "occurrence in Goal and bagof/3 enumerates its groups in standard order of the witness (as the library's keysort and its "
            "documented example). Cases whose result depends on the order of distinct variables (standard order of variables) are "
            "not emitted (status ambig). Attributed variables in templates are not modelled (the abstract machine has no "
            "attributes). Error terms caught into an answer are compared as error/2 shells only (shared comparison rule); "
            "uncaught balls are compared on their Formal. call_nth/countall are only given callable or unbound goals (the culprit of "
            "their type_error(callable, _) exposes the implementation's internal conjunction).",
    "technique": "TLA+ abstract machine extended with all-solutions predicates, explored by TLC; behaviours replayed into the real engine",
}
MAXANS = 12
TMO_MS = 8000
PRELUDE = ":- use_module(library(iso_ext)).\n:- use_module(library(lists)).\n"


def helpers_text(once):
    return PRELUDE + "\n".join(clause_text(terms.from_tla(c["h"]), terms.from_tla(c["b"])) for c in once["helpers"]) + "\n"


def cmp_spec(pr, r):
    if "crash" in r:
        return "crash(%s) (abort, runaway or memory exhaustion)" % r["crash"]
    if "panic" in r:
        return "panic: " + r["panic"]
    if r.get("tmo"):
        return "timeout (no termination within %d ms; the spec terminates)" % TMO_MS
    return pr.compare(r, MAXANS)


def ordered_vars(t, acc=None):
    acc = [] if acc is None else acc
    if t[0] == 'v':
        if t[1] not in acc:
            acc.append(t[1])
    elif t[0] == 'c':
        for x in t[2]:
            ordered_vars(x, acc)
    return acc


def tcut(t):
    if t == ('a', '!'):
        return True
    if t[0] == 'c' and len(t[2]) == 2 and t[1] in (',', ';'):
        return tcut(t[2][0]) or tcut(t[2][1])
    if t[0] == 'c' and len(t[2]) == 2 and t[1] == '->':
        return tcut(t[2][1])
    return False


def shape(v):
    """syntactic tags of the query used in violation signatures"""
    t = terms.from_tla(v["q"])
    tags = set()

    def walk(x):
        if x[0] != 'c':
            return
        if x[1] in ("bagof", "setof") and len(x[2]) == 3:
            g = x[2][1]
            ex = []
            while g[0] == 'c' and g[1] == '^' and len(g[2]) == 2:
                ordered_vars(g[2][0], ex)
                g = g[2][1]
            tv = ordered_vars(x[2][0])
            w0 = [u for u in ordered_vars(x[2][1]) if u not in tv]
            if ex and ex != w0:
                # the ^-quantified variables are not exactly the variables of Goal outside Template (in this order)
                tags.add("hat-mismatch")
        if x[1] == "countall" and len(x[2]) == 2 and tcut(x[2][0]):
            tags.add("countall-goal-cut")
        for y in x[2]:
            walk(y)
    walk(t)
    return ",".join(sorted(tags)) or "-"


def signature(v, d):
    return "pred=%s wrap=%s shape=%s query=%s: %s" % (v["p"], v["w"], shape(v), terms.text(terms.from_tla(v["q"])), d)


def check_vectors(rep, vecs, once, binary=None):
    head = [{"consult": helpers_text(once)}]
    nxt = Prog(once["next"], "0", [])
    B = 150
    jobs, where = [], {}
    progs = [Prog(v, "0", []) for v in vecs]
    for bi in range(0, len(vecs), B):
        steps = list(head)
        for j in range(bi, min(bi + B, len(vecs))):
            where[j] = (bi, len(steps))
            steps.append({"q": progs[j].qtext, "max": MAXANS + 1, "tmo_ms": TMO_MS})
            if vecs[j]["status"] == "exc":
                steps.append({"q": nxt.qtext, "max": 3, "tmo_ms": TMO_MS})
        jobs.append({"id": bi, "steps": steps, "timeout": 300, "fresh": True})
    results = run_jobs(jobs, workers=8, job_timeout=300, binary=binary)

    def record(j, r, rn):
        v = vecs[j]
        fs = features(terms.from_tla(v["q"]))
        rep.case("%s|%s|%s|%s" % (v["p"], v["w"], v["status"], ",".join(sorted(fs))))
        d = cmp_spec(progs[j], r)
        if d:
            rep.violation(signature(v, d), {"vector": v, "diff": d, "query": progs[j].qtext, "got": r, "once": once})
        elif rn is not None:
            dn = cmp_spec(nxt, rn)
            if dn:
                rep.violation(signature(v, "next query after the uncaught ball: " + dn),
                              {"vector": v, "diff": dn, "query": progs[j].qtext, "next": nxt.qtext, "got": rn, "once": once})

    rerun = []
    for bi in range(0, len(vecs), B):
        r = results.get(bi, {"crash": "missing"})
        idx = range(bi, min(bi + B, len(vecs)))
        if "crash" in r:
            rerun += list(idx)
            continue
        poisoned = False
        for j in idx:
            off = where[j][1]
            n = 2 if vecs[j]["status"] == "exc" else 1
            rs = r["res"][off: off + n]
            if poisoned or len(rs) < n or any(("panic" in x or x.get("tmo")) for x in rs):
                poisoned = True       # the Machine is rebuilt after a panic/timeout: helpers are gone for the rest of the batch
                rerun.append(j)
                continue
            record(j, rs[0], rs[1] if n == 2 else None)
    if rerun:
        single = []
        for j in rerun:
            steps = head + [{"q": progs[j].qtext, "max": MAXANS + 1, "tmo_ms": TMO_MS}]
            if vecs[j]["status"] == "exc":
                steps.append({"q": nxt.qtext, "max": 3, "tmo_ms": TMO_MS})
            single.append({"id": "s%d" % j, "fresh": True, "timeout": 60, "steps": steps})
        rs2 = run_jobs(single, workers=8, job_timeout=60, binary=binary)
        for j in rerun:
            x = rs2.get("s%d" % j, {"crash": "missing"})
            if "crash" in x:
                record(j, x, None)
            else:
                res = x["res"]
                rn = res[2] if len(res) > 2 and not ("panic" in res[1] or res[1].get("tmo")) else None
                record(j, res[1], rn)


def run(tier):
    rep = Report(PROP, tier, "model_checking")
    quick = tier == "quick"
    rep.rule = ("exhaustive: every query (predicate in findall/3, findall/4, bagof/3, setof/3, forall/2, countall/2, call_nth/2) x "
                "template x generator goal x result/count pattern of MC_C25 x context (plain, catch + follow-up findall, nested in "
                "findall); simulation: random nestings of all-solutions goals (depth <= 3) as generators of each other; "
                "distinct = predicate x context x outcome kind x set of constructs in the query")
    res, vecs0 = generate("MC_C25", "MC_C25_%s.cfg" % tier, workers=8, timeout=20000)
    rep.add_tlc(res)
    once = [v for v in vecs0 if v.get("kind") == "once"]
    if len(once) != 1:
        raise common.ToolError("the 'once' vector is missing")
    once = once[0]
    names = once["nameorder"]
    if names != sorted(names, key=lambda s: [ord(ch) for ch in s]) or len(set(names)) != len(names):
        raise common.ToolError("AllSol!NameOrder is not in character-code order")
    vecs = [v for v in vecs0 if v.get("kind") != "once"]
    sims = common.simulate_parallel("MC_C25", "MC_C25_sim_%s.cfg" % tier, procs=6 if quick else 8,
                                    num=300 if quick else 1500, depth=4, timeout=20000)
    seen = set(json.dumps(v["q"], sort_keys=True) for v in vecs)
    for sim in sims:
        tlc_ok(sim, "C25 simulation")
        rep.add_tlc(sim)
        for v in sim.printed():
            k = json.dumps(v["q"], sort_keys=True)
            if k not in seen:
                seen.add(k)
                vecs.append(v)
    if not vecs:
        raise common.ToolError("no vectors")
    # vacuity guards: the interesting classes must be present
    need = {("bagof", "multi"): False, ("setof", "multi"): False, ("exc", "any"): False, ("call_nth", "multi"): False}
    for v in vecs:
        if v["p"] in ("bagof", "setof", "call_nth") and v["w"] == "plain" and len(v["ans"]) > 1:
            need[(v["p"], "multi")] = True
        if v["status"] == "exc":
            need[("exc", "any")] = True
    if not all(need.values()):
        raise common.ToolError("generated space lacks classes: %s" % [k for k, ok in need.items() if not ok])
    check_vectors(rep, vecs, once)
    for v in vecs[:: max(1, len(vecs) // 5)]:
        pr = Prog(v, "0", [])
        rep.sample({"query": pr.qtext, "expected_answers": [terms.show(a) for a in pr.expected_answers()], "status": v["status"],
                    "ball": terms.show(terms.from_tla(v["ball"])) if v["status"] == "exc" else None})
    rep.traces = len(vecs)
    rep.exhaustive = False
    rep.extra["exhaustive_part"] = "every query of the MC_C25 grammar (Mode=exh) was enumerated, run by the abstract machine and replayed"
    rep.extra["uncaught_ball_cases_followed_by_next_query"] = sum(1 for v in vecs if v["status"] == "exc")
    rep.assumptions = ["TLC", "spec/Prolog.tla + spec/AllSol.tla as the reading of ISO 8.10 and of the library doc comments",
                       "witness variable order = first occurrence in Goal; bagof groups in standard order of witnesses",
                       "canonical renderer and LeafAnswer projection"]
    return rep.finish()


def replay(path):
    d = json.load(open(path))
    det = d["detail"]
    pr = Prog(det["vector"], "0", [])
    nxt = Prog(det["once"]["next"], "0", [])
    r = run_jobs([{"id": 0, "fresh": True, "timeout": 60, "steps": [
        {"consult": helpers_text(det["once"])}, {"q": pr.qtext, "max": MAXANS + 1, "tmo_ms": TMO_MS},
        {"q": nxt.qtext, "max": 3, "tmo_ms": TMO_MS}]}], workers=1, job_timeout=60)
    print(pr.qtext)
    print("expected:", det["vector"]["status"], [terms.show(a) for a in pr.expected_answers()],
          terms.show(terms.from_tla(det["vector"]["ball"])))
    if "res" not in r[0]:
        print(r[0])
        return 0
    print("got:", json.dumps(r[0]["res"][1])[:1500])
    print("diff:", cmp_spec(pr, r[0]["res"][1]))
    if len(r[0]["res"]) > 2:
        print("next query:", nxt.qtext, "diff:", cmp_spec(nxt, r[0]["res"][2]))
    return 0
