"""C06 - Clause selection returns exactly the clauses whose heads unify."""
import json
from collections import OrderedDict
from lib import common
from lib.common import Report, run_jobs, generate

PROP = "C06"
META = {
    "level": "model_checking",
    "text": "The abstract machine (spec/Prolog.tla) defines clause selection as 'clauses whose renamed head unifies, in textual "
            "order'. TLC runs it on every predicate of 2-3 (thorough: 2-4) facts p(K,i) over a palette of first-argument keys "
            "(atoms, [], small/big/negative-big integers, rational, float, string, partial list, structures, variable) and every "
            "call key; each (predicate, call) is replayed with the keys materialised as literals and as run-time computed values, "
            "on statically consulted, dynamically asserted and retract/assert-churned predicates, via findall and via backtracking.",
    "note": "Trusted: TLC, spec/Prolog.tla + Terms.tla unification, the materialisation table of this driver (which text produces "
            "which abstract key). First-argument position only; second-argument indexing is covered by the i-argument being bound in a variant call.",
    "technique": "TLA+ abstract machine explored by TLC; behaviours replayed into the real indexing code (spec -> impl)",
}

# key -> (literal text usable in clause heads / calls or None, [(prefix goal, value variable text)])
MAT = {
    "a":    ("a", [("atom_codes(C, [97])", "C")]),
    "b":    ("b", []),
    "nil":  ("[]", [("atom_chars(C, \"[]\")", "C")]),
    "i1":   ("1", [("C is 3-2", "C"), ("C is 2^70 // 2^70", "C")]),
    "i2":   ("2", [("C is 1+1", "C"), ("C is 2^60-2^60+2", "C"), ("C is 2^71 // 2^70", "C")]),
    "big":  ("1180591620717411303424", [("C is 2^70", "C")]),
    "nbig": ("-36028797018963969", [("C is -(2^55)-1", "C")]),
    "rat":  (None, [("C is 1 rdiv 3", "C"), ("C is 2 rdiv 6", "C")]),
    "flt":  ("1.5", [("C is 1.0+0.5", "C")]),
    "str":  ("\"ab\"", [("C = [a,b]", "C"), ("atom_chars(ab, C)", "C")]),
    "lst":  ("[x|_]", [("C = [x|_]", "C")]),
    "fx":   ("f(x)", [("C =.. [f,x]", "C")]),
    "fv":   ("f(_)", []),
    "g2":   ("g(x,y)", [("functor(C,g,2), arg(1,C,x), arg(2,C,y)", "C")]),
    "var":  ("_", []),
}


def call_forms(ck):
    lit, comp = MAT[ck]
    forms = []
    if lit is not None:
        forms.append(("lit", "true", lit))
    for i, (pre, v) in enumerate(comp):
        forms.append(("comp%d" % i, pre, v))
    return forms


def run(tier):
    rep = Report(PROP, tier, "model_checking")
    rep.rule = ("all predicates of 2-3 (thorough 2-4) facts p(K,i), K from the key palette, x every call key (quick: 3-clause "
                "predicates only with calls relevant to some head); each replayed in modes static/dynamic/churned x literal/computed "
                "call forms x findall/backtracking. distinct = (sorted key kinds of heads, call key, mode, call form)")
    res, vecs = generate("MC_C06", "MC_C06_%s.cfg" % tier, workers=8 if tier == "quick" else 14, timeout=3000)
    rep.add_tlc(res)
    byprog = OrderedDict()
    for v in vecs:
        byprog.setdefault(tuple(v["hs"]), []).append(v)
    progs = list(byprog.items())
    jobs = []
    meta = {}
    B = 40
    for bi in range(0, len(progs), B):
        steps = []
        info = []
        for pj, (hs, calls) in enumerate(progs[bi:bi + B]):
            static_ok = all(MAT[k][0] is not None for k in hs)
            modes = []
            if static_ok:
                name = "ps_%d" % pj
                steps.append({"consult": "".join("%s(%s, %d).\n" % (name, MAT[k][0], i + 1) for i, k in enumerate(hs))})
                info.append(None)
                modes.append(("static", name))
            # dynamic: assert with computed keys where available
            name = "pd_%d" % pj
            goals = []
            for i, k in enumerate(hs):
                lit, comp = MAT[k]
                if comp and (lit is None or i % 2 == 0):
                    pre, var = comp[i % len(comp)]
                    goals.append("%s, assertz(%s(%s, %d))" % (pre.replace("C", "K%d" % i), name, var.replace("C", "K%d" % i), i + 1))
                else:
                    goals.append("assertz(%s(%s, %d))" % (name, lit, i + 1))
            steps.append({"q": ", ".join(goals) + ".", "max": 2})
            info.append(None)
            modes.append(("dynamic", name))
            name2 = "pc_%d" % pj
            goals2 = [g.replace(name + "(", name2 + "(") for g in goals]
            churn = "asserta(%s(zzz, 98)), assertz(%s(f(q), 99)), retract(%s(zzz, 98)), retract(%s(f(q), 99))" % (name2, name2, name2, name2)
            steps.append({"q": ", ".join(goals2) + ", " + churn + ".", "max": 2})
            info.append(None)
            modes.append(("churned", name2))
            for v in calls:
                for (fname, pre, val) in call_forms(v["ck"]):
                    for (mode, pname) in modes:
                        steps.append({"q": "%s, findall(I, %s(%s, I), L)." % (pre, pname, val), "max": 2})
                        info.append((v, fname, mode, "findall"))
                    mode, pname = modes[0]
                    steps.append({"q": "%s, %s(%s, I)." % (pre, pname, val), "max": 12})
                    info.append((v, fname, mode, "backtrack"))
        jobs.append({"id": bi, "steps": steps, "timeout": 120, "fresh": True})
        meta[bi] = info
    results = run_jobs(jobs, workers=8, job_timeout=120)
    nvec = 0
    for job in jobs:
        r = results.get(job["id"], {"crash": "missing"})
        if "crash" in r:
            rep.violation("batch crashed: %s" % r["crash"], {"job_id": job["id"], "crash": r["crash"]})
            continue
        for st, out, inf in zip(job["steps"], r["res"], meta[job["id"]]):
            if inf is None:
                if "panic" in out:
                    rep.violation("setup panic: %s in %s" % (out["panic"], str(st)[:200]), {"step": st, "out": out})
                continue
            v, fname, mode, how = inf
            nvec += 1
            exp = v["sel"]
            kinds = ",".join(sorted(set(v["hs"])))
            rep.case((kinds, v["ck"], mode, fname, how))
            got = None
            if "panic" in out:
                got = "panic " + out["panic"]
            else:
                a = out["a"]
                if how == "findall":
                    if len(a) >= 1 and isinstance(a[0], dict) and "b" in a[0] and "L" in a[0]["b"]:
                        L = a[0]["b"]["L"]
                        if "l" in L:
                            got = [int(x["i"]) for x in L["l"] if "i" in x]
                        else:
                            got = str(L)
                    else:
                        got = str(a)[:200]
                else:
                    got = []
                    for x in a:
                        if isinstance(x, dict) and "b" in x and "I" in x["b"] and "i" in x["b"]["I"]:
                            got.append(int(x["b"]["I"]["i"]))
                        elif x == "F":
                            break
                        else:
                            got = str(a)[:200]
                            break
            if got != exp:
                hk = [k for k in v["hs"]]
                boxed = (v["ck"] in ("big", "nbig", "rat") or (v["ck"] in ("i1", "i2") and fname != "lit"))
                sig = "%s heads=%s call=%s/%s mode=%s via=%s expected=%s got=%s" % (
                    "boxedkey" if boxed else "key", hk, v["ck"], fname, mode, how, exp, got)
                rep.violation(sig, {"vector": v, "form": fname, "mode": mode, "how": how, "query": st["q"], "got": got})
    for v in vecs[:: max(1, len(vecs) // 5)]:
        rep.sample({"heads": [MAT[k][0] or MAT[k][1][0][0] for k in v["hs"]], "call": v["ck"], "expected_clauses": v["sel"]})
    rep.traces = len(vecs)
    rep.exhaustive = True
    rep.assumptions = ["TLC", "spec/Prolog.tla (selection = head unifiability in textual order)", "materialisation table in props/C06.py"]
    return rep.finish()


def replay(path):
    d = json.load(open(path))
    q = d["detail"].get("query")
    v = d["detail"]["vector"]
    hs = v["hs"]
    goals = []
    for i, k in enumerate(hs):
        lit, comp = MAT[k]
        if lit is None:
            pre, var = comp[0]
            goals.append("%s, assertz(pr(%s, %d))" % (pre.replace("C", "K%d" % i), var.replace("C", "K%d" % i), i + 1))
        else:
            goals.append("assertz(pr(%s, %d))" % (lit, i + 1))
    steps = [{"q": ", ".join(goals) + "."}]
    for (fname, pre, val) in call_forms(v["ck"]):
        steps.append({"q": "%s, findall(I, pr(%s, I), L)." % (pre, val)})
    r = run_jobs([{"id": 0, "fresh": True, "steps": steps}], workers=1)
    print("expected", v["sel"])
    print(json.dumps(r[0], indent=1)[:3000])
    return 0
