"""C49 - Integer relation builtins (between/3, length/2, numlist/3, succ/2) enumerate exactly their relations."""
import json
import os
import re

from lib import common, terms
from lib.common import Report, run_tlc, tlc_ok, run_jobs

PROP = "C49"

META = {
    "level": "model_checking",
    "text": "between/3, length/2, numlist/3 and succ/2 are specified in TLA+ (spec/Between.tla) as relations over integers of any "
            "size (BigInt) with their enumeration order, finiteness and error sets taken from the library doc comments. TLC "
            "enumerates every call over an argument pool (small integers, 2^55/2^63/2^64 neighbours, inf/infinite, atoms, floats, "
            "unbound and aliased variables, proper/partial/improper lists) in all instantiation modes; each call is replayed on "
            "the real machine and the answer sequence (instantiated arguments up to variable renaming, order, termination, "
            "error term) is compared with the specification. Answers of the open numlist/3 modes are validated against the "
            "relation by TLC (Trace_C49). Bounded-exhaustive conformance, not proof.",
    "note": "Trusted: TLC, BigInt.tla, the canonical text renderer and the LeafAnswer projection of the harness. Large or "
            "infinite answer sequences are compared on their first Cap (5/9) answers. For the open modes of numlist/3 no order "
            "is asserted (none is documented and none exists for bounds unbounded below): membership, distinctness and a "
            "fairness window are checked instead. The representation of a resource error for unrepresentably long lists is "
            "not asserted (any exception is accepted). numlist/3 with two integer bounds is generated for spans <= 64.",
    "technique": "TLA+ relational specification enumerated by TLC; call vectors replayed; recorded answers trace-validated by TLC",
}

PRELUDE = """
:- use_module(library(between)).
:- use_module(library(lists)).
:- use_module(library(iso_ext)).
'$c49_enc'(T, T) :- var(T), !.
'$c49_enc'(T, T) :- atomic(T), !.
'$c49_enc'([H|T], '$l'(EH, ET)) :- !, '$c49_enc'(H, EH), '$c49_enc'(T, ET).
'$c49_enc'(T, E) :- T =.. [F|As], '$c49_encl'(As, Es), E =.. [F|Es].
'$c49_encl'([], []).
'$c49_encl'([A|As], [E|Es]) :- '$c49_enc'(A, E), '$c49_encl'(As, Es).
tc(G, E) :- catch(G, error(E0, _), true), ( var(E0) -> true ; '$c49_enc'(E0, E) ).
"""
# The error term is returned through '$c49_enc' (list cells as '$l'/2) because the library interface of the
# implementation cannot project an improper list such as the culprit of type_error(list, [a|b]).

ERRVAR = "Err__"
N_OPEN = 64          # answers requested from an open numlist/3 mode
T_SINGLE = 3.0       # seconds for a single-call job (normal time: milliseconds)
BATCH = 150


def goal_text(v):
    return "%s(%s)" % (v["pred"], ",".join(terms.tla_text(a) for a in v["args"]))


def query_text(v):
    return "tc(%s, %s)." % (goal_text(v), ERRVAR)


def dec(t):
    """undo '$c49_enc' on a canonical tuple"""
    if t[0] == 'c':
        args = tuple(dec(x) for x in t[2])
        if t[1] == '$l' and len(args) == 2:
            return ('c', '.', args)
        return ('c', t[1], args)
    return t


def subst(t, b):
    if t[0] == 'v':
        return b.get(t[1], t)
    if t[0] == 'c':
        return ('c', t[1], tuple(subst(x, b) for x in t[2]))
    return t


def tup(args):
    return ('c', '$args', tuple(args))


def observe(v, out):
    """project a query result to ('panic', msg) | ('err', term) | ('ball', text) | ('answers', [arg tuples], capped)"""
    if out is None:
        return ("timeout",)
    if "panic" in out:
        return ("panic", out["panic"])
    call = [terms.from_tla(a) for a in v["args"]]
    answers = []
    al = list(out["a"])
    capped = out.get("capped", False)
    if al and al[-1] == "F":       # the final failure is reported as an item: the sequence has ended
        al = al[:-1]
        capped = False
    for a in al:
        if a == "F":
            return ("other", "failure inside the answer sequence")
        if a == "T":
            answers.append(tup(call))
            continue
        if "b" in a:
            b = {k: terms.from_h(x) for k, x in a["b"].items()}
            if ERRVAR in b:
                if answers:
                    return ("other", "error after %d answers: %s" % (len(answers), terms.show(dec(b[ERRVAR]))))
                return ("err", dec(b[ERRVAR]))
            answers.append(tup([subst(t, b) for t in call]))
            continue
        if "x" in a or "e" in a:
            return ("ball", json.dumps(a)[:200], len(answers))
        return ("other", json.dumps(a)[:200])
    return ("answers", answers, capped)


def show_obs(o):
    if o[0] == "answers":
        return "answers[%s]%s" % ("; ".join(terms.show(a)[8:-1] for a in o[1][:6]) + (" ..." if len(o[1]) > 6 else ""),
                                  " capped" if o[2] else "")
    if o[0] == "err":
        return "err(%s)" % terms.show(o[1])
    return "%s(%s)" % (o[0], ", ".join(str(x) for x in o[1:]))


def show_exp(v):
    if v["kind"] in ("err", "errfail"):
        return "%s(%s)" % (v["kind"], " | ".join(sorted(terms.tla_text(e) for e in v["errs"])))
    if v["kind"] == "sols":
        return "sols[%s]%s" % ("; ".join(",".join(terms.tla_text(a) for a in s) for s in v["sols"]), " ..." if v["more"] else "")
    return v["kind"]


def arg_class(t):
    k = t[0]
    if k == 'i':
        n = t[1]
        if abs(n) < 16:
            return "neg" if n < 0 else "small"
        return ("big-" if n < 0 else "big+") + ("55" if abs(n) < (1 << 62) else "63" if abs(n) < (1 << 64) else "64")
    if k == 'v':
        return "var"
    if k == 'f':
        return "float"
    if k == 'a':
        return "nil" if t[1] == "[]" else "atom"
    if k == 'c' and t[1] == '.' and len(t[2]) == 2:
        n = 0
        cur = t
        while cur[0] == 'c' and cur[1] == '.' and len(cur[2]) == 2:
            n += 1
            cur = cur[2][1]
        tail = "proper" if cur == terms.NIL else "partial" if cur[0] == 'v' else "improper"
        return "list-%s" % tail
    return "compound"


def coverage_class(v):
    call = [terms.from_tla(a) for a in v["args"]]
    names = []
    for t in call:
        if t[0] == 'v':
            names.append(t[1])
    alias = len(names) != len(set(names))
    return (v["pred"], tuple(arg_class(t) for t in call), "alias" if alias else "", v["kind"], v["more"], len(v["sols"]) if v["kind"] == "sols" else -1)


def compare(v, obs, terminating_probe=True):
    """None if the observation conforms to the specification's outcome, else a short reason.
    terminating_probe: the query asked for one answer more than the specification lists (termination is observable)."""
    kind = v["kind"]
    if obs[0] == "panic":
        return "panic"
    if obs[0] == "timeout":
        return "timeout"
    if kind in ("err", "errfail"):
        if kind == "errfail" and obs[0] == "answers" and obs[1] == [] and not obs[2]:
            return None
        if obs[0] != "err":
            return "expected error"
        for e in v["errs"]:
            if terms.variant(terms.from_tla(e), obs[1]):
                return None
        return "other error"
    if kind == "resource":
        if obs[0] == "ball" and obs[2] == 0:
            return None
        if obs[0] == "err" and obs[1][0] == 'c' and obs[1][1] == "resource_error":
            return None
        return "expected a resource error"
    if kind == "sols":
        if obs[0] != "answers":
            return "expected answers"
        exp = [tup([terms.from_tla(a) for a in s]) for s in v["sols"]]
        got = obs[1]
        for i, (e, g) in enumerate(zip(exp, got)):
            if not terms.variant(e, g):
                return "answer %d differs" % (i + 1)
        if len(got) < len(exp):
            return "too few answers"
        if len(got) > len(exp):
            return "too many answers"
        if not v["more"] and terminating_probe and obs[2]:
            return "capped"
        return None
    raise common.ToolError("unknown outcome kind %r" % kind)


# ------------------------------------------------------------------------------------------------
# encoding of terms for the trace specification (record shape of Between.tla)
# ------------------------------------------------------------------------------------------------

def limbs(n):
    m = []
    n = abs(n)
    while n:
        m.append(n % 10000)
        n //= 10000
    return m


BZ = {"neg": False, "m": []}


def trace_term(t):
    k = t[0]
    if k == 'i':
        return {"t": "i", "b": {"neg": t[1] < 0, "m": limbs(t[1])}, "n": "", "a": []}
    if k == 'a':
        return {"t": "a", "b": BZ, "n": t[1], "a": []}
    if k == 'v':
        return {"t": "v", "b": BZ, "n": t[1], "a": []}
    if k == 'f':
        return {"t": "f", "b": BZ, "n": "%016x" % t[1], "a": []}
    if k == 'c':
        return {"t": "c", "b": BZ, "n": t[1], "a": [trace_term(x) for x in t[2]]}
    raise ValueError(t)


def is_ground(t):
    if t[0] == 'v':
        return False
    if t[0] == 'c':
        return all(is_ground(x) for x in t[2])
    return True


# ------------------------------------------------------------------------------------------------

def run(tier):
    rep = Report(PROP, tier, META["level"])
    rep.rule = ("TLC enumerates every call pred(args) over the argument pools of MC_C49 (small integers, 2^55/2^63/2^64 "
                "neighbours in both signs, inf/infinite/a/1.0, unbound and aliased variables, proper/partial/improper lists); "
                "one case = one call replayed on the real machine; distinct = distinct (predicate, class of each argument, "
                "aliasing, outcome kind, number of answers)")
    res, vecs = common.generate("MC_C49", "MC_C49_%s.cfg" % tier, workers=8, timeout=1800)
    rep.add_tlc(res)
    if not vecs:
        raise common.ToolError("no vectors generated")
    for i, v in enumerate(vecs):
        v["_id"] = i

    # --- python sanity cross-check of the between/3 and succ/2 oracle (tool error on mismatch) -------------
    for v in vecs:
        call = [terms.from_tla(a) for a in v["args"]]
        if v["pred"] == "between" and v["kind"] == "sols" and all(t[0] == 'i' for t in call[:2]) and call[2][0] == 'v':
            lo, hi = call[0][1], call[1][1]
            n = max(0, hi - lo + 1)
            exp = [lo + i for i in range(min(n, len(v["sols"])))]
            got = [terms.from_tla(s[2])[1] for s in v["sols"]]
            if exp != got or (v["more"] != (n > len(v["sols"]))):
                raise common.ToolError("oracle self-check failed (between): %r" % (v,))
        if v["pred"] == "succ" and v["kind"] == "sols" and v["sols"]:
            s = [terms.from_tla(a)[1] for a in v["sols"][0]]
            if s[1] != s[0] + 1 or s[0] < 0:
                raise common.ToolError("oracle self-check failed (succ): %r" % (v,))

    # --- jobs ------------------------------------------------------------------------------------------
    def nmax(v, probe):
        if v["kind"] == "open":
            return N_OPEN
        if v["kind"] == "sols":
            n = len(v["sols"])
            return n + 1 if (probe and not v["more"]) else max(n, 1)
        return 2

    single = [v for v in vecs if v["open"] or v["kind"] == "resource"]   # isolated: termination / resource exhaustion
    batched = [v for v in vecs if not (v["open"] or v["kind"] == "resource")]
    obs = {}          # (id, probe?) -> observation

    def run_single(cases, timeout, final=False):
        """cases: list of (vector, probe flag); every case is its own job. A timeout counts only after a re-run
        with the doubled limit (DESIGN.md section 7, rule 4)."""
        jobs = [{"id": "%d/%d" % (v["_id"], int(p)), "timeout": timeout,
                 "steps": [{"consult": PRELUDE}, {"q": query_text(v), "max": nmax(v, p)}]} for v, p in cases]
        r = run_jobs(jobs, workers=8, job_timeout=timeout)
        out = {}
        for v, p in cases:
            x = r.get("%d/%d" % (v["_id"], int(p)), {"crash": "missing"})
            if "crash" in x:
                if x["crash"] != "timeout":
                    out[(v["_id"], p)] = ("other", "worker " + x["crash"])
                else:
                    out[(v["_id"], p)] = ("timeout",)
            else:
                out[(v["_id"], p)] = observe(v, x["res"][1])
        again = [(v, p) for v, p in cases if out[(v["_id"], p)][0] == "timeout"]
        if again and not final:
            out.update(run_single(again, 2 * timeout, final=True))
        return out

    # batched cases: one job per BATCH calls; a crashed batch is re-run call by call
    jobs = []
    for bi in range(0, len(batched), BATCH):
        part = batched[bi:bi + BATCH]
        jobs.append({"id": bi, "timeout": 120, "fresh": True,
                     "steps": [{"consult": PRELUDE}] + [{"q": query_text(v), "max": nmax(v, True)} for v in part]})
    results = run_jobs(jobs, workers=8, job_timeout=120)
    redo = []
    for job in jobs:
        part = batched[job["id"]:job["id"] + BATCH]
        r = results.get(job["id"], {"crash": "missing"})
        if "crash" in r:
            redo += [(v, True) for v in part]
            continue
        poisoned = False
        for v, o in zip(part, r["res"][1:]):
            if poisoned:
                redo.append((v, True))
                continue
            obs[(v["_id"], True)] = observe(v, o)
            if "panic" in o:
                poisoned = True      # the session was rebuilt without the prelude
    if redo:
        obs.update(run_single(redo, T_SINGLE))

    # isolated cases: answers (no termination needed) and termination probe
    cases = []
    for v in single:
        if v["kind"] == "open":
            cases.append((v, False))
        elif v["kind"] == "sols":
            if v["sols"]:
                cases.append((v, False))
            cases.append((v, True))
        else:
            cases.append((v, True))
    obs.update(run_single(cases, T_SINGLE))

    # --- verdicts ----------------------------------------------------------------------------------------
    trace_lines = []
    trace_case = []
    for v in vecs:
        rep.case(coverage_class(v))
        call = [terms.from_tla(a) for a in v["args"]]
        g = goal_text(v)
        tag = ""
        if v["pred"] == "length" and call[1][0] == 'i' and call[1][1] < -(1 << 63):
            tag = " [n<-2^63]"
        mode = "numlist-open " if v["open"] else ""
        if v["kind"] == "open":
            o = obs[(v["_id"], False)]
            why = None
            if o[0] == "timeout":
                rep.violation("nonterm %s%s expected=open (no %d answers in time)" % (mode, g, N_OPEN),
                              {"vector": v, "observed": o, "why": "timeout", "query": query_text(v), "max": N_OPEN})
                continue
            if o[0] != "answers":
                why = o[0]
            elif len(o[1]) < N_OPEN:
                why = "only %d answers of an infinite relation" % len(o[1])
            else:
                seen = []
                for a in o[1]:
                    if not is_ground(a):
                        why = "non-ground answer"
                        break
                    if a in seen:
                        why = "duplicate answer"
                        break
                    seen.append(a)
                if why is None:
                    for s in v["sols"]:
                        if tup([terms.from_tla(x) for x in s]) not in seen:
                            why = "solution %s not among the first %d answers" % (
                                ",".join(terms.tla_text(x) for x in s), N_OPEN)
                            break
                if why is None:
                    for a in o[1]:
                        trace_lines.append({"case": v["_id"], "call": [trace_term(t) for t in call],
                                            "ans": [trace_term(t) for t in a[2]]})
                        trace_case.append((v, a))
            if why:
                rep.violation("mismatch %s%s%s expected=open got=%s (%s)" % (mode, g, tag, show_obs(o), why),
                              {"vector": v, "observed": o, "why": why})
            continue
        # finite / prefix outcomes
        verdicts = []
        for p in (False, True):
            if (v["_id"], p) in obs:
                o = obs[(v["_id"], p)]
                verdicts.append((p, o, compare(v, o, p)))
        if not verdicts:
            raise common.ToolError("case without observation: %s" % g)
        for p, o, why in verdicts:
            if why is None:
                continue
            if why == "timeout" and ((v["kind"] == "sols" and not v["more"]) or v["open"]):
                # no answer / end of the answers within 20x the normal time, twice: (practical) non-termination
                sig = "nonterm %s%s%s expected=%s" % (mode, g, tag, show_exp(v))
            else:
                sig = "mismatch %s%s%s expected=%s got=%s (%s)" % (mode, g, tag, show_exp(v), show_obs(o), why)
            rep.violation(sig, {"vector": v, "observed": o, "why": why, "query": query_text(v), "max": nmax(v, p)})
            break

    # --- impl -> spec: membership of the recorded open-mode answers, validated by TLC ---------------------
    if trace_lines:
        tdir = os.path.join(common.WORK, "c49")
        os.makedirs(tdir, exist_ok=True)
        path = os.path.join(tdir, "trace-%s-%d.ndjson" % (tier, os.getpid()))
        with open(path, "w") as f:
            for ln in trace_lines:
                f.write(json.dumps(ln) + "\n")
        tres = run_tlc("Trace_C49", "Trace_C49.cfg", workers=1, dfs=True, env_extra={"TRACE": path}, timeout=1800)
        if tres.error and not tres.violated:
            raise common.ToolError("Trace_C49 failed: %s\n%s" % (tres.error, "\n".join(tres.lines[-30:])))
        rep.add_tlc(tres)
        rep.traces = len({ln["case"] for ln in trace_lines})
        if tres.violated:
            m = re.search(r'<<"REJECT", (\d+)>>', tres.out)
            if not m:
                raise common.ToolError("Trace_C49 rejected the trace without naming the line\n" + "\n".join(tres.lines[-30:]))
            v, a = trace_case[int(m.group(1)) - 1]
            rep.violation("mismatch numlist-open %s answer %s is not in the relation" % (goal_text(v), terms.show(a)),
                          {"vector": v, "answer": terms.show(a), "trace": path, "line": int(m.group(1))})
        else:
            os.remove(path)
    rep.extra["answers_trace_validated"] = len(trace_lines)

    for v in vecs[:: max(1, len(vecs) // 5)]:
        rep.sample({"call": goal_text(v), "expected": show_exp(v)})
    rep.exhaustive = True
    rep.assumptions = ["TLC and the BigInt module", "canonical text renderer and LeafAnswer projection of the harness",
                       "answer sequences longer than Cap are compared on their first Cap answers",
                       "open numlist/3 modes: unordered fair enumeration (membership, distinctness, fairness window of %d answers)" % N_OPEN,
                       "any exception is accepted where the specification demands a resource error"]
    return rep.finish()


def replay(path):
    d = json.load(open(path))
    det = d["detail"]
    v = det["vector"]
    q = query_text(v)
    jobs = [{"id": 0, "fresh": True, "timeout": 20,
             "steps": [{"consult": PRELUDE}, {"q": q, "max": det.get("max", N_OPEN if v["kind"] == "open" else len(v["sols"]) + 1)}]}]
    r = run_jobs(jobs, workers=1, job_timeout=20)
    print(json.dumps({"query": q, "expected": show_exp(v), "result": r.get(0)}, indent=1, default=str))
    return 0
