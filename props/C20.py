"""C20 - Strings behave exactly like the character lists they denote."""
import json
import os
import random
from lib import common, terms
from lib.common import Report, run_jobs, generate

PROP = "C20"
META = {
    "level": "model_checking",
    "text": "Layer A (spec/StrList.tla) has no string type: a string is the list of its one-character atoms, and the result of every "
            "operation of the property (=, ==, compare/3 against equal and near-equal lists, length, append in three modes, nth0/nth1, "
            "arg, functor, =.., copy_term, sort, term_variables, ground, atom_chars/atom_codes/atom_length consumption, clause head "
            "unification, first-argument indexing, printing) is stated on that list. Layer B (spec/PStr.tla, on top of Heap.tla) models "
            "the byte layout of partial strings (push_pstr with NUL splitting, zero padding and the extra zero cell, scan_slice_to_str, "
            "pstr_tail_idx, compute_pstr_size, compare_pstr_slices with its continuation offsets, the list/string comparison walk of "
            "heap_iter.rs). TLC (MC_C20) checks that B refines A (Read(Write(s,tail)) = (s,tail); scanner tail = writer tail from every "
            "character offset for all byte lengths 0..24; comparison through the continuation points = order of the abstract lists for "
            "all near-equal pairs of split strings over {a, e-acute, NUL}), and enumerates abstract values (contents over a, b, 2/3/4-byte "
            "characters and NUL, lengths 0..17, tails [] / unbound / non-list atom) with their materialisations (literal, explicit cons "
            "cells, atom_chars result, append/3 of two strings, partial_string/3 with [] / another string / a variable / an atom as tail, "
            "findall copy, asserted-and-retrieved copy, [a|\"bc\"]) and near-equal partners. Every (value, materialisation, operation) and "
            "(value, materialisation, partner, partner materialisation) is replayed on the real machine and compared with the list result.",
    "note": "Trusted: TLC; StrList.tla as the reading of ISO/the library documentation on lists; the query renderer; LeafAnswer projection "
            "(strings are returned as character lists). The heap representation assumed for each materialisation in MC_C20 only predicts "
            "where the code's compare_pstr_slices arithmetic goes astray (to isolate and cap those replays: they hang or crash the "
            "machine); it is never the oracle. Printing is checked as equality with the printing of the explicit list. Attributed "
            "variables and cyclic lists are not covered.",
    "technique": "TLA+ layout model refined to the abstract list model, checked by TLC; operation results replayed into the real engine",
}

HELPERS = """:- use_module(library(iso_ext)).
:- use_module(library(lists)).
:- use_module(library(charsio)).
:- dynamic(c20_tmp/1).
c20_str(Codes, S) :- atom_codes(A, Codes), atom_chars(A, S).
c20_list([], T, T).
c20_list([C|Cs], T, [H|R]) :- char_code(H, C), c20_list(Cs, T, R).
c20_hd([H|T], H, T).
c20_walk_arg(S, Hs, T) :- ( var(S) -> Hs = [], T = S ; S = [_|_] -> arg(1, S, H), arg(2, S, S1), Hs = [H|Hs1], c20_walk_arg(S1, Hs1, T) ; Hs = [], T = S ).
c20_walk_univ(S, Hs, T) :- ( var(S) -> Hs = [], T = S ; S = [_|_] -> S =.. [_, H, S1], Hs = [H|Hs1], c20_walk_univ(S1, Hs1, T) ; Hs = [], T = S ).
c20_idx([], nil).
c20_idx([H|_], cons(H)).
c20_idx(foo, atom).
"""


# ------------------------------------------------------------------------------------------------
# rendering
# ------------------------------------------------------------------------------------------------

def codes(cs):
    return "[" + ",".join(str(c) for c in cs) + "]"


def lit(cs):
    out = []
    for c in cs:
        if c == 0x5c:
            out.append("\\\\")
        elif c == 0x22:
            out.append('\\"')
        elif c < 32 or c == 127:
            out.append("\\x%x\\" % c)
        else:
            out.append(chr(c))
    return "".join(out)


def tail_text(tl, T):
    return {"nil": "[]", "var": T, "atom": "foo"}[tl]


def mat_goal(cs, tl, mat, S, T, px):
    """Prolog goal that binds S to the list (cs, tl) built the way `mat` says; T is the tail variable; px prefixes auxiliaries"""
    n, m, k = len(cs), mat["m"], mat["k"]
    tt = tail_text(tl, T)
    A, Bv, Cv, H, R, X = px + "A", px + "B", px + "C", px + "H", px + "R", px + "X"
    if m == "list":
        return "c20_list(%s, %s, %s)" % (codes(cs), tt, S)
    if m == "lit":
        return '%s = "%s"' % (S, lit(cs))
    if m in ("achars", "str") and tl == "nil":
        return "c20_str(%s, %s)" % (codes(cs), S)
    if m == "str":
        if n == 0:
            return "%s = %s" % (S, tt)
        return "c20_str(%s, %s), partial_string(%s, %s, %s)" % (codes(cs), A, A, S, tt)
    if m in ("findall", "assert"):
        if tl == "nil":
            base = "c20_str(%s, %s)" % (codes(cs), Bv)
        else:
            base = "c20_str(%s, %s), partial_string(%s, %s, %s)" % (codes(cs), A, A, Bv, tail_text(tl, px + "T0"))
        if m == "findall":
            cp = "findall(%s, %s = %s, [%s])" % (X, X, Bv, S)
        else:
            cp = "assertz(c20_tmp(%s)), c20_tmp(%s), retract(c20_tmp(_))" % (Bv, S)
        return base + ", " + cp + (", term_variables(%s, [%s])" % (S, T) if tl == "var" else "")
    first, rest = cs[:k], cs[k:]
    if m == "pstr3":
        if not rest:
            return "c20_str(%s, %s), partial_string(%s, %s, %s)" % (codes(first), A, A, S, tt)
        if tl == "nil":
            return "c20_str(%s, %s), c20_str(%s, %s), partial_string(%s, %s, %s)" % (codes(first), A, codes(rest), Bv, A, S, Bv)
        return "c20_str(%s, %s), c20_str(%s, %s), partial_string(%s, %s, %s), partial_string(%s, %s, %s)" % (
            codes(first), A, codes(rest), Cv, Cv, Bv, tt, A, S, Bv)
    if m == "app":
        if not rest:
            return "c20_str(%s, %s), append(%s, %s, %s)" % (codes(first), A, A, tt, S)
        return "c20_str(%s, %s), c20_str(%s, %s), append(%s, %s, %s)" % (codes(first), A, codes(rest), Bv, A, Bv, S)
    if m == "cons":
        first, rest = cs[:1], cs[1:]
        if not rest:
            rb = "%s = %s" % (R, tt)
        elif tl == "nil":
            rb = "c20_str(%s, %s)" % (codes(rest), R)
        else:
            rb = "c20_str(%s, %s), partial_string(%s, %s, %s)" % (codes(rest), Cv, Cv, R, tt)
        return "char_code(%s, %d), %s, %s = [%s|%s]" % (H, first[0], rb, S, H, R)
    raise common.ToolError("unknown materialisation %r" % (mat,))


def op_goal(op, cs):
    n = len(cs)
    t = {
        "len": "( length(S, N0) -> R = N0 ; R = no )",
        "len_n": "( length(S, %d) -> R = yes ; R = no )" % n,
        "app_z": "( append(S, [z], R0) -> R = yes(R0) ; R = no )",
        "app_last": "( append(_, [L0], S) -> R = yes(L0) ; R = no )",
        "copy": "copy_term(S, C0), ( C0 == S -> I0 = same ; I0 = differs ), R = C0-I0",
        "tvars": "term_variables(S, R)",
        "ground": "( ground(S) -> R = yes ; R = no )",
        "sort": "catch(( sort(S, L0) -> R = yes(L0) ; R = no ), error(E0, _), R = err(E0))",
        "achars": "catch(( atom_chars(A0, S) -> atom_codes(A0, Cs0), atom_length(A0, N0), R = yes(Cs0, N0) ; R = no ), error(E0, _), R = err(E0))",
        "functor": "catch(( functor(S, N0, A0) -> R = N0/A0 ; R = no ), error(E0, _), R = err(E0))",
        "univ": "catch(( S =.. L0 -> R = L0 ; R = no ), error(E0, _), R = err(E0))",
        "arg1": "catch(( arg(1, S, A0) -> R = yes(A0) ; R = no ), error(E0, _), R = err(E0))",
        "arg2": "catch(( arg(2, S, A0) -> R = yes(A0) ; R = no ), error(E0, _), R = err(E0))",
        "arg3": "( arg(3, S, _) -> R = yes ; R = no )",
        "arg1_bound": "char_code(C0, %d), ( arg(1, S, C0) -> R = yes ; R = no )" % (cs[0] if cs else 0),
        "arg1_other": "( arg(1, S, '$other') -> R = yes ; R = no )",
        "nth1_last": "( nth1(%d, S, E0) -> R = yes(E0) ; R = no )" % n,
        "nth0_first": "( nth0(0, S, E0) -> R = yes(E0) ; R = no )",
        "nth0_out": "( nth0(%d, S, _) -> R = yes ; R = no )" % n,
        "suffix_pair": "S = [_|T0], c20_list(%s, [], K0), compare(O1, S-T0, K0-K0), compare(O2, K0-K0, S-T0), "
                       "( S-T0 == K0-K0 -> I0 = yes ; I0 = no ), R = r(O1, O2, I0)" % codes(cs),
        "walk_arg": "c20_walk_arg(S, H0, T0), R = w(H0, T0)",
        "walk_univ": "c20_walk_univ(S, H0, T0), R = w(H0, T0)",
        "head": "( c20_hd(S, H0, T0) -> R = yes(H0, T0) ; R = no )",
        "index": "findall(K0, c20_idx(S, K0), R)",
        "app_splits": "findall(X0-Y0, append(X0, Y0, S), R)",
        "nth0_all": "findall(I0-E0, nth0(I0, S, E0), R)",
        "print": "write_term_to_chars(S, [quoted(true)], R)",
        "nchars": "catch(( number_chars(N0, S) -> number_codes(N0, Cs0), R = yes(Cs0) ; R = no ), error(E0, _), R = err(E0))",
    }
    if op not in t:
        raise common.ToolError("no query template for operation %r" % op)
    return t[op]


PAIR_GOAL = ("compare(O1, S, P), compare(O2, P, S), ( S == P -> I0 = yes ; I0 = no ), "
             "( S = P -> W0 = yes(S) ; W0 = no ), R = r(O1, O2, I0, W0)")


def mat_name(mat):
    return "%s/%d" % (mat["m"], mat["k"]) if mat["k"] else mat["m"]


def content_class(cs):
    kinds = set()
    for c in cs:
        kinds.add("nul" if c == 0 else "ascii" if c < 128 else "b%d" % len(chr(c).encode("utf-8")))
    nb = sum(len(chr(c).encode("utf-8")) for c in cs)
    return "%s bytes=%s" % ("+".join(sorted(kinds)) or "empty", "0" if nb == 0 else "<8" if nb < 8 else "8" if nb == 8 else
                            "9-15" if nb < 16 else "16" if nb == 16 else ">16")


def show_cs(cs):
    return json.dumps("".join(chr(c) if 32 <= c and c != 127 else "\\x%x\\" % c for c in cs), ensure_ascii=False)


# ------------------------------------------------------------------------------------------------
# execution: batches of queries on one machine; a crash of the machine is narrowed down to the query
# ------------------------------------------------------------------------------------------------

def slim(out):
    """keep of a query result only what is compared (the first answer's binding of R): the answers also bind every auxiliary
    variable of the materialisations, which is hundreds of MB over a thorough run"""
    if not isinstance(out, dict) or "a" not in out:
        return out
    a = out["a"][:1]
    if a and isinstance(a[0], dict) and "b" in a[0]:
        a = [{"b": {k: v for k, v in a[0]["b"].items() if k == "R"}}]
    return {"a": a}


def run_batches(queries, workers, batch=150):
    """queries: list of dicts with 'q' (goal text ending in '.'). Returns list of results aligned with queries;
    a result is the harness query entry, or {'crash': reason}."""
    out = [None] * len(queries)
    spans = [list(range(b, min(b + batch, len(queries)))) for b in range(0, len(queries), batch)]
    redo = []
    group = 16 * max(1, workers)          # the raw results of a group are dropped before the next one runs
    for g in range(0, len(spans), group):
        jobs = [{"id": "b%d" % idx[0], "fresh": True, "timeout": 180,
                 "steps": [{"consult": HELPERS}] + [{"q": queries[i]["q"], "max": 2} for i in idx]} for idx in spans[g:g + group]]
        res = run_jobs(jobs, workers=workers, job_timeout=180)
        for job, idx in zip(jobs, spans[g:g + group]):
            r = res.get(job["id"], {"crash": "missing"})
            if "crash" in r:
                redo += idx
                continue
            rs = r["res"][1:]
            lost = False
            for j, i in enumerate(idx):
                if lost or j >= len(rs):
                    redo.append(i)
                    continue
                out[i] = slim(rs[j])
                if "panic" in rs[j]:
                    lost = True         # the session was replaced: the helper predicates are gone for the rest of this batch
    if redo:
        single = run_single(queries, redo, workers, 10)
        for i in redo:
            out[i] = single[i]
    return out


def run_single(queries, idx, workers, timeout):
    jobs = [{"id": "s%d" % i, "fresh": True, "timeout": timeout,
             "steps": [{"consult": HELPERS}, {"q": queries[i]["q"], "max": 2}]} for i in idx]
    res = run_jobs(jobs, workers=workers, job_timeout=timeout)
    out = {}
    again = []
    for i in idx:
        r = res.get("s%d" % i, {"crash": "missing"})
        if "crash" in r:
            if r["crash"] == "timeout":
                again.append(i)
            out[i] = {"crash": r["crash"]}
        else:
            out[i] = r["res"][1] if len(r["res"]) > 1 else {"crash": "no result"}
    if again and timeout < 20:
        # a hang counts only after a second run with a doubled limit
        second = run_single(queries, again, workers, 2 * timeout)
        for i in again:
            out[i] = second[i] if "crash" not in second[i] else {"crash": "hang (no answer within %d s and %d s)" % (timeout, 2 * timeout)
                                                                  if second[i]["crash"].startswith(("timeout", "hang")) else second[i]["crash"]}
    return out


def first_answer(out):
    """-> ('crash', text) | ('panic', text) | ('fail', None) | ('ball', term) | ('ok', bindings)"""
    if out is None:
        return ("crash", "no result")
    if "crash" in out:
        return ("crash", out["crash"])
    if "panic" in out:
        return ("panic", out["panic"])
    a = out.get("a", [])
    if not a or a[0] == "F":
        return ("fail", None)
    if a[0] == "T":
        return ("ok", {})
    if "b" in a[0]:
        return ("ok", a[0]["b"])
    return ("ball", a[0].get("e") or a[0].get("x"))


def check_r(exp_tla, out):
    """compare the binding of R with the expected term; returns None or a description"""
    kind, val = first_answer(out)
    if kind in ("crash", "panic"):
        return "%s: %s" % (kind, val)
    if kind == "fail":
        return "the query failed"
    if kind == "ball":
        return "uncaught %s" % terms.show(terms.from_h(val))
    if "R" not in val:
        return "R unbound"
    e, g = terms.from_tla(exp_tla), terms.from_h(val["R"])
    if not terms.variant(e, g):
        return "expected %s got %s" % (terms.show(e)[:300], terms.show(g)[:300])
    return None


# ------------------------------------------------------------------------------------------------

def cap(n):
    try:
        m = int(os.environ.get("VERIF_MAXWORKERS", "0"))
    except ValueError:
        m = 0
    return min(n, m) if m > 0 else n


def build_cases(vecs, tier):
    """-> (normal query cases, predicted-astray pair cases)"""
    normal, astray = [], []
    for v in vecs:
        if v["kind"] == "val":
            cs, tl = v["cs"], v["tl"]
            risky = set(tuple(x) for x in v["astray"])
            for mi, mat in enumerate(v["mats"], 1):
                mg = mat_goal(cs, tl, mat, "S", "T", "V")
                for op in v["ops"]:
                    normal.append({"k": "op", "v": v, "mat": mat, "op": op,
                                   "q": "%s, %s." % (mg, op_goal(op["id"], cs))})
                for pi, p in enumerate(v["partners"], 1):
                    for qi, pm in enumerate(p["pmats"], 1):
                        pg = mat_goal(p["cs"], p["tl"], pm, "P", p["vn"], "P")
                        case = {"k": "pair", "v": v, "mat": mat, "p": p, "pm": pm, "astray": (mi, pi, qi) in risky,
                                "q": "%s, %s, %s." % (mg, pg, PAIR_GOAL)}
                        (astray if case["astray"] else normal).append(case)
        elif v["kind"] == "dev":
            def parts_goal(parts, S, px):
                cs = [c for part in parts for c in part]
                if len(parts) == 1:
                    return cs, mat_goal(cs, "nil", {"m": "achars", "k": 0}, S, "T", px), {"m": "achars", "k": 0}
                mat = {"m": "pstr3", "k": len(parts[0])}
                return cs, mat_goal(cs, "nil", mat, S, "T", px), mat
            cs1, g1, m1 = parts_goal(v["p1"], "S", "V")
            cs2, g2, m2 = parts_goal(v["p2"], "P", "P")
            astray.append({"k": "pair", "v": {"cs": cs1, "tl": "nil"}, "mat": m1, "pm": m2, "astray": True,
                           "p": {"id": "layout-model", "cs": cs2, "tl": "nil", "vn": "U", "exp": v["exp"]},
                           "q": "%s, %s, %s." % (g1, g2, PAIR_GOAL)})
    return normal, astray


def case_sig(c):
    v = c["v"]
    if c["k"] == "op":
        return "op=%s mat=%s tail=%s len=%d %s content=%s" % (c["op"]["id"], mat_name(c["mat"]), v["tl"], len(v["cs"]),
                                                            content_class(v["cs"]), show_cs(v["cs"]))
    p = c["p"]
    return "pair partner=%s astray=%d mat=%s pmat=%s tail=%s ptail=%s len=%d plen=%d %s content=%s pcontent=%s" % (
        p["id"], 1 if c["astray"] else 0, mat_name(c["mat"]), mat_name(c["pm"]), v["tl"], p["tl"], len(v["cs"]), len(p["cs"]),
        content_class(v["cs"]), show_cs(v["cs"]), show_cs(p["cs"]))


def case_class(c):
    v = c["v"]
    if c["k"] == "op":
        return ("op", c["op"]["id"], c["mat"]["m"], v["tl"], content_class(v["cs"]))
    return ("pair", c["p"]["id"], c["mat"]["m"], c["pm"]["m"], v["tl"], c["p"]["tl"], c["astray"], content_class(v["cs"]))


def detail(c, got):
    d = {"query": c["q"], "got": got, "kind": c["k"]}
    d["expected"] = c["op"]["r"] if c["k"] == "op" else c["p"]["exp"]
    return d


def run(tier):
    rep = Report(PROP, tier, META["level"])
    rep.rule = ("values = contents (9 patterns over a, b, 2/3/4-byte characters, NUL, digits; lengths 0..17, quick: 10 lengths x 5 patterns) x tails "
                "([], unbound, foo); each in every admissible materialisation x every unary operation, and x every near-equal partner "
                "(same, last character up/down, shorter, longer, other tails) in 3 partner materialisations (compare both ways, ==, =); "
                "plus the split-string pairs on which the layout model predicts the code to go astray (capped); distinct = "
                "(operation or partner kind, materialisations, tails, byte-length class and character classes)")
    quick = tier == "quick"
    res, vecs = generate("MC_C20", "MC_C20_%s.cfg" % tier, workers=cap(8 if quick else 14), timeout=7200)
    rep.add_tlc(res)
    vals = [v for v in vecs if v.get("kind") == "val"]
    devs = [v for v in vecs if v.get("kind") == "dev"]
    if not vals:
        raise common.ToolError("no value vectors")
    normal, astray = build_cases(vecs, tier)
    rnd = random.Random(common.seed())
    rnd.shuffle(astray)
    limit = 24 if quick else 240
    chosen, skipped = astray[:limit], astray[limit:]
    workers = cap(8 if quick else 14)

    results = run_batches(normal, workers)
    # printing: every materialisation must print what the explicit list prints
    ref = {}
    for c, out in zip(normal, results):
        if c["k"] == "op" and c["op"]["id"] == "print" and c["mat"]["m"] == "list":
            kind, val = first_answer(out)
            ref[(tuple(c["v"]["cs"]), c["v"]["tl"])] = terms.from_h(val["R"]) if kind == "ok" and "R" in val else None
    for c, out in zip(normal, results):
        rep.case(case_class(c))
        if c["k"] == "op" and c["op"]["id"] == "print":
            kind, val = first_answer(out)
            r = ref.get((tuple(c["v"]["cs"]), c["v"]["tl"]))
            got = terms.from_h(val["R"]) if kind == "ok" and "R" in val else None
            if got is None or r is None or got == ('a', '[]'):
                d = "no text printed (%s %s)" % (kind, str(val)[:120])
            elif got != r:
                d = "printed %s, the explicit list prints %s" % (terms.show(got)[:200], terms.show(r)[:200])
            else:
                d = None
        else:
            d = check_r(c["op"]["r"] if c["k"] == "op" else c["p"]["exp"], out)
        if d:
            rep.violation("%s: %s" % (case_sig(c), d), detail(c, out))

    single = run_single(chosen, list(range(len(chosen))), workers, 5) if chosen else {}
    for i, c in enumerate(chosen):
        rep.case(case_class(c))
        d = check_r(c["p"]["exp"], single[i])
        if d:
            rep.violation("%s: %s" % (case_sig(c), d), detail(c, single[i]))

    rep.extra["values"] = len(vals)
    rep.extra["layout_model_deviations_printed"] = len(devs)
    rep.extra["predicted_astray_cases"] = len(astray)
    rep.extra["predicted_astray_replayed"] = len(chosen)
    rep.extra["predicted_astray_not_replayed"] = len(skipped)
    for c in (normal[:: max(1, len(normal) // 4)] + chosen[:1])[:5]:
        rep.sample({"query": c["q"], "expected_R": terms.show(terms.from_tla(c["op"]["r"] if c["k"] == "op" else c["p"]["exp"]))[:300]})
    rep.traces = len(normal) + len(chosen)
    rep.exhaustive = not skipped
    rep.assumptions = ["TLC", "spec/StrList.tla as the reading of ISO and the library documentation on lists",
                       "query renderer of props/C20.py", "LeafAnswer projection of the harness"]
    return rep.finish()


def replay(path):
    d = json.load(open(path))
    det = d["detail"]
    r = run_single([{"q": det["query"]}], [0], 1, 10)
    print(det["query"])
    print("expected R =", terms.show(terms.from_tla(det["expected"]))[:600])
    print("got:", json.dumps(r[0])[:1500])
    return 0
