"""C30 - Memory exhaustion at any allocation raises a catchable error."""
import json
from lib import faults

PROP = "C30"
META = {
    "level": "fault_enumeration",
    "text": "Faults.tla composes the abstract machine with an environment action that fails one allocation at an arbitrary step; the only "
            "admissible continuation is error(resource_error(memory), _) thrown from that point. TLC runs 9 workloads with the fault at every "
            "step, checks machine consistency in every terminal state and yields the admissible outcomes. The real machine runs the same "
            "workloads with the heap declared full d bytes ahead of its current length (verif-hooks virtual capacity: the growth attempt this "
            "provokes fails once), for d in steps of 8 bytes so that every allocation site the workload reaches becomes a failing growth; the "
            "observed outcome must be admissible (ball caught by catch/3, side effects a prefix), the process must not panic, and a "
            "follow-up battery must behave as on a fresh machine.",
    "note": "Trusted: TLC; Prolog.tla/Faults.tla; the injector (only the main heap's growth is failed; arena, stack, trail and atom-table "
            "allocations use the global allocator and are not faulted). The spec's steps are coarser than allocation sites: the outcome must "
            "coincide with that of SOME spec fault step. Panics of the code under test are violations, keyed by panic site in the known-findings file.",
    "technique": "TLA+ fault model explored by TLC; allocation-failure injection at every reachable heap-growth point, outcomes matched to the specification's outcome set",
}


def run(tier):
    return faults.run(PROP, "memory", tier, "virtual-capacity growth-failure injector of the verif-hooks build")


def replay(path):
    d = json.load(open(path))
    print(json.dumps(d["detail"], indent=1)[:3000])
    return 0
