"""C36 - format/2 directives produce the documented text."""
import json
import os
import re
from fractions import Fraction

from lib import common, terms
from lib.common import Report, run_tlc, tlc_ok, run_jobs

PROP = "C36"

META = {
    "level": "model_checking",
    "text": "spec/Format.tla is an interpreter of the directive table documented in src/lib/format.pl (literal text, ~w ~q ~a ~s "
            "~d ~Nd ~ND ~NU ~NL ~f ~Nf ~Nr ~NR ~n ~Nn ~i ~~ ~*, and the column machinery ~t ~`Ct ~| ~N| ~N+ as a state machine "
            "over tab stop, pending cell and fill points) on sequences of code points with exact integers/rationals (BigInt). "
            "TLC enumerates format strings of up to 2 (quick) / 3 (thorough) directive instances x argument values of matching and "
            "wrong types x N in {absent,0,1,3,12,*}, argument-count errors, undocumented directives and column scenarios with 1-3 "
            "tab stops and 0-3 fill points per cell; every case is replayed in five ways (phrase(format_//2) at run time, format/2 "
            "to user_output, a consulted clause calling format/2, a consulted DCG rule with ground and with unbound arguments, "
            "both exercising the compile-time goal expansion) that must all produce the specified text or error class. "
            "Bounded-exhaustive conformance, not proof.",
    "note": "Trusted: TLC, BigInt.tla, the Prolog text renderer of the driver, the harness' answer projection. Documentation gaps "
            "are listed as D1-D9 at the top of Format.tla; cases the documentation does not determine (kind unspec) are not generated; "
            "~NL outputs that need line breaks are judged by the relation Format!LAccepts through spec/Trace_C36.tla. Error terms are "
            "not documented: classes are compared on functor and first argument. ~w/~q arguments are restricted to atoms, integers, "
            "strings, lists and canonical compounds; ~Nf to integers, rationals and dyadic floats with few bits.",
    "technique": "TLA+ interpreter specification enumerated by TLC; vectors replayed into library(format) through the Rust harness",
}

HELPER = r"""
:- use_module(library(format)).
:- use_module(library(lists)).
:- use_module(library(dcgs)).
vt_cls(E, F, A) :- functor(E, F, _), ( compound(E), arg(1, E, A0), atom(A0) -> A = A0 ; A = none ).
vt_rt(Fs, Args, R) :-
    catch(( phrase(format_(Fs, Args), Cs) -> maplist(char_code, Cs, Codes), R = ok(Codes) ; R = failed ),
          error(E, _), ( vt_cls(E, F, A), R = err(F, A) )).
vt_rtc(Fc, Args, R) :- maplist(char_code, Fs, Fc), vt_rt(Fs, Args, R).
vt_out(Fs, Args, R) :-
    catch(( format(Fs, Args) -> R = ok ; R = failed ), error(E, _), ( vt_cls(E, F, A), R = err(F, A) )),
    flush_output.
vt_outc(Fc, Args, R) :- maplist(char_code, Fs, Fc), vt_out(Fs, Args, R).
vt_call(G, R) :-
    catch(( call(G) -> R = ok ; R = failed ), error(E, _), ( vt_cls(E, F, A), R = err(F, A) )),
    flush_output.
vt_dcg(G, R) :-
    catch(( phrase(G, Cs) -> maplist(char_code, Cs, Codes), R = ok(Codes) ; R = failed ),
          error(E, _), ( vt_cls(E, F, A), R = err(F, A) )).
"""

WAYS = ["rt", "out", "clause", "dcg", "dcgvar"]

ERR_TERMS = {
    "unknown": ("domain_error", "format_string"),
    "few": ("domain_error", "non_empty_list"),
    "many": ("domain_error", "empty_list"),
    "type": ("type_error", None),
    "any": (None, None),
}


# ---------------------------------------------------------------------------------------------
# rendering of inputs (canonical Prolog text)
# ---------------------------------------------------------------------------------------------

def txt(codes):
    return "".join(chr(c) for c in codes)


def plain(codes):
    return all(32 <= c <= 126 and c not in (34, 92) for c in codes)


def chars_literal(codes):
    """a list of characters as Prolog text: double-quoted when free of special characters, else a list of quoted atoms"""
    if plain(codes):
        return '"' + txt(codes) + '"'
    return "[" + ",".join(terms.quote_atom(chr(c)) for c in codes) + "]"


def arg_text(a, rats):
    t = a["t"]
    if t == "a":
        return terms.quote_atom(txt(a["n"]))
    if t == "i":
        n = int(a["z"])
        return str(n) if n >= 0 else "(%d)" % n
    if t == "f":
        v = Fraction(int(a["z"]), 2 ** a["k"])
        x = float(v)
        if Fraction(x) != v:
            raise common.ToolError("float argument not exactly representable: %r" % (a,))
        s = terms.float_text(terms.float_bits(x))
        return "(%s)" % s if s.startswith("-") else s
    if t == "r":
        rats.append((int(a["z"]), int(a["q"])))
        return "R%d" % len(rats)
    if t == "s":
        return chars_literal(a["n"])
    if t == "c":
        return terms.quote_atom(txt(a["n"])) + "(" + ",".join(arg_text(x, rats) for x in a["a"]) + ")"
    if t == "l":
        return "[" + ",".join(arg_text(x, rats) for x in a["a"]) + "]"
    raise ValueError(a)


def rat_goals(rats):
    gs = []
    for i, (p, q) in enumerate(rats):
        gs.append("R%d is rdiv(%s,%d)" % (i + 1, str(p) if p >= 0 else "(%d)" % p, q))
    return gs


def vector_steps(v, j):
    """harness steps for one vector; returns (steps, [(way, index of the step within steps)])"""
    fs = v["fs"]
    rats = []
    args = [arg_text(a, rats) for a in v["args"]]
    arglist = "[" + ",".join(args) + "]"
    pre = "".join(g + ", " for g in rat_goals(rats))
    lit = chars_literal(fs)
    steps, ways = [], []
    # 1. run time, phrase(format_(Fs, Args), Cs)
    if plain(fs):
        steps.append({"q": "%svt_rt(\"%s\", %s, R)." % (pre, txt(fs), arglist), "max": 1})
    else:
        steps.append({"q": "%svt_rtc(%s, %s, R)." % (pre, json.dumps(fs), arglist), "max": 1})
    ways.append(("rt", len(steps) - 1))
    # 2. format/2 to user_output
    if plain(fs):
        steps.append({"q": "%svt_out(\"%s\", %s, R)." % (pre, txt(fs), arglist), "max": 1})
    else:
        steps.append({"q": "%svt_outc(%s, %s, R)." % (pre, json.dumps(fs), arglist), "max": 1})
    ways.append(("out", len(steps) - 1))
    # 3./4./5. consulted clauses: goal expansion at compile time
    vars_ = ["A%d" % (i + 1) for i in range(len(args))]
    prog = "vc_%d :- %sformat(%s, %s).\n" % (j, pre, lit, arglist)
    if rats:
        prog += "vg_%d --> { %s }, format_(%s, %s).\n" % (j, ", ".join(rat_goals(rats)), lit, arglist)
    else:
        prog += "vg_%d --> format_(%s, %s).\n" % (j, lit, arglist)
    if args:
        prog += "vh_%d(%s) --> format_(%s, [%s]).\n" % (j, ",".join(vars_), lit, ",".join(vars_))
    steps.append({"consult": prog})
    steps.append({"q": "vt_call(vc_%d, R)." % j, "max": 1})
    ways.append(("clause", len(steps) - 1))
    steps.append({"q": "vt_dcg(vg_%d, R)." % j, "max": 1})
    ways.append(("dcg", len(steps) - 1))
    if args:
        steps.append({"q": "%svt_dcg(vh_%d(%s), R)." % (pre, j, ",".join(args)), "max": 1})
        ways.append(("dcgvar", len(steps) - 1))
    return steps, ways


# ---------------------------------------------------------------------------------------------
# projection of results
# ---------------------------------------------------------------------------------------------

def list_items(t):
    items = []
    while t[0] == 'c' and t[1] == '.' and len(t[2]) == 2:
        items.append(t[2][0])
        t = t[2][1]
    if t != terms.NIL:
        return None
    return items


def observed(way, res):
    """-> ('ok', [codes]) | ('err', functor, firstarg) | ('fail',) | ('panic', msg) | ('other', x)"""
    if "panic" in res:
        return ("panic", res["panic"])
    a = res.get("a", [])
    if not a or not isinstance(a[0], dict) or "b" not in a[0] or "R" not in a[0]["b"]:
        return ("other", json.dumps(a)[:300])
    r = terms.from_h(a[0]["b"]["R"])
    if r == ('a', 'failed'):
        return ("fail",)
    if r[0] == 'c' and r[1] == 'err':
        return ("err", r[2][0][1], r[2][1][1])
    if way in ("out", "clause"):
        if r == ('a', 'ok'):
            return ("ok", [ord(c) for c in res.get("out", "")])
        return ("other", repr(r)[:300])
    if r[0] == 'c' and r[1] == 'ok':
        items = list_items(r[2][0])
        if items is not None and all(x[0] == 'i' for x in items):
            return ("ok", [x[1] for x in items])
    return ("other", repr(r)[:300])


def show(o):
    if o[0] == "ok":
        return "ok:" + repr(txt(o[1]))
    return ":".join(str(x) for x in o)


def expected(v):
    if v["kind"] == "ok":
        return ("ok", v["out"])
    if v["kind"] == "err":
        return ("err", v["err"])
    return ("rel", v["dec"], v["n"])


def agrees(v, got):
    if v["kind"] == "ok":
        return got == ("ok", v["out"])
    if v["kind"] == "err":
        if got[0] != "err":
            return False
        f, a = ERR_TERMS[v["err"]]
        return (f is None or got[1] == f) and (a is None or got[2] == a)
    return False


# ---------------------------------------------------------------------------------------------
# coverage classes and cross-check of the specification
# ---------------------------------------------------------------------------------------------

DIR_RE = re.compile(r"~(\*|\d+)?(`.t|.|$)", re.S)


def shapes(fs):
    out = []
    for m in DIR_RE.finditer(txt(fs)):
        n = m.group(1)
        out.append(("*" if n == "*" else "N" if n else "") + (m.group(2) if not m.group(2).startswith("`") else "`t"))
    return tuple(out)


def to_radix(x, r, upper):
    digs = "0123456789" + ("ABCDEFGHIJKLMNOPQRSTUVWXYZ" if upper else "abcdefghijklmnopqrstuvwxyz")
    if x == 0:
        return "0"
    s, y = "", abs(x)
    while y:
        s = digs[y % r] + s
        y //= r
    return ("-" if x < 0 else "") + s


def point(neg, ds, n, sep):
    if n:
        ds = ds.rjust(n + 1, "0")
        ip, fp = ds[:-n], "." + ds[-n:]
    else:
        ip, fp = ds, ""
    if sep:
        ip = "{:,}".format(int(ip)).replace(",", sep)
    return ("-" if neg else "") + ip + fp


def py_crosscheck(v):
    """independent Python computation of single numeric directives (sanity of the TLA+ oracle; mismatch = tool error)"""
    m = re.fullmatch(r"~(\d+)?([dDUrRf])", txt(v["fs"]))
    if not m or v["kind"] != "ok" or len(v["args"]) != 1:
        return None
    N = int(m.group(1)) if m.group(1) else None
    ch = m.group(2)
    a = v["args"][0]
    if ch in "dDU" and a["t"] == "i":
        x = int(a["z"])
        return point(x < 0, str(abs(x)), N or 0, {"d": "", "D": ",", "U": "_"}[ch])
    if ch in "rR" and a["t"] == "i":
        return to_radix(int(a["z"]), 8 if N is None else N, ch == "R")
    if ch == "f":
        if a["t"] == "f":
            val = Fraction(int(a["z"]), 2 ** a["k"])
        else:
            val = Fraction(int(a["z"]), int(a["q"]))
        n = 6 if N is None else N
        sc = abs(val) * 10 ** n
        r = (2 * sc.numerator + sc.denominator) // (2 * sc.denominator)      # floor(sc + 1/2): ties away from zero
        return point(val < 0 and r != 0, str(r), n, "")
    return None


# ---------------------------------------------------------------------------------------------

def signature(v, way, got):
    rats = []
    try:
        args = ",".join(arg_text(a, rats) for a in v["args"])
    except Exception:
        args = "?"
    e = expected(v)
    es = "ok:" + repr(txt(e[1])) if e[0] == "ok" else ":".join(str(x) for x in e[:2]) if e[0] == "err" else "rel"
    return "traits=%s | fs=%r args=[%s] way=%s exp=%s got=%s" % (
        ",".join(sorted(v["traits"])), txt(v["fs"]), args, way, es, show(got))


def judge_rel(rep, rel_obs):
    """rel_obs: list of (vector, way, codes). The specification (Trace_C36 / Format!LAccepts) decides."""
    if not rel_obs:
        return
    d = os.path.join(common.WORK, "c36")
    os.makedirs(d, exist_ok=True)
    path = os.path.join(d, "rel-%d.ndjson" % os.getpid())
    with open(path, "w") as f:
        for i, (v, way, codes) in enumerate(rel_obs):
            f.write(json.dumps({"id": i + 1, "out": codes, "dec": v["dec"], "n": v["n"]}) + "\n")
    res = tlc_ok(run_tlc("Trace_C36", "Trace_C36.cfg", workers=1, timeout=600, env_extra={"TRACE": path}), "~NL acceptance")
    rep.add_tlc(res)
    verdict = [x for x in res.printed() if isinstance(x, dict) and "rejected" in x]
    if not verdict or verdict[0]["total"] != len(rel_obs):
        raise common.ToolError("Trace_C36 did not judge all %d observations: %r" % (len(rel_obs), verdict))
    for i in verdict[0]["rejected"]:
        v, way, codes = rel_obs[i - 1]
        rep.violation(signature(v, way, ("ok", codes)), {"vector": v, "way": way, "got": show(("ok", codes))})
    os.unlink(path)


def execute(rep, vecs, B=60):
    """replay every vector; vectors that follow a panic inside a job lost their session (and the helper) and are re-run"""
    PROBE = {"q": "vt_rt(\"ok\", [], R).", "max": 1}
    rel_obs = []
    todo = list(vecs)
    rounds = 0
    while todo:
        rounds += 1
        if rounds > 50:
            raise common.ToolError("replay does not converge (repeated panics)")
        jobs, meta = [], {}
        for bi in range(0, len(todo), B):
            steps = [{"consult": HELPER}, PROBE]
            index = []
            for j, v in enumerate(todo[bi:bi + B]):
                st, ways = vector_steps(v, j)
                base = len(steps)
                steps += st
                index.append((v, [(w, base + k) for w, k in ways], base, base + len(st)))
            jobs.append({"id": bi, "steps": steps, "timeout": 300, "fresh": True})
            meta[bi] = index
        results = run_jobs(jobs, workers=8, job_timeout=300)
        again = []
        for job in jobs:
            r = results.get(job["id"], {"crash": "missing"})
            if "crash" in r:
                rep.violation("batch crashed: %s" % r["crash"], {"job": job, "result": r})
                continue
            res = r["res"]
            if observed("rt", res[1]) != ("ok", [111, 107]):
                raise common.ToolError("helper program did not load: %r %r" % (res[0], res[1]))
            lost = False
            for v, ways, lo, hi in meta[job["id"]]:
                if lost:
                    again.append(v)
                    continue
                for way, k in ways:
                    got = observed(way, res[k]) if k < len(res) else ("other", "missing step")
                    rep.case((v["fam"], shapes(v["fs"]), tuple(a["t"] for a in v["args"]), v["kind"], v["err"], way))
                    if v["kind"] == "rel":
                        if got[0] == "ok":
                            rel_obs.append((v, way, got[1]))
                        else:
                            rep.violation(signature(v, way, got), {"vector": v, "way": way, "got": show(got)})
                    elif not agrees(v, got):
                        rep.violation(signature(v, way, got), {"vector": v, "way": way, "got": show(got)})
                if any("panic" in res[k] for k in range(lo, min(hi, len(res)))):
                    lost = True
        todo = again
    judge_rel(rep, rel_obs)


def run(tier):
    rep = Report(PROP, tier, META["level"])
    rep.rule = ("TLC enumerates (format string, argument list) cases by family: single directive instances (every documented "
                "directive x N in {absent,0,1,3,12,*} x argument values incl. bignums, rationals, dyadic floats, wrong types; "
                "undocumented forms), pairs%s from a core set, argument lists with one argument dropped/added, column scenarios of "
                "1-3 cells (text/fill patterns x tab stop kinds). Each case is evaluated by Format!Run and replayed in five ways. "
                "distinct = distinct (family, directive shapes, argument types, expected kind/class, way)"
                % ("" if tier == "quick" else " and triples"))
    res, vecs = common.generate("MC_C36", "MC_C36_%s.cfg" % tier, workers=8 if tier == "quick" else 12,
                                timeout=600 if tier == "quick" else 5400,
                                key=lambda v: json.dumps([v["fs"], v["args"]], sort_keys=True))
    rep.add_tlc(res)
    if not vecs:
        raise common.ToolError("no vectors generated")
    n_cc = 0
    for v in vecs:
        pv = py_crosscheck(v)
        if pv is not None:
            n_cc += 1
            if pv != txt(v["out"]):
                raise common.ToolError("oracle self-check failed: %r python=%r" % (v, pv))
    if n_cc < 100:
        raise common.ToolError("oracle self-check covered only %d vectors" % n_cc)
    execute(rep, vecs)
    step = max(1, len(vecs) // 5)
    for v in vecs[::step]:
        rats = []
        rep.sample({"format": txt(v["fs"]), "args": [arg_text(a, rats) for a in v["args"]],
                    "expected": show(("ok", v["out"])) if v["kind"] == "ok" else v["kind"] + ":" + v["err"]})
    rep.exhaustive = True
    rep.traces = len(vecs)
    rep.extra["python_crosschecked_vectors"] = n_cc
    rep.assumptions = ["TLC, BigInt.tla and Format.tla (sanity theorems in MC_C36 checked in this run: radix round trip, grouping, "
                       "nearest rounding, the examples printed in format.pl; numeric single directives cross-checked with Python)",
                       "the reading of the documentation recorded as D1-D9 in Format.tla",
                       "canonical text renderer of the driver and answer projection of the harness"]
    return rep.finish()


def replay(path):
    d = json.load(open(path))
    v = d["detail"]["vector"]
    steps, ways = vector_steps(v, 0)
    job = {"id": 0, "steps": [{"consult": HELPER}] + steps, "fresh": True, "timeout": 120}
    r = run_jobs([job], workers=1)[0]
    print("format string %r, arguments %s" % (txt(v["fs"]), json.dumps(v["args"])))
    print("expected: %s" % (show(("ok", v["out"])) if v["kind"] == "ok" else v["kind"] + ":" + v["err"]))
    bad = 0
    for way, k in ways:
        got = observed(way, r["res"][k + 1]) if "res" in r else ("other", r)
        ok = agrees(v, got) if v["kind"] != "rel" else got[0] == "ok"
        bad += 0 if ok else 1
        print("  %-7s %s   %s   [%s]" % (way, "agrees" if ok else "DIFFERS", show(got), steps[k].get("q", "")))
    return 1 if bad else 0
