"""C32 - Concurrent machines intern atoms consistently."""
import json
import os
import random
import subprocess
from lib import common
from lib.common import Report, run_tlc, tlc_ok, generate, build_harness, WORK

PROP = "C32"
META = {
    "level": "model_checking",
    "text": "spec/AtomTable.tla models AtomTable::build_with step by step (epoch reads, lock-free lookup, update lock, epoch re-check, "
            "allocation with block growth, string write, table publication) with threads as processes; TLC checks UniqueAtomPerText, "
            "TextStable, NoLostInsert and MutualExclusion over all interleavings of 3 threads (block capacity 1, so growth happens), and "
            "confirms that the mutated specs without the re-check or without the lock violate them. Real threads then intern overlapping "
            "text sets in the real table (small initial block, random yields injected at every step through the verif-hooks sites); the "
            "recorded step events are validated by TLC against Trace_C32 and the returned atoms are checked for uniqueness and stable text.",
    "note": "Trusted: TLC; the RCU library gives each reader a consistent snapshot of the epoch it read (reclamation and weak memory are "
            "not modelled); only order-robust facts are asserted on traces (events are emitted after their step). Forced-interleaving "
            "replay of TLC schedules is not implemented in this round; races are provoked by randomised yields, so schedule coverage of the "
            "real code is probabilistic while the protocol model is exhaustive.",
    "technique": "TLA+ protocol model checked exhaustively by TLC (plus mutant specs); traces of real threads validated against the specification (impl -> spec)",
}


def run(tier):
    rep = Report(PROP, tier, "model_checking")
    quick = tier == "quick"
    rep.rule = ("model: all interleavings; conformance: every assignment of 1-2 (thorough 1-3) texts out of 4 to 3 (4) threads, sampled, "
                "each run with several yield seeds; distinct = (number of texts shared between threads, growth happened, a retry happened, "
                "number of hits)")
    # 1. protocol model and its mutants
    res = tlc_ok(run_tlc("MC_C32", "MC_C32_%s_none.cfg" % tier, workers=4 if quick else 12, timeout=3000, deadlock=False), "AtomTable model")
    rep.add_tlc(res)
    for m in ("norecheck", "nolock"):
        r = run_tlc("MC_C32", "MC_C32_quick_%s.cfg" % m, workers=4, timeout=1200)
        if r.error:
            raise common.ToolError("mutant model %s failed to run: %s" % (m, r.error))
        if r.violated != "Safe":
            raise common.ToolError("negative test failed: the mutated specification '%s' does not violate Safe" % m)
    rep.extra["mutant_specs_rejected"] = ["norecheck", "nolock"]
    # 2. scenarios
    gres, scen = generate("MC_C32gen", "MC_C32gen_%s.cfg" % tier, workers=2, timeout=1200)
    rep.add_tlc(gres)
    rnd = random.Random(common.seed())
    rnd.shuffle(scen)
    scen = scen[: (60 if quick else 1500)]
    seeds = 3 if quick else 6
    lines = []
    meta = []
    n = 0
    for sc in scen:
        for k in range(seeds):
            n += 1
            names = {}
            threads = []
            for th in sc["threads"]:
                threads.append([names.setdefault(x, "sv%d_%s_%s" % (n, x, "p" * (20 + 7 * (ord(x) % 5)))) for x in th])
            lines.append(json.dumps({"threads": threads, "seed": common.seed() * 7919 + n, "sleep_us": 30 + 40 * k, "init_size": 64}))
            meta.append((sc, threads))
    binary, degraded = build_harness(True)
    if degraded:
        raise common.ToolError("C32 needs the verif-hooks build (step events in AtomTable::build_with)")
    p = subprocess.run([binary, "atoms"], input="\n".join(lines) + "\n", stdout=subprocess.PIPE, stderr=subprocess.PIPE, text=True,
                       timeout=1800)
    outs = [json.loads(l) for l in p.stdout.splitlines() if l.strip()]
    if len(outs) != len(lines):
        rep.violation("atoms process died (rc=%s) in scenario %d" % (p.returncode, len(outs) + 1),
                      {"scenario": lines[len(outs)] if len(outs) < len(lines) else None, "stderr": p.stderr[-2000:]})
    os.makedirs(os.path.join(WORK, "c32"), exist_ok=True)
    tpath = os.path.join(WORK, "c32", "trace-%d.ndjson" % os.getpid())
    with open(tpath, "w") as tf:
        for (sc, threads), o in zip(meta, outs):
            # black-box facts
            amap = {}
            bad = None
            for tr in o["results"]:
                if not isinstance(tr, list):
                    bad = "thread panicked"
                    break
                for x in tr:
                    if x.get("panic"):
                        bad = "intern panicked for %s" % x["text"]
                    elif x["back"] != x["text"]:
                        bad = "text read back as %r for %r" % (x["back"], x["text"])
                    elif amap.setdefault(x["text"], x["atom"]) != x["atom"]:
                        bad = "two atoms %d / %d for text %s" % (amap[x["text"]], x["atom"], x["text"])
            if not bad:
                inv = {}
                for t, a in amap.items():
                    if inv.setdefault(a, t) != t:
                        bad = "one atom %d for two texts" % a
                for x in o["later"]:
                    if inv.get(x["atom"]) != x["text"]:
                        bad = "after growth atom %d reads %r" % (x["atom"], x["text"])
            evs = o["events"]
            steps = [e["step"] for e in evs]
            shared = len(set(threads[0]).intersection(*[set(t) for t in threads[1:]])) if len(threads) > 1 else 0
            rep.case((shared, "grow" in steps, "retry" in steps, min(steps.count("hit"), 3)))
            if bad:
                rep.violation("scenario %s: %s" % (json.dumps(sc["threads"]), bad), {"scenario": sc, "threads": threads, "result": o["results"]})
            for e in evs:
                tf.write(json.dumps({"ev": "atom", "tid": e["tid"], "step": e["step"], "text": e["text"], "atom": e["atom"], "seq": e["seq"]}) + "\n")
            tf.write(json.dumps({"ev": "reset", "tid": 1, "step": "", "text": "", "atom": 0, "seq": 0}) + "\n")
    # 3. trace validation
    tv = run_tlc("Trace_C32", "Trace_C32.cfg", workers=1, dfs=True, timeout=3000, env_extra={"TRACE": tpath}, xmx="6g", xss="1g")
    if tv.error and not tv.violated:
        rej = [l for l in tv.lines if "REJECTED" in l]
        if rej:
            tv.violated = "postcondition"
        else:
            raise common.ToolError("trace validation failed to run: %s" % tv.error)
    rep.add_tlc(tv)
    rej = [l for l in tv.lines if "REJECTED" in l]
    if tv.violated or rej:
        keep = os.path.join(common.REPLAYS, "C32-trace-%d.ndjson" % os.getpid())
        os.replace(tpath, keep)
        rep.violation("recorded atom-table trace is not a behaviour of the protocol: %s" % (rej[0][:300] if rej else tv.violated),
                      {"trace": keep})
    else:
        rep.traces = len(outs)
        os.remove(tpath)
    for (sc, threads), o in list(zip(meta, outs))[:3]:
        rep.sample({"threads": threads, "events": ["%d:%s" % (e["tid"], e["step"]) for e in o["events"][:40]]})
    rep.assumptions = ["TLC", "RCU snapshot assumption (arcu)", "recorder total order under its mutex"]
    return rep.finish()


def replay(path):
    d = json.load(open(path))
    t = d["detail"].get("trace")
    if t:
        tv = run_tlc("Trace_C32", "Trace_C32.cfg", workers=1, dfs=True, timeout=600, env_extra={"TRACE": t})
        print("\n".join(l for l in tv.lines if "REJECTED" in l or "Error" in l)[:2000])
    else:
        print(json.dumps(d["detail"], indent=1)[:3000])
    return 0
