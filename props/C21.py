"""C21 - Atom identity is text identity."""
import glob
import json
import os
import re
from lib import common, terms
from lib.common import Report, run_jobs

PROP = "C21"

META = {
    "level": "model_checking",
    "text": "Layer A (AtomRep.tla): an atom is its code-point sequence; identity is equality of texts and the order is the "
            "lexicographic order of code points. Layer B transcribes the three representations (inlined: 1..6 UTF-8 bytes "
            "without NUL packed into the index; static: atom! strings in the generated STRINGS table; dynamic: shared "
            "AtomTable) as decided at build time (static_string_indexing.rs) and again at run time (AtomTable::build_with, "
            "AtomCell::new_char_inlined). TLC checks on every enumerated text that both decisions agree, that the "
            "representation determines the text, that texts at edit distance 1 get different representations and that the "
            "byte-wise UTF-8 comparison of `impl Ord for Atom` equals the code-point order. Every text (all texts over "
            "{a, U+E9, U+20AC, U+1F600} with 0..7 (quick) / 0..12 (thorough) UTF-8 bytes, every text with NUL over {a, NUL, U+E9} up to 4 / 7 bytes, predefined atoms, "
            "digit strings, texts needing quotes) is then created in the real system through up to 15 paths (literal in "
            "query and clause, atom_codes, atom_chars, atom_concat in three modes and all boundary splits, sub_atom, "
            "char_code, read_term_from_chars, functor/=.., write_term_to_chars, assertz/retract, number_codes); all pairs "
            "must be ==, unify (raw cell equality), compare as =, select the same clause of a first-argument-indexed "
            "predicate and have the text's length and codes; neighbours at edit distance 1 must differ and order as the "
            "specification says. Bounded-exhaustive conformance, not proof.",
    "note": "Trusted: TLC, the canonical quoting of atom literals (lib/terms.py quote_atom) for the two literal paths and the "
            "read_term path (all other paths avoid the reader), the LeafAnswer projection of the harness. Atom.index values "
            "are not read directly (no re-export of AtomTable in the harness); unification and first-argument indexing, "
            "which both work on the raw cell, are the observers of representation identity.",
    "technique": "TLA+ specification with an implementation-shaped refinement model checked by TLC; vectors replayed through "
                 "every creation path of the real system",
}

LIBS = "use_module(library(lists)), use_module(library(charsio))."
BATCH = 40


def cps(cp):
    return ",".join(str(c) for c in cp)


def txt(cp):
    return "".join(chr(c) for c in cp)


def qa(cp):
    return terms.quote_atom(txt(cp))


def idx_keys(v):
    """the keys of the first-argument-indexed predicate: up to four neighbours around the text"""
    nb = sorted(tuple(n["text"]) for n in v["nbrs"])
    nb = nb[:4]
    half = len(nb) // 2
    keys = [list(x) for x in nb[:half]] + [v["text"]] + [list(x) for x in nb[half:]]
    return keys, half + 1


def program(v, t):
    keys, _ = idx_keys(v)
    lines = ["c21_lit_%d(%s)." % (t, qa(v["text"]))]
    for k, key in enumerate(keys):
        lines.append("c21_idx_%d(%s, %d)." % (t, qa(key), k + 1))
    return "\n".join(lines) + "\n"


def path_goals(v, t):
    """[(path name, goal text binding A<i>)] for one text"""
    cp = v["text"]
    n = len(cp)
    out = []

    def add(name, build):
        i = len(out) + 1
        a = "A%d" % i
        g = build(a, lambda s: "H%d_%s" % (i, s))
        out.append((name, "catch((%s -> true ; %s = '$failed'), error(Er%d,_), %s = '$error'(Er%d))" % (g, a, i, a, i)))

    have = set(v["paths"])
    if "lit_query" in have:
        add("lit_query", lambda A, H: "%s = (%s)" % (A, qa(cp)))   # parenthesised: the atom may be an operator
    if "lit_clause" in have:
        add("lit_clause", lambda A, H: "c21_lit_%d(%s)" % (t, A))
    if "atom_codes" in have:
        add("atom_codes", lambda A, H: "atom_codes(%s, [%s])" % (A, cps(cp)))
    if "atom_chars" in have:
        def g(A, H):
            cs = [H("C%d" % j) for j in range(n)]
            mk = "".join("char_code(%s, %d), " % (c, code) for c, code in zip(cs, cp))
            return "%satom_chars(%s, [%s])" % (mk, A, ",".join(cs))
        add("atom_chars", g)
    if "atom_concat" in have:
        for k in sorted(v["splits"]):
            add("atom_concat(+,+,-)@%s" % ("0" if k == 0 else "n" if k == n else "1" if k == 1 else "n-1"),
                lambda A, H, k=k: "atom_codes(%s, [%s]), atom_codes(%s, [%s]), atom_concat(%s, %s, %s)" % (
                    H("P"), cps(cp[:k]), H("S"), cps(cp[k:]), H("P"), H("S"), A))
        add("atom_concat(-,+,+)", lambda A, H: "atom_codes(%s, [122,122]), atom_codes(%s, [%s]), atom_concat(%s, %s, %s)" % (
            H("S"), H("L"), cps(cp + [122, 122]), A, H("S"), H("L")))
        add("atom_concat(+,-,+)", lambda A, H: "atom_codes(%s, [122,233]), atom_codes(%s, [%s]), atom_concat(%s, %s, %s)" % (
            H("P"), H("L"), cps([122, 233] + cp), H("P"), A, H("L")))
    if "sub_atom" in have:
        add("sub_atom", lambda A, H: "atom_codes(%s, [%s]), sub_atom(%s, 1, %d, 2, %s)" % (
            H("L"), cps([8364] + cp + [121, 122]), H("L"), n, A))
    if "char_code" in have:
        add("char_code", lambda A, H: "char_code(%s, %d)" % (A, cp[0]))
    if "read_term" in have:
        src = [ord(c) for c in "(" + qa(cp) + ") . "]
        add("read_term", lambda A, H: "atom_codes(%s, [%s]), atom_chars(%s, %s), read_term_from_chars(%s, %s, [])" % (
            H("Q"), cps(src), H("Q"), H("Cs"), H("Cs"), A))
    if "functor" in have:
        add("functor", lambda A, H: "atom_codes(%s, [%s]), %s =.. [%s, x], functor(%s, %s, _)" % (
            H("F"), cps(cp), H("T"), H("F"), H("T"), A))
    if "write_chars" in have:
        add("write_chars", lambda A, H: "atom_codes(%s, [%s]), write_term_to_chars(%s, [], %s), atom_chars(%s, %s)" % (
            H("W"), cps(cp), H("W"), H("Cs"), A, H("Cs")))
    if "assert" in have:
        add("assert", lambda A, H: "atom_codes(%s, [%s]), assertz(c21_dyn_%d(%s)), retract(c21_dyn_%d(%s))" % (
            H("D"), cps(cp), t, H("D"), t, A))
    if "number_codes" in have:
        add("number_codes", lambda A, H: "number_codes(%s, [%s]), number_codes(%s, %s), atom_codes(%s, %s)" % (
            H("N"), cps(cp), H("N"), H("Cs"), A, H("Cs")))
    return out


def build_query(v, t):
    paths = path_goals(v, t)
    k = len(paths)
    keys, pos = idx_keys(v)
    q = ", ".join(g for _, g in paths)
    q += ", As = [%s]" % ",".join("A%d" % (i + 1) for i in range(k))
    q += (", findall(p(I,J,E,U,O), (nth1(I,As,X), nth1(J,As,Y), I < J, (X==Y->E=y;E=n), (X=Y->U=y;U=n), compare(O,X,Y)), Pairs)")
    q += (", findall(q(I,Ks,L,Cs), (nth1(I,As,X), catch(findall(K, c21_idx_%d(X,K), Ks),_,Ks=err), "
          "catch(atom_length(X,L),_,L=err), catch(atom_codes(X,Cs),_,Cs=err)), Per)" % t)
    nbs = v["nbrs"]
    q += "".join(", atom_codes(N%d, [%s])" % (j + 1, cps(nb["text"])) for j, nb in enumerate(nbs))
    q += ", Ns = [%s]" % ",".join("N%d" % (j + 1) for j in range(len(nbs)))
    q += (", findall(n(I,J,E,U,O,O2,Ks), (nth1(I,As,X), nth1(J,Ns,Y), (X==Y->E=y;E=n), (X=Y->U=y;U=n), compare(O,X,Y), "
          "(X @< Y -> O2 = lt ; O2 = ge), findall(K, c21_idx_%d(Y,K), Ks)), Nb)" % t)
    q += ", findall(K, c21_idx_%d(_,K), All)." % t
    return q, [p for p, _ in paths]


def items(t):
    out = []
    while t[0] == 'c' and t[1] == '.' and len(t[2]) == 2:
        out.append(t[2][0])
        t = t[2][1]
    return out


def codes_of(t):
    try:
        return [x[1] for x in items(t)]
    except Exception:
        return None


def static_table():
    """the generated STRINGS table of the build under test (None when not found)"""
    best = None
    for p in glob.glob(os.path.join(common.HARNESS, "target", "debug", "build", "scryer-prolog-*", "out", "static_atoms.rs")):
        if best is None or os.path.getmtime(p) > os.path.getmtime(best):
            best = p
    if not best:
        return None
    s = open(best, encoding="utf-8").read()
    m = re.search(r"static STRINGS\s*:\s*\[\s*&\s*str\s*;\s*\d+\s*usize\s*\]\s*=\s*\[(.*?)\]\s*;", s, re.S)
    if not m:
        return None
    out = set()
    for lit in re.findall(r'"((?:[^"\\]|\\.)*)"', m.group(1)):
        try:
            out.add(json.loads('"' + lit.replace("\\0", "\\u0000").replace("\\'", "'") + '"'))
        except Exception:
            pass
    return out


def check_text(rep, v, t, q, names, out):
    cp = v["text"]
    name = "%s (%s, %d bytes, %d chars)" % (qa(cp), v["cls"], len(v["bytes"]), len(cp))
    det = {"vector": v, "program": program(v, t), "query": q, "paths": names, "t": t}

    def bad(sig, **kw):
        d = dict(det)
        d.update(kw)
        rep.violation("text=%s: %s" % (name, sig), d)

    if "panic" in out:
        bad("panic %s" % out["panic"])
        return
    a = out.get("a", [])
    if not (len(a) == 1 and isinstance(a[0], dict) and "b" in a[0]):
        bad("query did not succeed once: %r" % (a,))
        return
    b = a[0]["b"]
    try:
        pairs = items(terms.from_h(b["Pairs"]))
        per = items(terms.from_h(b["Per"]))
        nb = items(terms.from_h(b["Nb"]))
        allk = codes_of(terms.from_h(b["All"]))
    except Exception as e:   # noqa
        bad("unreadable answer (%s)" % e)
        return
    k = len(names)
    keys, pos = idx_keys(v)
    blen = len(v["bytes"])
    feat = (v["cls"], min(blen, 9), blen != len(cp), 0 in cp)
    # every path produced an atom with this text, this length, selecting this clause
    if len(per) != k:
        bad("expected %d path results got %d" % (k, len(per)))
    for it in per:
        i, ks, ln, cs = it[2]
        pname = names[i[1] - 1]
        rep.case(("path", pname, feat))
        created = b.get("A%d" % i[1])
        if created is None or not (created.get("a") == txt(cp) or (txt(cp) == "[]" and created.get("l") == [])):
            bad("path %s did not produce the atom: %s" % (pname, json.dumps(created, ensure_ascii=False)[:200]))
            continue
        if codes_of(cs) != cp or ln != ('i', len(cp)):
            bad("path %s: atom_codes/atom_length of the created atom give %s / %s" % (pname, terms.show(cs)[:120], terms.show(ln)))
        if codes_of(ks) != [pos]:
            bad("path %s: first-argument indexing selects clauses %s, expected [%d]" % (pname, terms.show(ks), pos))
    # all pairs of paths: identical
    if len(pairs) != k * (k - 1) // 2:
        bad("expected %d path pairs got %d" % (k * (k - 1) // 2, len(pairs)))
    for it in pairs:
        i, j, e, u, o = it[2]
        p1, p2 = names[i[1] - 1], names[j[1] - 1]
        rep.case(("pair", p1, p2, v["cls"]))
        if (e[1], u[1], o[1]) != ("y", "y", "="):
            bad("paths %s vs %s: ==:%s unify:%s compare:%s, expected identical atoms" % (p1, p2, e[1], u[1], o[1]))
    # neighbours at edit distance 1: different atoms, ordered by code points
    nbs = v["nbrs"]
    if len(nb) != k * len(nbs):
        bad("expected %d neighbour comparisons got %d" % (k * len(nbs), len(nb)))
    for it in nb:
        i, j, e, u, o, o2, ks = it[2]
        pname = names[i[1] - 1]
        other = nbs[j[1] - 1]
        rep.case(("nbr", v["cls"], other["cls"], other["cmp"], len(other["text"]) - len(cp)))
        want = (other["cmp"], "lt" if other["cmp"] == "<" else "ge")
        if (e[1], u[1]) != ("n", "n") or (o[1], o2[1]) != want:
            bad("path %s vs neighbour %s: ==:%s unify:%s compare:%s @<:%s, expected different atoms ordered %s" % (
                pname, qa(other["text"]), e[1], u[1], o[1], o2[1], other["cmp"]))
        wantk = [keys.index(other["text"]) + 1] if other["text"] in keys else []
        if codes_of(ks) != wantk:
            bad("neighbour %s: first-argument indexing selects clauses %s, expected %s" % (qa(other["text"]), terms.show(ks), wantk))
    if allk != list(range(1, len(keys) + 1)):
        bad("unbound first argument enumerates clauses %s" % (allk,))


def make_jobs(todo, gen):
    jobs, meta = [], {}
    for bi in range(0, len(todo), BATCH):
        batch = todo[bi:bi + BATCH]
        steps = [{"q": LIBS}, {"consult": "".join(program(v, t) for t, v in batch)}]
        info = []
        for t, v in batch:
            q, names = build_query(v, t)
            steps.append({"q": q, "max": 2})
            info.append((t, v, q, names))
        jid = "g%d-%d" % (gen, bi)
        jobs.append({"id": jid, "steps": steps, "timeout": 300, "fresh": True})
        meta[jid] = info
    return jobs, meta


def run(tier):
    rep = Report(PROP, tier, META["level"])
    rep.rule = ("TLC enumerates texts: every text over {a,U+E9,U+20AC,U+1F600} with 0..7 (quick) / 0..12 (thorough) UTF-8 bytes "
                "(inline limit 6), all texts with NUL over {a,NUL,U+E9} up to 4 / 7 bytes, 16 predefined atoms ([], '.', append, is, true, dynamic, '', \"\\0\", ...), digit "
                "strings, texts needing quotes; per text up to 15 creation paths, all pairs compared, 3..8 neighbours at edit "
                "distance 1. distinct = (pair of paths, representation class) + (class, neighbour class, order) + (path, text features)")
    res, vecs = common.generate("MC_C21", "MC_C21_%s.cfg" % tier, workers=8, timeout=1800,
                                key=lambda v: json.dumps(v["text"]))
    rep.add_tlc(res)
    if len(vecs) < 100:
        raise common.ToolError("too few texts generated: %d" % len(vecs))
    for v in vecs:
        v["nbrs"] = sorted(v["nbrs"], key=lambda n: n["text"])
        v["splits"] = sorted(v["splits"])
    # oracle self-check: Python's own UTF-8 and ordering against the specification's
    for v in vecs:
        s = txt(v["text"])
        if list(s.encode("utf-8", "surrogatepass")) != v["bytes"]:
            raise common.ToolError("Utf8Seq self-check failed for %r" % (v["text"],))
        inl = 1 <= len(v["bytes"]) <= 6 and 0 not in v["bytes"]
        if (v["cls"] == "inlined") != inl:
            raise common.ToolError("classification self-check failed for %r" % (v["text"],))
        for n in v["nbrs"]:
            want = "<" if v["text"] < n["text"] else ">"
            if n["cmp"] != want:
                raise common.ToolError("order self-check failed for %r vs %r" % (v["text"], n["text"]))
    # the spec's claim which sample texts are in the generated static table, against the build under test
    tbl = static_table()
    if tbl is not None:
        claimed = [txt(v["text"]) for v in vecs if v["cls"] == "static"]
        missing = [s for s in claimed if s not in tbl]
        rep.extra["static_texts_claimed"] = len(claimed)
        rep.extra["static_texts_missing_from_STRINGS"] = missing
        if missing:
            rep.assumptions.append("texts %r are modelled as static but are absent from the generated STRINGS table of this "
                                   "build (they are dynamic there; the identity property is unaffected)" % (missing,))
    todo = list(enumerate(vecs))
    gen = 0
    done = 0
    while todo:
        jobs, meta = make_jobs(todo, gen)
        results = run_jobs(jobs, workers=8, job_timeout=300)
        todo = []
        for job in jobs:
            info = meta[job["id"]]
            r = results.get(job["id"], {"crash": "missing"})
            if "crash" in r:
                if r["crash"] == "timeout" or "died" in str(r["crash"]):
                    rep.violation("job with texts %s: %s" % ([qa(v["text"]) for _, v, _, _ in info][:5], r["crash"]),
                                  {"job": job, "result": r})
                    continue
                raise common.ToolError("harness job %s: %s" % (job["id"], r["crash"]))
            outs = r["res"][2:]
            for n, ((t, v, q, names), out) in enumerate(zip(info, outs)):
                check_text(rep, v, t, q, names, out)
                done += 1
                if "panic" in out:
                    # the machine was rebuilt without the consulted program: run the rest of the batch again
                    todo += [(t2, v2) for t2, v2, _, _ in info[n + 1:]]
                    break
        gen += 1
        if gen > 50:
            raise common.ToolError("too many re-runs after panics")
    for v in vecs[:: max(1, len(vecs) // 5)]:
        rep.sample({"text": txt(v["text"]), "class": v["cls"], "bytes": len(v["bytes"]), "paths": len(path_goals(v, 0)),
                    "neighbours": len(v["nbrs"])})
    rep.exhaustive = True
    rep.traces = done
    rep.assumptions += ["TLC, Text.tla/AtomRep.tla (UTF-8, classification and order cross-checked against Python in this run)",
                        "canonical quoting of atom literals for the literal and read_term paths; LeafAnswer projection of the harness",
                        "representation identity is observed through unification and first-argument indexing (raw cell), "
                        "not by reading Atom.index"]
    return rep.finish()


def replay(path):
    d = json.load(open(path))
    det = d["detail"]
    if "query" not in det:
        print(json.dumps(det, indent=1, default=str)[:4000])
        return 0
    jobs = [{"id": 0, "steps": [{"q": LIBS}, {"consult": det["program"]}, {"q": det["query"], "max": 2}], "timeout": 300,
             "fresh": True}]
    r = run_jobs(jobs, workers=1)[0]
    rep = Report(PROP, "replay", META["level"])
    rep.known = []
    if "res" in r:
        check_text(rep, det["vector"], det["t"], det["query"], det["paths"], r["res"][2])
    print(json.dumps({"signature": d["signature"], "program": det["program"], "query": det["query"],
                      "result": r.get("res", r)[2] if "res" in r else r}, indent=1, default=str, ensure_ascii=False)[:6000])
    for sig, _ in rep.violations[:10]:
        print("still violated: " + sig)
    return 1 if rep.violations or "res" not in r else 0
