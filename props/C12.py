"""C12 - Exceptions unwind precisely and leave the machine consistent."""
import json
import os
from lib import common, terms
from lib.common import Report, run_jobs, generate, tlc_ok
from lib.prolog_replay import Prog, features, unrename_term

PROP = "C12"
META = {
    "level": "model_checking",
    "text": "spec/PrologExt.tla extends the abstract ISO machine spec/Prolog.tla (catch/3 frames as store snapshots, throw/1 "
            "copies the ball and unwinds to the innermost active catch whose catcher unifies, re-throws otherwise) with "
            "setup_call_cleanup/3 (handler entries on the choice-point stack; cleanup on deterministic exit, failure, cut and "
            "exception) and the builtin error sources atom_length/2 and arg/3. TLC runs the machine on every program of four "
            "families (one catch: 22 throwing/non-throwing goals x 8 catchers x 6 recoveries x 10 contexts; catch in catch; "
            "setup_call_cleanup: setups x goals x cleanups x continuations x wrappers; two handlers nested/in sequence) and on "
            "random nestings of depth <= 3 (simulation), checks at every step the machine invariants and that each cleanup is "
            "started at most once and exactly once in every terminal state, and prints answers, top-level ball and the log of "
            "log/1 goals. Each behaviour is replayed on the real system (consult + run_query, log/1 = assertz(logged(T))) and "
            "answers, ball (Formal of error terms) and log sequence are compared up to variable renaming.",
    "note": "Trusted: TLC; spec/Prolog.tla + spec/PrologExt.tla as the reading of ISO 7.8.9/7.8.10 and of the N215 "
            "setup_call_cleanup draft; the canonical renderer. The Context argument of error/2 terms is not compared. "
            "What an error raised by a cleanup goal does while a cut or another exception is being processed is not stated by "
            "the property: such behaviours (flag unspec) are executed (crash/hang would be reported) but a differing outcome is "
            "only counted. Goals that leave choice points use disjunctions or facts called with an unbound argument, so that "
            "determinism detection (first-argument indexing) is not an observable. The B-level model of the block registers and "
            "hook-based trace validation are not part of this round.",
    "technique": "TLA+ abstract machine explored by TLC (exhaustive small scope + simulation); behaviours replayed into the "
                 "real engine (spec -> impl)",
}

HELPERS = """:- use_module(library(iso_ext)).
:- use_module(library(lists)).
:- dynamic(logged/1).
log(T) :- assertz(logged(T)).
t(A) :- ( A = 1 ; A = 2 ; A = 3 ).
"""
RENAME = [("p", 3)]


def cap(n):
    """worker count, optionally capped by VERIF_MAX_WORKERS (shared machines)"""
    try:
        m = int(os.environ.get("VERIF_MAX_WORKERS", "0"))
    except ValueError:
        m = 0
    return min(n, m) if m > 0 else n


MAXANS = 20
STEPS_PER = 4      # consult, reset log, query, read log
TMO_MS = 4000


def norm_tla(t):
    """error(F, Context) -> error(F, '$ctx') in a spec term (JSON image)"""
    if isinstance(t, dict) and t.get("t") == "c":
        args = [norm_tla(x) for x in t["a"]]
        if t["n"] == "error" and len(args) == 2:
            args[1] = {"t": "a", "n": "$ctx", "i": 0, "a": []}
        return {"t": "c", "n": t["n"], "i": 0, "a": args}
    return t


def norm_h(t):
    """the same on a harness term"""
    if isinstance(t, dict):
        if "c" in t:
            args = [norm_h(x) for x in t["args"]]
            if t["c"] == "error" and len(args) == 2:
                args[1] = {"a": "$ctx"}
            return {"c": t["c"], "args": args}
        if "l" in t:
            return {"l": [norm_h(x) for x in t["l"]]}
    return t


def norm_vec(v):
    v = dict(v)
    v["ans"] = [[norm_tla(t) for t in a] for a in v["ans"]]
    v["ball"] = norm_tla(v["ball"])
    v["balts"] = [norm_tla(t) for t in v.get("balts", [])]
    v["out"] = [norm_tla(t) for t in v["out"]]
    return v


def norm_res(r):
    if not isinstance(r, dict) or "a" not in r:
        return r
    out = []
    for a in r["a"]:
        if isinstance(a, dict):
            if "b" in a:
                a = {"b": {k: norm_h(x) for k, x in a["b"].items()}}
            elif "e" in a:
                a = {"e": norm_h(a["e"])}
            elif "x" in a:
                a = {"x": norm_h(a["x"])}
        out.append(a)
    r = dict(r)
    r["a"] = out
    return r


def list_items(t):
    items = []
    while t[0] == 'c' and t[1] == '.' and len(t[2]) == 2:
        items.append(t[2][0])
        t = t[2][1]
    return items, t


def compare_log(pr, logres, exp):
    """log entries are independent copies: compare entry by entry up to renaming"""
    if "panic" in logres:
        return "log: panic " + logres["panic"]
    try:
        got = unrename_term(terms.from_h(norm_h(logres["a"][0]["b"]["L"])), pr.inv)
    except Exception:
        return "log unreadable: %s" % (str(logres)[:200])
    gl, tail = list_items(got)
    el = [terms.from_tla(t) for t in exp]
    if tail != terms.NIL or len(gl) != len(el) or not all(terms.variant(x, y) for x, y in zip(el, gl)):
        return "log: expected %s got %s" % (terms.show(terms.mk_list(el)), terms.show(got))
    return None


def make_prog(v, uniq, rename=RENAME):
    pr = Prog(norm_vec(v), uniq, rename)
    # the list [a,b] of the spec stands for the string "ab" (packed representation in the real system)
    pr.text = pr.text.replace("['a','b']", '"ab"')
    pr.qtext = pr.qtext.replace("['a','b']", '"ab"')
    return pr


def check_one(pr, rs, maxans=MAXANS):
    """rs: results of the steps [consult, reset, query, log] of one program; returns None or a description"""
    cres, qres, logres = rs[0], rs[2], rs[3]
    if "panic" in cres:
        return "panic while loading: " + cres["panic"]
    if qres.get("tmo"):
        return "timeout (the query did not finish within %d ms; normal time is milliseconds)" % TMO_MS
    if "panic" in qres:
        return "panic: " + qres["panic"]
    d = pr.compare(norm_res(qres), maxans)
    if d:
        return "outcome: " + d
    return compare_log(pr, logres, pr.vec["out"])


def run_batches(vecs, helpers, mkprog, batch=100, workers=None):
    """replay vectors in batches sharing one Machine; programs after a panic/timeout (Machine rebuilt) and programs of a
    crashed batch are re-run alone. Yields (prog, description-or-None, crashed?)"""
    workers = workers or cap(8)
    jobs, progs = [], {}
    for bi in range(0, len(vecs), batch):
        steps = [{"consult": helpers}]
        for j, v in enumerate(vecs[bi:bi + batch]):
            pr = mkprog(v, "%d" % j)
            progs[(bi, j)] = pr
            steps.append({"consult": pr.text})
            steps.append({"q": "retractall(logged(_)).", "max": 2})
            steps.append({"q": pr.qtext, "max": MAXANS + 2, "tmo_ms": TMO_MS})
            steps.append({"q": "findall(T, logged(T), L).", "max": 2})
        jobs.append({"id": bi, "steps": steps, "timeout": 240, "fresh": True})
    results = run_jobs(jobs, workers=workers, job_timeout=240)
    out = []

    def alone(bi, js):
        single = [{"id": "%d-%d" % (bi, j), "fresh": True, "timeout": 40,
                   "steps": [{"consult": helpers}] + jobsteps[bi][1 + STEPS_PER * j: 1 + STEPS_PER * (j + 1)]} for j in js]
        rs = run_jobs(single, workers=workers, job_timeout=40)
        for j in js:
            pr = progs[(bi, j)]
            rr = rs.get("%d-%d" % (bi, j), {"crash": "missing"})
            if "crash" in rr:
                out.append((pr, "crash: %s (non-termination or abort of the engine)" % rr["crash"], True))
            else:
                out.append((pr, check_one(pr, rr["res"][1:]), False))

    jobsteps = {job["id"]: job["steps"] for job in jobs}
    for job in jobs:
        bi = job["id"]
        n = (len(job["steps"]) - 1) // STEPS_PER
        r = results.get(bi, {"crash": "missing"})
        if "crash" in r:
            alone(bi, list(range(n)))
            continue
        rerun, poisoned = [], False
        for j in range(n):
            pr = progs[(bi, j)]
            rs = r["res"][1 + STEPS_PER * j: 1 + STEPS_PER * (j + 1)]
            if poisoned:
                rerun.append(j)
                continue
            out.append((pr, check_one(pr, rs), False))
            if any(("panic" in x or x.get("tmo")) for x in rs):
                poisoned = True
        if rerun:
            alone(bi, rerun)
    return out


def body_text(v):
    return terms.text(terms.from_tla(v["prog"][0]["b"])).replace("['a','b']", '"ab"')


def cov_class(v):
    f = v["fam"]
    k = f[0]
    if k == "A":
        return ("A", f[1], f[4], v["status"])
    if k == "B":
        return ("B", f[1], f[3], f[4], v["status"])
    if k == "C":
        return ("C", f[2], f[3], f[4], f[5], v["status"])
    if k == "D":
        return ("D",) + tuple(f[1:]) + (v["status"],)
    return ("R", ",".join(sorted(features(terms.from_tla(v["prog"][0]["b"])))), v["status"])


def run(tier):
    rep = Report(PROP, tier, "model_checking")
    quick = tier == "quick"
    rep.rule = ("exhaustive: all members of the families A (catch(T,K,R) in a context: %s), B (catch in catch), C "
                "(setup_call_cleanup(S,G,C), continuation, wrapper) and D (two cleanup handlers in sequence / nested / nested and "
                "cut) of MC_C12; simulation: random bodies of 1-3 goals of nesting depth <= 3 over catch, throw, builtin errors, "
                "cut, disjunction, if-then-else, negation, findall, once, setup_call_cleanup. distinct = family x "
                "(goal kind, context/continuation, outcome status); random bodies: set of constructs x status"
                % ("5 contexts, all 10 for 13 of the 22 goals" if quick else "22 goals x 8 catchers x 6 recoveries x 10 contexts"))
    res, vecs = generate("MC_C12", "MC_C12_exh_%s.cfg" % tier, workers=cap(8 if quick else 14), timeout=3400)
    rep.add_tlc(res)
    nexh = len(vecs)
    sims = common.simulate_parallel("MC_C12", "MC_C12_sim_%s.cfg" % tier, procs=cap(4 if quick else 12),
                                    num=250 if quick else 3000, depth=820, timeout=3400)
    seen = set(json.dumps(v["prog"], sort_keys=True) for v in vecs)
    for sim in sims:
        tlc_ok(sim, "C12 simulation")
        rep.add_tlc(sim)
        for v in sim.printed():
            k = json.dumps(v["prog"], sort_keys=True)
            if k not in seen:
                seen.add(k)
                vecs.append(v)
    if not vecs:
        raise common.ToolError("no vectors")
    unspec_diff = 0
    unspec_n = 0
    for pr, d, crashed in run_batches(vecs, HELPERS, make_prog):
        v = pr.vec
        rep.case(cov_class(v))
        if v["unspec"]:
            unspec_n += 1
        if d is None:
            continue
        bad = crashed or "panic" in d or "timeout" in d
        if v["unspec"] and not bad:
            unspec_diff += 1
            continue
        kind = "crash" if bad else ("log" if d.startswith("log") else "outcome")
        tags = (" nested-cleanup" if v.get("nested") else "") + (" cut-in-ite-condition" if v.get("condcut") else "")
        rep.violation("%s fam=%s%s body=%s: %s" % (kind, v["fam"][0], tags, body_text(v), d),
                      {"vector": v, "diff": d, "program": pr.text, "query": pr.qtext})
    for v in vecs[:: max(1, len(vecs) // 5)]:
        rep.sample({"body": body_text(v), "status": v["status"],
                    "expected_answers": [terms.show(terms.from_tla({"t": "c", "n": "ans", "i": 0, "a": a})) for a in v["ans"]],
                    "expected_ball": terms.show(terms.from_tla(v["ball"])),
                    "expected_log": [terms.show(terms.from_tla(t)) for t in v["out"]]})
    rep.traces = len(vecs)
    rep.exhaustive = False
    rep.extra["exhaustive_part"] = "%d programs: every member of the families A-D of MC_C12 (Mode=exh) was enumerated and replayed" % nexh
    rep.extra["simulated_programs"] = len(vecs) - nexh
    rep.extra["unspecified_behaviours"] = {"executed": unspec_n, "outcome_differs": unspec_diff}
    rep.extra["cleanup_instances_checked_exactly_once"] = sum(v["ncl"] for v in vecs)
    rep.assumptions = ["TLC", "spec/Prolog.tla + spec/PrologExt.tla as the reading of ISO 7.8.9/7.8.10 and the setup_call_cleanup draft",
                       "canonical renderer and LeafAnswer projection", "log/1 realised as assertz(logged(T))"]
    return rep.finish()


def replay(path):
    d = json.load(open(path))
    v = d["detail"]["vector"]
    pr = make_prog(v, "0")
    r = run_jobs([{"id": 0, "fresh": True, "timeout": 40, "steps": [
        {"consult": HELPERS}, {"consult": pr.text}, {"q": "retractall(logged(_)).", "max": 2},
        {"q": pr.qtext, "max": MAXANS + 2, "tmo_ms": TMO_MS}, {"q": "findall(T, logged(T), L).", "max": 2}]}],
        workers=1, job_timeout=40)[0]
    print(pr.text, pr.qtext)
    print("expected: status", v["status"], "answers",
          [terms.show(terms.from_tla({"t": "c", "n": "ans", "i": 0, "a": a})) for a in v["ans"]],
          "ball", terms.show(terms.from_tla(v["ball"])))
    print("expected log", [terms.show(terms.from_tla(t)) for t in v["out"]])
    if "crash" in r:
        print("crash:", r["crash"])
        return 1
    print(json.dumps(r["res"][3:], indent=1)[:3000])
    dd = check_one(pr, r["res"][1:])
    print("diff:", dd)
    return 1 if dd else 0
