"""C35 - Reloading a program is idempotent."""
import json
import os
import re
from lib import common, terms
from lib.common import Report, run_tlc, run_jobs, generate

PROP = "C35"
META = {
    "level": "model_checking",
    "text": "spec/Loader.tla: per-owner ownership of clauses, declarations and operators; LoadText(src, text) retracts what the source "
            "owned and adds the new content (a source has an identity of its own only if its name is an existing file, every other "
            "name is the anonymous owner `user`; non-multifile predicates are redefined as a whole, multifile ones per owner). TLC "
            "(MC_C35) checks the laws of the specification (reload = identity, replacement, independence of owners) on every state of "
            "every enumerated session (one Machine: all history shapes of 3-6 loads by 2 sources over 3 texts, concatenated; texts from a "
            "clause grammar x feature flags: dynamic, discontiguous, "
            "multifile, op/3, initialization/1, floats, bignums, strings, long atoms; load_module_string and consult_module_string; "
            "string-named and file-named sources) and prints, after every load, the outcome of a probe query per predicate computed by "
            "the abstract machine Prolog.tla. Each session is replayed on a fresh Machine (answers compared), and the footprint counters "
            "read before/after every load (verif-hooks accessor) are validated by TLC against the specification (Trace_C35: a load "
            "that is the identity on the abstract state must leave heap, atom table, stack, trail and loader state unchanged).",
    "note": "Trusted: TLC; Prolog.tla; the text renderer of the driver; the footprint accessor. Only the counters named by the property "
            "(heap cells, atoms, stack top, trail, load contexts, inactive load states) decide; the float table and the code area are "
            "reported in the evidence only. Texts whose directives are not declarations (goal directives are rejected by the loader) "
            "predicates defined by two different file-backed sources (ownership contested, unspecified), and a predicate of a "
            "string-named source that one text declares discontiguous and another defines without the declaration (the loader then "
            "extends instead of redefining it; no document prescribes either) are outside the model. After the first wrong answer of a "
            "session its remaining loads are not judged (the real state has left the specified one).",
    "technique": "TLA+ loader specification over the abstract machine, explored by TLC; histories replayed (spec -> impl) and footprint "
                 "traces validated by TLC (impl -> spec)",
}

PFX = "zq35_"
SRCDIR = os.path.join(common.WORK, "c35")
ASSERTED = ("heap_cells", "atoms_with_prefix", "stack_top", "trail", "load_contexts", "inactive_load_states")


# ------------------------------------------------------------------------------------------------
# rendering (TLA text records -> Prolog source text)
# ------------------------------------------------------------------------------------------------

def rt(t):
    """one TLA term as source text: like terms.text, but strings as double-quoted literals and ===> infix"""
    tag = t["t"]
    if tag == "s":
        return '"%s"' % terms.name_of(t["n"]).replace("\\", "\\\\").replace('"', '\\"')
    if tag == "c" and terms.name_of(t["n"]) == "===>" and len(t["a"]) == 2:
        return "%s ===> %s" % (rt(t["a"][0]), rt(t["a"][1]))
    if tag == "c":
        return "%s(%s)" % (terms.quote_atom(terms.name_of(t["n"])), ",".join(rt(x) for x in t["a"]))
    return terms.text(terms.from_tla(t))


def render_text(text):
    out = []
    for d in text["dirs"]:
        k = d["d"]
        if k in ("dynamic", "discontiguous", "multifile"):
            out.append(":- %s(%s/%d)." % (k, terms.quote_atom(d["n"]), d["ar"]))
        elif k == "op":
            out.append(":- op(%d, xfx, %s)." % (d["ar"], d["n"]))
        elif k == "initialization":
            out.append(":- initialization(%s)." % d["n"])
        else:
            raise common.ToolError("unknown directive %r" % (d,))
    for c in text["cl"]:
        h, b = rt(c["h"]), c["b"]
        if b["t"] == "a" and b["n"] == "true":
            out.append(h + ".")
        else:
            out.append("%s :- %s." % (h, rt(b)))
    return "\n".join(out) + "\n"


def src_name(op):
    if op["kind"] == "file":
        return os.path.join(SRCDIR, "%ssrc_%s.pl" % (PFX, op["src"]))
    if op["api"] == "consult" and op["src"] == "s1":
        return "user"
    return "%ssrc_%s" % (PFX, op["src"])


def probe_text(key, kind="call"):
    name, ar = key
    if kind == "clause":
        return "catch(findall('-'(X,B), clause(%s(X), B), L), error(E, _), true)." % terms.quote_atom(name)
    if ar == 1:
        return "catch(findall(X, %s(X), L), error(E, _), true)." % terms.quote_atom(name)
    return "catch(findall('-'(X,Y), %s(X,Y), L), error(E, _), true)." % terms.quote_atom(name)


def make_job(hid, v):
    steps = []
    for j, op in enumerate(v["ops"]):
        text = render_text(v["texts"][op["slot"] - 1])
        steps.append({"footprint": PFX})
        steps.append({"consult" if op["api"] == "consult" else "load": text, "module": src_name(op)})
        steps.append({"footprint": PFX})
        for p in probes_of(v, j):
            steps.append({"q": probe_text(p["key"], p.get("kind", "call")), "max": 3})
    return {"id": hid, "fresh": True, "steps": steps, "timeout": 300}


def probes_of(v, j):
    """the probe outcomes expected after step j: an empty list in the vector stands for 'as after the previous load'
    (the specification marks the load as the identity on the state)"""
    while j > 0 and not v["steps"][j]["probes"]:
        if not v["steps"][j]["noop"]:
            raise common.ToolError("vector without probes at a state-changing step")
        j -= 1
    return v["steps"][j]["probes"]


def compare_probe(p, out):
    """expected probe outcome (spec) vs harness result; None if equal, else a description"""
    if p["status"] != "done" or p["n"] != 1:
        raise common.ToolError("the specification did not settle probe %r: %s/%s" % (p["key"], p["status"], p["n"]))
    if "panic" in out:
        return "panic: " + out["panic"]
    got = [a for a in out.get("a", []) if a != "F"]
    if len(got) != 1 or not isinstance(got[0], dict) or "b" not in got[0]:
        return "expected one answer, got %s" % (json.dumps(out.get("a"))[:200])
    b = got[0]["b"]
    for var, exp in (("L", p["l"]), ("E", p["e"])):
        e = terms.from_tla(exp)
        if e[0] == 'v':
            if var in b:
                return "%s should stay unbound, got %s" % (var, terms.show(terms.from_h(b[var])))
        else:
            if var not in b:
                return "expected %s = %s, unbound (%s)" % (var, terms.show(e), json.dumps(b)[:160])
            g = terms.from_h(b[var])
            if not terms.variant(e, g):
                return "expected %s = %s, got %s" % (var, terms.show(e), terms.show(g))
    return None


def hist_text(v, upto=None):
    """the session up to step `upto` (1-based), as the slot sequence: 1 = s1 loads T1, 2 = s1 loads T2, 3 = s2 loads T3"""
    ops = v["ops"] if upto is None else v["ops"][:upto]
    return "s1=%s/%s s2=%s/%s%s slots %s" % (v["apis"][0], v["kinds"][0], v["apis"][1], v["kinds"][1], " same-family" if v["same"] else "",
                                           "".join(str(op["slot"]) for op in ops))


def flags_of(v, op):
    return sorted(v["codes"][op["slot"] - 1]["fl"])


def validate(path, tag="0"):
    tres = run_tlc("Trace_C35", "Trace_C35.cfg", workers=1, dfs=True, env_extra={"TRACE": path}, timeout=7200,
                   tag="Trace_C35-%s" % tag, xmx="3g")
    if tres.error and not tres.violated:
        raise common.ToolError("Trace_C35 failed: %s\n%s" % (tres.error, "\n".join(tres.lines[-30:])))
    if tres.violated:
        m = re.search(r'<<"REJECT", (\d+)>>', tres.out)
        raise common.ToolError("Trace_C35 did not consume the trace (stopped at line %s)\n%s" % (
            m.group(1) if m else "?", "\n".join(tres.lines[-30:])))
    return tres, [x for x in tres.printed() if isinstance(x, dict) and "ctr" in x]


def validate_sessions(rep, sessions, tier, procs):
    """sessions: list of event lists (each starting with a reset). The sessions are independent, so the trace is cut into
    `procs` files validated by as many TLC processes. Returns [(event, verdict)]."""
    import threading
    procs = max(1, min(procs, len(sessions)))
    chunks = [sessions[i::procs] for i in range(procs)]
    out, errs, paths = [None] * procs, [], []

    def one(i):
        path = os.path.join(SRCDIR, "trace-%s-%d-%d.ndjson" % (tier, os.getpid(), i))
        paths.append(path)
        index = [e for s in chunks[i] for e in s]
        with open(path, "w") as f:
            for e in index:
                f.write(json.dumps({k: x for k, x in e.items() if not k.startswith("_")}) + "\n")
        try:
            tres, verdicts = validate(path, "%s-%d" % (tier, i))
            out[i] = (tres, [(index[vd["line"] - 1], vd) for vd in verdicts])
        except Exception as e:  # noqa
            errs.append(e)
    ths = [threading.Thread(target=one, args=(i,)) for i in range(procs)]
    for t in ths:
        t.start()
    for t in ths:
        t.join()
    if errs:
        raise errs[0]
    res = []
    for tres, vs in out:
        rep.add_tlc(tres)
        res += vs
    return res, paths


def execute(vecs, workers):
    os.makedirs(SRCDIR, exist_ok=True)
    for s in ("s1", "s2"):
        p = os.path.join(SRCDIR, "%ssrc_%s.pl" % (PFX, s))
        if not os.path.exists(p):
            with open(p, "w") as f:
                f.write("% placeholder: gives the source name a file identity; the loaded text comes from the harness\n")
    for v in vecs:      # a probe the abstract machine did not finish (divergence) would also hang the real one: generator error
        for st in v["steps"]:
            for p in st["probes"]:
                if p["status"] != "done" or p["n"] != 1:
                    raise common.ToolError("the specification did not settle probe %r: %s/%s" % (p["key"], p["status"], p["n"]))
    jobs = [make_job(i, v) for i, v in enumerate(vecs)]
    return jobs, run_jobs(jobs, workers=workers, job_timeout=120)


def judge(rep, vecs, jobs, results, tier, procs=4):
    """answers (spec -> impl) and the footprint trace (impl -> spec)"""
    events, sessions = [], []
    rep.sessions = 0
    rep.cut = 0
    for hid, v in enumerate(vecs):
        r = results.get(hid, {"crash": "missing"})
        ht = hist_text(v)
        rep.sessions += 1
        if "crash" in r:
            rep.violation("session [%s] texts %s: %s" % (ht, json.dumps(v["codes"]), r["crash"]), {"vector": v, "crash": r["crash"]})
            continue
        res = r["res"]
        pos = 0
        hev = [{"ev": "reset"}]
        ok = True
        for j, op in enumerate(v["ops"]):
            st = v["steps"][j]
            fl = flags_of(v, op)
            pre, ld, post = res[pos], res[pos + 1], res[pos + 2]
            pos += 3
            where = "session [%s] step %d (T%d = fam %s cs %d flags %s)" % (
                hist_text(v, j + 1), j + 1, op["slot"], op["code"]["fam"], op["code"]["cs"], ",".join(fl) or "-")
            rep.case(("load", op["api"], op["kind"], "noop" if st["noop"] else "change", min(st["k"], 3), tuple(fl), op["code"]["cs"]))
            if "panic" in ld or "footprint" not in pre or "footprint" not in post:
                rep.violation("%s: the load panicked: %s" % (where, ld.get("panic", json.dumps(post)[:200])), {"vector": v, "step": j})
                ok = False
                break
            if ld.get("out"):
                rep.violation("%s: the load wrote %r" % (where, ld["out"][:200]), {"vector": v, "step": j, "out": ld["out"]})
            hev.append({"ev": "loaded", "src": op["src"], "kind": op["kind"], "api": op["api"],
                        "code": {"fam": op["code"]["fam"], "cs": op["code"]["cs"], "fl": fl},
                        "pre": pre["footprint"], "post": post["footprint"], "_h": hid, "_j": j})
            bad = []
            for p in probes_of(v, j):
                out = res[pos]
                pos += 1
                d = compare_probe(p, out)
                if d:
                    bad.append((p, d, out))
            if bad:
                # after the first divergence the real state is no longer the specified one: report the root cause (a predicate
                # of facts cannot owe its answers to another predicate, the rule predicates p/q can) and leave the session
                bad.sort(key=lambda x: ("_p_" in x[0]["key"][0] or "_q_" in x[0]["key"][0]))
                p, d, out = bad[0]
                kind = "reload" if st["noop"] else "load"
                rep.violation("answers after %s api=%s kind=%s pred=%s: %s; also differing: %s; %s" % (
                    kind, op["api"], op["kind"], p["key"][0], d, ",".join(x[0]["key"][0] for x in bad[1:]) or "-", where),
                    {"vector": v, "step": j, "probe": p, "got": out})
                ok = False
            if not ok:
                break
        # the events of a session whose replay broke off are still valid observations up to that point
        if not ok:
            rep.cut += 1
        sessions.append(hev)
        events += hev
    verdicts, paths = validate_sessions(rep, sessions, tier, procs)
    info = {}
    for e, vd in verdicts:
        v = vecs[e["_h"]]
        op = v["ops"][e["_j"]]
        fl = e["code"]["fl"]
        if not vd["asserted"]:
            info.setdefault("%s/%s" % (vd["ctr"], vd["kind"]), 0)
            info["%s/%s" % (vd["ctr"], vd["kind"])] += 1
            continue
        sig = "footprint counter=%s api=%s init=%d %s k=%d: %+d (%d -> %d) source kind=%s flags=%s cs=%d; session [%s] step %d" % (
            vd["ctr"], e["api"], 1 if "init" in fl else 0, vd["kind"], vd["k"], vd["got"] - vd["want"], vd["want"], vd["got"],
            e["kind"], ",".join(fl) or "-", e["code"]["cs"], hist_text(v, e["_j"] + 1), e["_j"] + 1)
        rep.violation(sig, {"vector": v, "step": e["_j"], "verdict": vd, "event": {k: x for k, x in e.items() if not k.startswith("_")}})
    rep.extra["events_validated"] = sum(1 for e in events if e["ev"] == "loaded")
    rep.extra["reloads_judged"] = sum(1 for e in events if e["ev"] == "loaded" and vecs[e["_h"]]["steps"][e["_j"]]["noop"]
                                      and vecs[e["_h"]]["steps"][e["_j"]]["k"] >= 2)
    rep.extra["informative_counter_changes_on_reload"] = info
    return paths, events


def binding_demo(rep, events, tier):
    """a corrupted observation must produce a verdict at that line; a dropped field must stop the validation"""
    seq = []
    for e in events:
        if e["ev"] == "reset":
            seq = [e]
        else:
            seq.append(e)
            if len(seq) >= 3 and all(seq[-1]["pre"][c] == seq[-1]["post"][c] for c in ASSERTED) and all(
                    x["ev"] == "reset" or {k: y for k, y in x.items() if k in ("src", "kind", "api", "code")} ==
                    {k: y for k, y in seq[1].items() if k in ("src", "kind", "api", "code")} for x in seq):
                break
    else:
        raise common.ToolError("no history suitable for the binding demonstration")
    bad = json.loads(json.dumps([{k: x for k, x in e.items() if not k.startswith("_")} for e in seq]))
    bad[-1]["post"]["trail"] += 1
    path = os.path.join(SRCDIR, "trace-%s-%d-corrupt.ndjson" % (tier, os.getpid()))
    with open(path, "w") as f:
        for e in bad:
            f.write(json.dumps(e) + "\n")
    tres, verdicts = validate(path)
    rep.add_tlc(tres)
    hit = [vd for vd in verdicts if vd["line"] == len(bad) and vd["ctr"] == "trail" and vd["asserted"]]
    if not hit:
        raise common.ToolError("binding demonstration failed: corrupted trail counter at line %d not reported (%r)" % (len(bad), verdicts[:3]))
    rep.extra["binding_demo"] = "trail counter of a reload event raised by one: Trace_C35 reported it at that line"
    os.remove(path)


def cap(n):
    """VERIF_MAXWORKERS limits the parallelism on a shared machine"""
    try:
        m = int(os.environ.get("VERIF_MAXWORKERS", "0"))
    except ValueError:
        m = 0
    return min(n, m) if m > 0 else n


def run(tier):
    rep = Report(PROP, tier, META["level"])
    rep.rule = ("every session of MC_C35: (source kinds str/str, file/file, str/file) x (API load/load, consult/consult, load/consult) x "
                "text triples (T1, T2 for source 1, T3 for source 2; feature-centred and clause-centred), each session = the concatenation "
                "of the history shapes (quick: 8 shapes of 4-6 loads = 39 loads; thorough: all 27 shapes of 3 loads + 3 of 5 = 96 loads) on "
                "one Machine; one evaluation = one load (answers of all probed predicates + footprint before/after); distinct = "
                "(api, source kind, reload or change, k, feature flags, clause set)")
    quick = tier == "quick"
    res, vecs = generate("MC_C35", "MC_C35_%s.cfg" % tier, workers=cap(8 if quick else 14), timeout=7200)
    rep.add_tlc(res)
    if not vecs:
        raise common.ToolError("no vectors")
    jobs, results = execute(vecs, cap(8 if quick else 14))
    paths, events = judge(rep, vecs, jobs, results, tier, procs=cap(8 if quick else 12))
    binding_demo(rep, events, tier)
    if not rep.violations:
        for p in paths:
            os.remove(p)
    for v in vecs[:: max(1, len(vecs) // 5)]:
        rep.sample({"history": hist_text(v), "T1": render_text(v["texts"][0]), "T2": render_text(v["texts"][1]),
                    "T3": render_text(v["texts"][2]),
                    "expected_after_last_load": {p["key"][0]: terms.show(terms.from_tla(p["l"] if p["l"]["t"] != "v" else p["e"]))
                                                 for p in probes_of(v, len(v["steps"]) - 1)}})
    rep.traces = len(vecs)
    rep.extra["sessions"] = len(vecs)
    rep.extra["sessions_left_after_first_wrong_answer"] = rep.cut
    rep.exhaustive = rep.cut == 0
    rep.assumptions = ["TLC", "spec/Prolog.tla", "text renderer of props/C35.py", "verif-hooks footprint accessor",
                       "source identity rule of Loader.tla (file-named vs string-named sources) as read from compile.rs/loader.pl"]
    return rep.finish()


def replay(path):
    d = json.load(open(path))
    v = d["detail"]["vector"]
    jobs, results = execute([v], 1)
    r = results[0]
    print("history:", hist_text(v))
    for k, t in enumerate(v["texts"]):
        print("--- T%d\n%s" % (k + 1, render_text(t)))
    if "res" not in r:
        print(r)
        return 0
    for st, x in zip(jobs[0]["steps"], r["res"]):
        print(json.dumps(st)[:90], "->", json.dumps(x)[:300])
    return 0
