"""C42 - Module qualification and imports resolve to the right definitions (replay of TLC-enumerated module layouts)."""
import json
import os
import shutil

from lib import common, terms
from lib.common import Report, run_jobs

PROP = "C42"

META = {
    "level": "model_checking",
    "text": "Module resolution is specified in TLA+ (spec/Modules.tla): a layout is a sequence of modules with definitions, export "
            "lists and imports (use_module/1, use_module/2 with import lists); Resolve(ctx, pred) is the module's own definition, "
            "else the imported one(s), else nothing; Eval(ctx, goal) gives the allowed outcomes of p(X), M:G, call/1, findall/3 and "
            "the meta-predicate mp/1 (declared mp(0): the argument runs in the caller's module), with existence_error(procedure, "
            "PI) when nothing is visible. TLC (MC_C42) enumerates all layouts of 2 modules + top module (quick; a sample of 3-module "
            "layouts) resp. 3 modules (thorough): each module defines/exports p/1 or not, imports none/all/[p/1]/[the others] from "
            "every earlier module, re-defines imported names, module 1 defines and exports (or not) mp/1; it checks sanity laws of "
            "the resolution function on every layout and prints, per layout, the allowed outcomes of every call site (4 + 5 per "
            "target module + imported drivers, in every module, plus a call into a module that does not exist). The driver writes "
            "each layout as module files under /verif/work, loads them into a real Machine (the top module as a module, and for a "
            "subset as the real user module on a fresh machine), runs every call site and compares the outcome with the allowed set.",
    "note": "Trusted: TLC, the rendering of the abstract layout to module source text (one clause per call site, generated from the "
            "site list printed by TLC), the LeafAnswer projection of the harness. Where the property leaves the outcome open the "
            "spec allows several outcomes: two imports of the same name into one module (either definition), and M:G where M only "
            "imports G (the imported definition or the existence error). The culprit of the existence error is compared up to module "
            "qualification. Import graphs are acyclic (a module imports from modules loaded earlier).",
    "technique": "TLA+ specification of module resolution evaluated by TLC over all layouts in bounds; replay against the real loader",
}

PER_JOB = 40
WORKERS = 6


# ------------------------------------------------------------------------------------------------
# rendering of a layout
# ------------------------------------------------------------------------------------------------

def goal_text(g, real):
    if g["t"] == "pred":
        return "%s(X)" % g["a"]
    if g["t"] == "qual":
        return "%s:%s" % (real.get(g["a"], g["a"]), goal_text(g["g"][0], real))
    if g["a"] == "findall":
        return "findall(X, %s, L)" % goal_text(g["g"][0], real)
    return "%s(%s)" % (g["a"], goal_text(g["g"][0], real))


def site_pred(site):
    if site["label"] == "d":
        return "d%d" % site["ctx"]
    return "s_%s%s" % (site["label"], site["n"] if site["n"] else "")


def site_var(site):
    return "L" if site["goal"]["t"] == "meta" and site["goal"]["a"] == "findall" else "X"


class Layout:
    def __init__(self, idx, vec, sites, root, as_user):
        self.idx, self.vec, self.sites, self.as_user = idx, vec, sites, as_user
        self.k = vec["k"]
        self.dir = os.path.join(root, "L%d" % idx)
        mods = vec["mods"]
        self.names = [m["name"] for m in mods]
        self.real = {}
        for m in mods:
            self.real[m["name"]] = "user" if (as_user and m["name"] == "top") else "%s_l%d" % (m["name"], idx)
        self.real_nomod = {"nomod": "nomod_l%d" % idx}
        self.texts = {}
        self.imported = set()
        for i, m in enumerate(mods, 1):
            self.texts[m["name"]] = self.module_text(i, m)

    def path(self, name):
        return os.path.join(self.dir, name)

    def module_text(self, i, m):
        name = m["name"]
        lines = []
        top_as_user = self.as_user and name == "top"
        if not top_as_user:
            lines.append(":- module(%s, [%s])." % (self.real[name], ", ".join("%s/1" % p for p in sorted(m["exports"]))))
        imps = m["imps"] if isinstance(m["imps"], dict) else {}
        for n in self.names:
            if n not in imps:
                continue
            spec = imps[n]
            if spec["mode"] == "all":
                lines.append(":- use_module('%s')." % self.path(n))
                self.imported.add(n)
            elif spec["mode"] == "list":
                lines.append(":- use_module('%s', [%s])." % (self.path(n), ", ".join("%s/1" % p for p in sorted(spec["list"]))))
                self.imported.add(n)
        defs = set(m["defs"])
        if "mp" in defs:
            lines.append(":- meta_predicate(mp(0)).")
            lines.append("mp(G) :- call(G).")
        if "p" in defs:
            lines.append("p(%s)." % name)
        real = dict(self.real)
        real.update(self.real_nomod)
        have_driver = False
        for s in self.sites:
            if s["ctx"] != i:
                continue
            if s["label"] == "d":
                have_driver = True
            lines.append("%s(%s) :- %s." % (site_pred(s), site_var(s), goal_text(s["goal"], real)))
        if ("d%d" % i in defs) != have_driver:
            raise common.ToolError("C42: driver d%d of the layout and the site list disagree" % i)
        return "\n".join(lines) + "\n"

    def write(self):
        os.makedirs(self.dir, exist_ok=True)
        for n, t in self.texts.items():
            with open(self.path(n) + ".pl", "w") as f:
                f.write(t)

    def steps(self):
        """harness steps: load the modules in layout order (load_module_string imports nothing anywhere; a module that
        imports from an earlier one reloads that one's file through its use_module directive), then the top module"""
        st = []
        if self.as_user:
            st.append({"new": True})
        for n in self.names[:-1]:
            st.append({"load": self.texts[n], "module": self.path(n) + ".pl"})
        if self.as_user:
            st.append({"consult": self.texts["top"]})
        else:
            st.append({"load": self.texts["top"], "module": self.path("top") + ".pl"})
        self.nload = len(st)
        for s in self.sites:
            st.append({"q": self.query(s), "max": 3})
        return st

    def query(self, s):
        ctx = self.names[s["ctx"] - 1]
        call = "%s(%s)" % (site_pred(s), site_var(s))
        if not (self.as_user and ctx == "top"):
            call = "%s:%s" % (self.real[ctx], call)
        return "catch(%s, error(E,_), true)." % call

    def describe(self):
        out = []
        for m in self.vec["mods"]:
            imps = m["imps"] if isinstance(m["imps"], dict) else {}
            im = ",".join("%s<-%s" % (n, imps[n]["mode"] if imps[n]["mode"] != "list" else "[" + "+".join(sorted(imps[n]["list"])) + "]")
                          for n in self.names if n in imps and imps[n]["mode"] != "none")
            out.append("%s{def=%s exp=%s%s}" % (m["name"], "+".join(sorted(d for d in m["defs"] if not d.startswith("d"))) or "-",
                                               "+".join(sorted(d for d in m["exports"] if not d.startswith("d"))) or "-",
                                               " " + im if im else ""))
        return " ".join(out) + (" [top=user]" if self.as_user else "")


def strip_pi(t):
    """existence_error culprit: Name/Arity, possibly module-qualified"""
    while t[0] == 'c' and t[1] == ':' and len(t[2]) == 2:
        t = t[2][1]
    if t[0] == 'c' and t[1] == '/' and len(t[2]) == 2 and t[2][0][0] == 'a' and t[2][1] == ('i', 1):
        return t[2][0][1]
    return None


def outcome(res):
    """project a query result to the outcome alphabet of Modules.tla"""
    if "panic" in res:
        return "panic:" + str(res["panic"])
    ans = [a for a in res.get("a", [])]
    if ans and ans[-1] == "F" and len(ans) > 1:
        ans = ans[:-1]
    if len(ans) != 1:
        return "other:" + json.dumps(ans)[:160]
    a = ans[0]
    if a == "F":
        return "fail"
    if isinstance(a, dict) and "b" in a:
        b = a["b"]
        if "E" in b and len(b) == 1:
            e = terms.from_h(b["E"])
            if e[0] == 'c' and e[1] == 'existence_error' and len(e[2]) == 2 and e[2][0] == ('a', 'procedure'):
                n = strip_pi(e[2][1])
                if n is not None:
                    return "err:" + n
            return "error:" + terms.show(e)
        if "X" in b and len(b) == 1:
            t = terms.from_h(b["X"])
            if t[0] == 'a':
                return "ans:" + t[1]
            return "other:" + terms.show(t)
        if "L" in b and len(b) == 1:
            t = terms.from_h(b["L"])
            if t[0] == 'c' and t[1] == '.' and t[2][1] == terms.NIL and t[2][0][0] == 'a':
                return "list:" + t[2][0][1]
            return "other:" + terms.show(t)
    return "other:" + json.dumps(a)[:160]


def visibility(layout, ctx_i):
    m = layout.vec["mods"][ctx_i - 1]
    if "p" in m["defs"]:
        imps = m["imps"] if isinstance(m["imps"], dict) else {}
        imported = any(imps[n]["mode"] == "all" or "p" in imps[n]["list"] for n in imps)
        return "own+import" if imported else "own"
    imps = m["imps"] if isinstance(m["imps"], dict) else {}
    mods = {x["name"]: x for x in layout.vec["mods"]}
    srcs = [n for n in imps if "p" in mods[n]["exports"] and (imps[n]["mode"] == "all" or "p" in imps[n]["list"])]
    return "none" if not srcs else "import1" if len(srcs) == 1 else "import2+"


def _tick(what, t0=[0.0]):
    import sys
    import time
    if os.environ.get("C42_DEBUG"):
        now = time.time()
        t0[0] = t0[0] or now
        sys.stderr.write("[C42 %7.1fs] %s\n" % (now - t0[0], what))


def run(tier):
    rep = Report(PROP, tier, META["level"])
    _tick("start")
    quick = tier == "quick"
    rep.rule = ("layouts = all parameter combinations of MC_C42 (quick: 2 modules + top with modes none/all/[p], plus a sample of "
                "3-module layouts; thorough: 2 modules with all four import modes and 3 modules with none/all/[p]); every layout is "
                "loaded with the top module as a module, every %dth also with the top module as the real user module on a fresh "
                "machine; one evaluation = one call site of one layout; distinct = (modules, site kind, target relative to the "
                "caller, visibility of p in the caller, allowed outcomes kind, top as user?)" % (10 if quick else 40))
    vecs = []
    for k in (2, 3):
        res, vs = common.generate("MC_C42", "MC_C42_%s_k%d.cfg" % (tier, k), workers=6 if quick else 8, timeout=3000)
        rep.add_tlc(res)
        vecs += vs
    _tick("generated")
    sites = {v["k"]: v["sites"] for v in vecs if v["kind"] == "sites"}
    lays = sorted((v for v in vecs if v["kind"] == "layout"), key=lambda v: json.dumps([v["k"], v["prm"]], sort_keys=True))
    if not lays or set(sites) != {2, 3}:
        raise common.ToolError("C42: no layouts generated")
    root = os.path.join(common.WORK, "c42-%d" % os.getpid())
    shutil.rmtree(root, ignore_errors=True)
    os.makedirs(root)
    every = 10 if quick else 40
    layouts = []
    for i, v in enumerate(lays):
        if len(v["exp"]) != len(sites[v["k"]]):
            raise common.ToolError("C42: expectation vector and site list differ in length")
        layouts.append(Layout(len(layouts), v, sites[v["k"]], root, False))
        if i % every == 0:
            layouts.append(Layout(len(layouts), v, sites[v["k"]], root, True))
    for lay in layouts:
        lay.write()

    jobs = []
    for bi in range(0, len(layouts), PER_JOB):
        steps = []
        prev_user = False
        for lay in layouts[bi:bi + PER_JOB]:
            lay.renew = prev_user and not lay.as_user      # the user module of the machine holds the previous layout: start afresh
            if lay.renew:
                steps.append({"new": True})
            steps += lay.steps()
            prev_user = lay.as_user
        jobs.append({"id": bi, "fresh": True, "steps": steps, "timeout": 600})
    _tick("files written")
    results = run_jobs(jobs, workers=WORKERS if quick else 8, job_timeout=600)
    _tick("replayed")

    nviol = 0
    for job in jobs:
        r = results.get(job["id"], {"crash": "missing"})
        if "crash" in r:
            raise common.ToolError("C42: harness job %s crashed: %s" % (job["id"], r["crash"]))
        pos = 0
        for lay in layouts[job["id"]:job["id"] + PER_JOB]:
            if lay.renew:
                pos += 1
            n = lay.nload + len(lay.sites)
            outs = r["res"][pos:pos + n]
            pos += n
            loads = outs[:lay.nload]
            bad = [x for x in loads if "panic" in x or (x.get("out") or "").strip()]
            if bad:
                rep.case(("load", lay.k, lay.as_user))
                rep.violation("load k=%d %s: %s" % (lay.k, lay.describe(), json.dumps(bad[0])[:200]),
                              {"layout": lay.vec, "as_user": lay.as_user, "load": bad, "texts": lay.texts})
                continue
            for s, exp, out in zip(lay.sites, lay.vec["exp"], outs[lay.nload:]):
                got = outcome(out)
                rel = "-" if not s["n"] else "self" if s["n"] == s["ctx"] else "top" if s["n"] == lay.k + 1 else "other"
                rep.case((lay.k, s["label"], rel, "top" if s["ctx"] == lay.k + 1 else "mod", visibility(lay, s["ctx"]),
                          "|".join(sorted(x.split(":")[0] for x in exp)), lay.as_user))
                if got not in exp:
                    nviol += 1
                    rep.violation("k=%d %s site=%s.%s%s goal=%s expected=%s got=%s" % (
                        lay.k, lay.describe(), lay.names[s["ctx"] - 1], s["label"], s["n"] or "", goal_text(s["goal"], {}),
                        "|".join(sorted(exp)), got),
                        {"layout": lay.vec, "as_user": lay.as_user, "site": s, "expected": sorted(exp), "got": got,
                         "texts": lay.texts, "query": lay.query(s)})
    rep.traces = len(layouts)
    rep.extra["layouts"] = len(lays)
    rep.extra["layouts_with_top_as_user"] = sum(1 for x in layouts if x.as_user)
    for lay in layouts[:: max(1, len(layouts) // 4)][:4]:
        rep.sample({"layout": lay.describe(), "k": lay.k,
                    "sites": ["%s.%s%s %s -> %s" % (lay.names[s["ctx"] - 1], s["label"], s["n"] or "", goal_text(s["goal"], {}),
                                                    "|".join(sorted(e))) for s, e in list(zip(lay.sites, lay.vec["exp"]))[:8]]})
    rep.exhaustive = True
    rep.extra["exhaustive_scope"] = "every layout of the stated parameter space was generated by TLC and replayed"
    rep.assumptions = ["TLC", "rendering of the abstract layout to module files", "LeafAnswer projection of the harness",
                       "outcomes the property leaves open are allowed either way (double import of one name; M:G with G only imported into M)"]
    if not rep.violations:          # replay re-renders a layout from its vector
        shutil.rmtree(root, ignore_errors=True)
    return rep.finish()


def replay(path):
    d = json.load(open(path))
    det = d["detail"]
    vec = det["layout"]
    res, vs = common.generate("MC_C42", "MC_C42_quick_k%d.cfg" % vec["k"], workers=2, timeout=3000)
    sites = [v for v in vs if v["kind"] == "sites"][0]["sites"]
    root = os.path.join(common.WORK, "c42-replay-%d" % os.getpid())
    shutil.rmtree(root, ignore_errors=True)
    lay = Layout(0, vec, sites, root, det.get("as_user", False))
    lay.write()
    r = run_jobs([{"id": 0, "fresh": True, "steps": lay.steps(), "timeout": 120}], workers=1, job_timeout=120)[0]
    print(lay.describe())
    for n, t in lay.texts.items():
        print("%% ---- %s.pl\n%s" % (n, t))
    outs = r.get("res", [])[lay.nload:]
    for s, exp, out in zip(lay.sites, vec["exp"], outs):
        got = outcome(out)
        print("%-70s expected %-24s got %s%s" % (lay.query(s), "|".join(sorted(exp)), got, "" if got in exp else "   <== MISMATCH"))
    return 0
